#!/usr/bin/env python3
"""Rewrite section 9 of DESIGN.md from /verif/seeded/*/*/{meta,result}.json."""
import json, os, re
ROOT = os.path.dirname(os.path.abspath(__file__))
rows = []
base = os.path.join(ROOT, "seeded")
for pid in sorted(os.listdir(base)):
    for var in sorted(os.listdir(os.path.join(base, pid))):
        d = os.path.join(base, pid, var)
        try:
            meta = json.load(open(os.path.join(d, "meta.json")))
        except Exception:
            meta = {}
        try:
            res = json.load(open(os.path.join(d, "result.json")))
        except Exception:
            res = {}
        summary = re.sub(r"\s+", " ", str(meta.get("summary", "?"))).replace("|", "/")
        if len(summary) > 230:
            summary = summary[:227] + "..."
        files = ", ".join(os.path.basename(f) for f in (meta.get("files") or []))
        sig = ""
        for r in res.get("runs", []):
            if r.get("exit") == 1 and r.get("signatures"):
                sig = r["signatures"][0].split("  (x")[0][:90].replace("|", "/")
                break
        det = "not applied" if res.get("applied") is False else ("**missed**" if not res.get("detected") else res.get("detected_by", "?"))
        rows.append("| %s/%s | %s | %s | %s | `%s` |" % (pid, var, files, summary, det, sig))
n = len(rows)
caught = sum(1 for r in rows if "**missed**" not in r and "not applied" not in r)
text = ["## 9. Seeded changes: which check catches which", "",
        "%d seeded changes (rounds of fresh sub-agents, each given only the property text, the earlier changes to avoid, and a scratch worktree); %d are reported by the property's own check (column 4: the tier that first reported it)." % (n, caught),
        "Each change compiles and passes the 443 repository tests. `./seedtest` regenerates the result.json files; this table is rewritten by mk_seed_table.py.", "",
        "| change | files | what was changed | caught by | first signature |", "|---|---|---|---|---|"] + rows + [""]
p = os.path.join(ROOT, "DESIGN.md")
s = open(p).read()
i = s.index("## 9. Seeded changes")
open(p, "w").write(s[:i] + "\n".join(text))
print(n, "changes,", caught, "caught")
