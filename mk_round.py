#!/usr/bin/env python3
"""Prepare a round of seeded-change tasks: one scratch worktree of /repo per property under /tmp/sw/<ID>
with a TASK.md that contains only the property text, the working rules and one-line descriptions of the
changes earlier rounds already produced for that property (so a new round looks elsewhere).
Nothing about /verif's machinery goes into the task.
Usage: mk_round.py <letter1> <letter2> [ID ...]"""
import json, os, subprocess, sys

ROOT = os.path.dirname(os.path.abspath(__file__))
SW = "/tmp/sw"
l1, l2 = sys.argv[1], sys.argv[2]
want = sys.argv[3:]
props = [json.loads(l) for l in open(os.path.join(ROOT, "properties.jsonl"))]
os.makedirs(SW, exist_ok=True)
for p in props:
    pid = p["id"]
    if want and pid not in want:
        continue
    wt = os.path.join(SW, pid)
    if not os.path.exists(wt):
        subprocess.check_call(["git", "-C", "/repo", "worktree", "add", "--detach", wt, "HEAD"], stdout=subprocess.DEVNULL, stderr=subprocess.DEVNULL)
    prev = []
    d = os.path.join(ROOT, "seeded", pid)
    for var in sorted(os.listdir(d)) if os.path.isdir(d) else []:
        try:
            m = json.load(open(os.path.join(d, var, "meta.json")))
            prev.append("- (%s) %s" % (", ".join(m.get("files") or []), " ".join(str(m.get("summary", "")).split())[:330]))
        except Exception:
            pass
    out = os.path.join(SW, "out", pid)
    os.makedirs(os.path.join(out, l1), exist_ok=True)
    os.makedirs(os.path.join(out, l2), exist_ok=True)
    anchors = p.get("anchors", {})
    text = f"""# Task: two realistic property-breaking changes to falconre/falcon

You work in a scratch git worktree of the falcon repository (a Rust binary-analysis framework):

    {wt}

Work ONLY inside that directory and your output directory `{out}`. Do not read or write anything under
/verif or /repo. There is no network; build with `cargo ... --offline`. Use
`CARGO_TARGET_DIR={wt}/target` (the default) and at most `-j 4` for cargo so other work on this machine is not starved.

## The property

**{p['title']}**

{p['statement']}

Files the property is mostly about: {', '.join(anchors.get('files', []))}

## What to produce

Two *independent* changes to the falcon source (call them `{l1}` and `{l2}`), each of which

1. **breaks the property above** (makes falcon violate it for some input / state / history),
2. **still compiles** and **passes the whole existing test suite** (`cargo test --offline` in the worktree: all tests must pass with the change applied),
3. looks like something a maintainer could plausibly commit: a refactoring that is subtly wrong, an "optimisation"
   with a missed case, an off-by-one at a boundary, a wrong-but-similar field or helper, a forgotten case in a match,
   two sites that each look fine alone but disagree, state cached across calls, a changed default.
   Not sabotage that ordinary use would expose at once: it must need **something specific to manifest** - an unusual
   input or operand constellation, a particular multi-step sequence of API calls, a boundary value, a rarely used
   instruction form / width / mode / endianness / architecture, a particular graph shape, and so on.
4. is **different in mechanism and location from the earlier changes listed below** and from each other
   (prefer functions, match arms, clauses of the property and trigger shapes that those did not touch).

For each change also write a **demonstration**: a small stand-alone Rust program using falcon's public API
(`demo.rs`, to be copied to `examples/seed_demo.rs` in the worktree and run with
`cargo run --offline -q --example seed_demo`) that exits 0 and prints what it checked on the UNCHANGED code, and exits
non-zero (printing what went wrong) with the change applied. The demonstration must check the property itself
(a consequence of the statement above on a concrete input), not an implementation detail.

You must actually run everything: the test suite with each change applied (all pass), the demonstration without the
change (exit 0) and with it (exit non-zero).

## Output (exact layout)

For `{l1}` and `{l2}` respectively, in `{out}/{l1}/` and `{out}/{l2}/`:

* `patch.diff`  - `git diff` of the worktree with ONLY that change applied (no example file, nothing else); it must apply
  with `git apply` to a clean checkout of the worktree's HEAD.
* `demo.rs`     - the demonstration program.
* `demo.md`     - how to run it, the triggering input, the output without and with the change.
* `meta.json`   - {{"property": "{pid}", "variant": "<{l1}|{l2}>", "files": [changed files], "summary": "<what was changed, 1-3 sentences>",
  "trigger": "<what is needed for it to manifest>", "tests_pass": true, "why_tests_pass": "<why the existing tests do not notice>"}}

When you are done, leave the worktree clean (`git checkout -- . && git clean -fdq examples`; keep `target/`), and reply with
a few lines: for each change the file changed, one sentence on the mechanism and the trigger, and confirmation of what you ran.

## Changes earlier rounds already produced for this property (do something else)

{os.linesep.join(prev) if prev else '(none)'}
"""
    open(os.path.join(wt, "TASK.md"), "w").write(text)
    print(pid, wt)
