"""Per-property configuration of the orchestrator (budgets, evidence texts)."""

PROPS = {
    "C04": {
        "quick_secs": 12,
        "thorough_secs": 180,
        "release_leg": True,
        "totality": True,
        "min_evaluations": 100000,
        "rule": "every (operator, operand pair) at widths 1..4 (1..6 thorough) enumerated exhaustively, plus corner-biased random "
                "operations, well-sorted and ill-sorted random trees (depth<=5), constructor decisions, sra/rotl builders and "
                "scalar substitution at widths 1..512, each compared with the BigUint reference evaluator. A case is non-trivial "
                "when the result differs from both operands or an error path is taken; distinct = (operator | builder | tree depth, "
                "width class, outcome class).",
        "exhaustive_part": "all binary operators x all operand pairs, zext/sext/trun to 1..9 bits and ite, at widths 1..4 (quick) / 1..6 (thorough)",
        "technique": "differential monitor: falcon eval/Constant/Expression builders vs BigUint reference evaluator; exhaustive at small widths",
        "level_text": "Every operator is enumerated exhaustively at widths 1-4 (6 thorough) and sampled with corner-biased operands at widths up to 512 "
                      "against an independent BigUint evaluator; panics and aborts are observed as violations. Random exploration cannot cover the "
                      "unbounded tree space, so the claim is 'held on the executions observed'.",
        "level_note": "trusts harness/src/refeval.rs (cross-checked exhaustively against native 8-bit arithmetic) and num-bigint",
        "assumptions": [
            "reference evaluator harness/src/refeval.rs (cross-checked against native 8-bit arithmetic exhaustively in its unit test)",
            "ill-sorted ite nodes built from raw enum variants are not judged (the statement speaks of operand width mismatches)",
        ],
    },
}

PROPS["C16"] = {
    "quick_secs": 10,
    "thorough_secs": 150,
    "release_leg": True,
    "totality": True,
    "min_evaluations": 100000,
    "technique": "history monitor: random set_memory/set32 histories vs byte-map model, full read sweep (get8/get/get32/permissions/sections)",
    "rule": "histories of 2-40 set_memory calls (overlapping, nested, identical, adjacent, bridging, empty, one-byte) and in-region set32 in a "
            "96-byte hot window at address 0x1000, 0, 2^63-128 or 2^64-65536, both endiannesses; after each history every address of the "
            "window +-8/+64 is read with get8/permissions, get at 16/24/32/64/128 bits, get32, and sections() is flattened and compared with "
            "the model. Non-trivial = the history's last write overlaps or abuts existing data or is empty; distinct = (overlap kind of the "
            "last write, endianness, history length bucket).",
    "level_text": "Random histories against an executable byte-map model with a complete read sweep after each history; panics are observed "
                  "as violations. Shapes of overlap are enumerated by construction, addresses and lengths are sampled.",
    "level_note": "trusts the BTreeMap model in harness/src/c16.rs; set32/get32 judged only where the statement defines them (four bytes last written by one region)",
    "assumptions": [
        "set32 is only issued on four bytes last written by the same set_memory call ('within one region')",
        "get32 spanning two regions may answer None; a value, if given, must be the model's",
        "regions never extend to address 2^64 (address arithmetic at the very top is not exercised)",
    ],
}

PROPS["C08"] = {
    "quick_secs": 12,
    "thorough_secs": 180,
    "release_leg": True,
    "totality": False,
    "min_evaluations": 100000,
    "technique": "history monitor: store/load/clone/set_permissions/compare histories on up to 4 handles vs per-handle byte-map model, neighbourhood re-read on every handle after each mutation",
    "rule": "histories of 10-300 operations on up to 4 clones, addresses in a window straddling the 1024-byte page boundary (0x3e8-0x418), "
            "page start and a second boundary, at base 0, 0x10000, 2^63-4096 and 2^64-8192; widths 8..256 bits; both endiannesses; with and "
            "without a backing that has holes (one backing in three built with the opposite byte order); value types il::Constant and il::Expression (constant-leaf trees, evaluated by refeval). After "
            "every store/set_permissions each live handle is re-read byte by byte +-16 around the touched range plus random wide loads and "
            "permissions. Non-trivial = a store that overlaps earlier values or crosses a page; distinct = (overlap shape, endianness, backing, value type). Expression values are also zext/sext of a half-width constant when the stored value is such an extension. A directed case builds pairs of memories of different byte order (same, equal or no backing; with and without equal stores): they may compare equal only if no 16/32-bit load tells them apart.",
    "level_text": "Random operation histories against an executable reference model with immediate re-reads on all clones, so copy-on-write leaks, "
                  "wrong splits of overlapped values and stale back-references are seen with a short witness. Coverage is by sampling; overlap shapes reached are listed in the evidence.",
    "level_note": "trusts the byte-map model in harness/src/c08.rs; permissions are modelled page-granular, as falcon documents set_permissions ('for the page at the given address')",
    "assumptions": [
        "permissions are page-granular (1024-byte pages): a set range's permissions are expected on every address of the pages it overlaps",
        "addresses within 4 KiB of 2^64 are not used (wrap-around is not defined by the statement)",
        "Expression values are constant-leaf trees; loaded expressions are evaluated by the harness's reference evaluator",
    ],
}

PROPS["C11"] = {
    "quick_secs": 12,
    "thorough_secs": 240,
    "release_leg": False,
    "totality": False,
    "min_evaluations": 50000,
    "technique": "differential monitor: falcon::graph::Graph algorithms vs brute-force textbook definitions; exhaustive over all digraphs on <=3 (thorough: <=4) vertices x every root; edit histories vs set model",
    "rule": "every digraph (self-loops included) on 1..3 vertices (thorough: 4 vertices, 65536 graphs) x every root, plus random graphs of 3-14 "
            "vertices with sparse ids, irreducible cores and unreachable parts, plus random insert/remove histories checked against a set model "
            "after each step. Compared per graph and root: reachable/unreachable sets, dominators, immediate dominators, dominator tree, dominance "
            "frontiers (reachable vertices), natural loops, loop tree, reducibility, acyclicity, pre/post order validity, DFS tree, acyclic version, "
            "transitive predecessors, topological order, and all adjacency views. Non-trivial/distinct = (vertex count, edge-count bucket, "
            "unreachable present, reducible, loop structure).",
    "exhaustive_part": "all digraphs with self-loops on <=3 vertices (quick) / <=4 vertices (thorough), every root",
    "level_text": "Exhaustive on small graphs (a finite space fully enumerated) and sampled on larger ones against oracles that implement the "
                  "path-based definitions directly; larger graphs are only sampled.",
    "level_note": "trusts harness/src/graphref.rs (definitions by reachability with a vertex deleted, Kahn's algorithm); dominance frontiers of vertices "
                  "unreachable from the root, and missing roots, are not judged (the statement does not define them)",
    "assumptions": [
        "dominance frontier entries of vertices unreachable from the root are not judged",
        "pre-order is accepted if it is a possible DFS pre-order; post-order if every reachable vertex appears once, the root last, and v precedes u for every edge u->v with no path back",
        "compute_acyclic/compute_dfs_tree are judged by validity (sub-graph, acyclic/spanning, reachability preserved), not by a specific choice of edges",
    ],
}

PROPS["C18"] = {
    "quick_secs": 10,
    "thorough_secs": 120,
    "min_evaluations": 100000,
    "technique": "differential monitor: RefProgramLocation forward/backward/enumeration/round-trips vs an independently built location graph",
    "rule": "random programs of 1-3 functions (<=8 blocks; empty blocks, self-loops, multi-in/multi-out blocks, unreachable blocks, duplicate and "
            "missing instruction addresses, non-dense and out-of-order instruction indices, functions that went through merge(), function addresses unrelated to their instruction addresses); for every location of every function forward() and backward() are compared with the independent "
            "location graph, the converse relation is checked pairwise, the forward closure from the entry is compared with graph reachability, "
            "each location is round-tripped through ProgramLocation/FunctionLocation on the program and on a clone (apply, migrate), and "
            "from_address is queried for every address in the range used. Distinct = (block count, edge count, has empty block, has self-loop). One function in four carries phi nodes (also in blocks without instructions); one case in three re-assembles a second program from clones of the first program's functions (which arrive with an index) behind an optional fresh function and checks that every function is stored under the index it reports before running the same location checks.",
    "level_text": "All locations and all addresses of each generated program are enumerated completely; programs themselves are sampled.",
    "level_note": "trusts harness/src/locgraph.rs (built from blocks(), instructions(), edges() only)",
    "assumptions": ["programs come from the harness IL generator (harness/src/ilgen.rs)"],
}

PROPS["C06"] = {
    "quick_secs": 16,
    "thorough_secs": 360,
    "memcheck_leg": 40,
    "asan_leg": 40,
    "totality": True,
    "min_evaluations": 20000,
    "technique": "differential trace monitor: generated machine-code programs lifted with translate_function_extended and executed by the reference IL interpreter vs the same bytes executed one machine instruction at a time (each instruction lifted on its own at its pc); the two sequences of (instruction address, IL operation) and the way they end must be identical; structural monitor on every recovered function; thorough repeats the workload under valgrind memcheck and under AddressSanitizer (Rust + C decoders instrumented)",
    "rule": "programs of 2-120 instructions for all 7 translators (x86, amd64, mips, mipsel, ppc, aarch64, aarch64eb) built from the instructions each lifter accepts: "
            "ALU/move/memory filler incl. 10-byte x86 instructions, forward and backward conditional and unconditional direct branches (x86 rel8/rel32, loop), branches to the "
            "next instruction, MIPS delay slots (also as branch targets), returns, indirect jumps through a reserved register with manual edges (true target plus decoys, "
            "conditional and unconditional), never-taken manual edges between arbitrary instructions, x86 branches into the middle of an instruction; code placed at every "
            "alignment relative to the 64-byte translation window, straight-line runs longer than a window, function entry in the middle of the program, the image as one or as two adjacent memory sections; 3-4 initial states "
            "per program. Structure per function: address and entry block, no edge naming a missing block, each statically reachable instruction present with exactly the IL "
            "operations of its own lifting (neither missing nor duplicated). Non-trivial = an execution of >= 2 distinct instructions compared to its end; distinct = "
            "(translator, end kind, loop, window-crossing, mid-block target, manual/indirect/overlap features). Direct calls (x86 call rel32, MIPS jal/bal with delay slot, PPC bl, A64 bl) stand where returns stand in half of the cases: a Branch operation that ends the run wherever in a block or 64-byte window it happens to be. One program in four is lifted from falcon::executor::Memory (paged memory over a backing) in which the backing holds stale bytes for 1-3 stretches and the right bytes are stored on top, stretches starting at 1024-byte page boundaries included; one base address in five lies beyond 0x80000000 (32-bit translators) or far above 4 GiB (64-bit ones); x86 programs contain cld/std and string instructions.",
    "level_text": "Sampled (program, initial state) pairs; the sequential oracle uses falcon's own single-instruction lifting (judged separately by C01-C03), so this check isolates block discovery, sharing, edges, windows and merging.",
    "level_note": "a Branch operation hands control to its target (executor semantics); execution stays inside the function only through a requested manual edge; runs are cut at 1500 IL operations on both sides; trusts refinterp.rs/refeval.rs",
    "assumptions": [
        "the per-instruction lifting used by the oracle is the one judged by C01/C02/C03",
        "a lift error on a program with x86 branches into the middle of instructions is not judged (the bytes decoded there are arbitrary)",
        "the recovered function may contain code beyond what direct branches reach (e.g. after call-like instructions): counted, not judged",
    ],
}

PROPS["C07"] = {
    "quick_secs": 12,
    "thorough_secs": 180,
    "min_evaluations": 100000,
    "technique": "lock-step differential monitor: executor::Driver vs independent reference IL interpreter, comparing location, all scalars and memory after every step, or the error kind",
    "rule": "random IL programs of 1-3 functions (<=6 blocks each; assignments, loads, stores, indirect branches within and across functions, "
            "to on-demand-liftable x86 code and to nowhere, function addresses unrelated to instruction addresses, a data window straddling a page boundary of the paged memory, intrinsics, divisions; widths 1..128; 2- and 3-way guard partitions, empty blocks, "
            "self-loops) from corner-biased initial states with occasionally undefined scalars and an unmapped byte, both endiannesses, memory "
            "with and without backing; one in ten programs has guards that are deliberately not exhaustive. Lock-step for <=200 steps. "
            "Distinct = (how the run ended: terminal/undefined scalar/unmapped/div by zero/intrinsic/no guard/branch nowhere/lifted/step cap, "
            "endianness, backing, cross-function branch). Intrinsics are generated with undeclared, empty and non-empty write sets; one backing memory in three has the byte order opposite to the paged memory on top of it. In the non-partition mode one two-way split in three uses guards of 8-64 bits that take the values 0..3: an edge is enabled exactly when its guard evaluates to one.",
    "level_text": "Lock-step comparison with a reference interpreter transcribed from the statement, on sampled programs and states; every step "
                  "of every run is an oracle comparison of the complete observable state.",
    "level_note": "trusts harness/src/refinterp.rs and refeval.rs; programs whose guards are not mutually exclusive are not judged once two guards hold at the same time",
    "assumptions": [
        "reference interpreter harness/src/refinterp.rs",
        "a block without outgoing edges ends the function: falcon reports ExecutorNoValidLocation there, which is accepted",
        "when two guards of a block hold simultaneously (ill-formed program) the run is not judged further",
    ],
}

PROPS["C09"] = {
    "quick_secs": 12,
    "thorough_secs": 180,
    "min_evaluations": 20000,
    "technique": "differential monitor: falcon fixed-point solvers vs independent Kleene iteration on an independent location graph, with harness-defined monotone-by-construction analyses over finite lattices",
    "rule": "random CFGs (<=7 blocks: loops, self-loops, empty blocks, multiple exits, entry inside a loop, unreachable parts) x random analyses over "
            "powerset(3..5), products of chains and flat lattices whose per-location transfer functions are joins of step functions (monotone by "
            "construction, additionally verified by brute force, None = bottom), forward and backward: the returned map must equal the independent "
            "least solution (same key set = locations reachable from entry/exit, same state everywhere). Random table transfer functions (usually "
            "non-monotone) must give FixedPointOrdering/FixedPointMaxSteps or a map satisfying the equations; an unbounded counter with a small "
            "budget must give FixedPointMaxSteps iff a cycle is reachable. Distinct = (direction, monotone?, lattice, cyclic, entry-in-loop, empty blocks). One monotone run in three passes force = true (states joined instead of compared): same least solution expected. Functions come from ilgen with sparse and unordered instruction indices, permuted block numbering and empty entry blocks.",
    "level_text": "Sampled (function, analysis) pairs; each is decided exactly by comparison with an independently computed least fixed point.",
    "level_note": "trusts the Kleene iteration and lattice tables in harness/src/c09.rs and harness/src/locgraph.rs; the backward solver has no step budget, so unbounded-height analyses are only fed to the forward solver",
    "assumptions": ["least solution is computed with 'no state' (None) as bottom, as the solver's interface defines it"],
}

PROPS["C15"] = {
    "quick_secs": 12,
    "thorough_secs": 150,
    "min_evaluations": 50000,
    "technique": "invariant monitor after every CFG editing operation + differential execution (reference interpreter) across merge() and append()",
    "rule": "random histories of 10-60 operations (new_block, block operations, remove_instruction, conditional/unconditional edges incl. invalid "
            "ones, set_entry/set_exit incl. invalid, append, insert, merge) on two live graphs with all structural invariants re-checked after every "
            "step (success or failure), and across every successful merge() in a history (blocks with mixed conditional/unconditional out-edges included) the set of instruction sequences executable from the entry, guards ignored, up to 6 instructions, must be unchanged; merge() on random functions (<=8 blocks, loops, self-loops, empty blocks, unreachable blocks) with executed-"
            "operation traces and final states compared before/after from 4 states; a.append(b) compared with running a then b; "
            "BlockTranslationResult::blockify on lifted amd64 blocks. Distinct = (scenario, size buckets, number of blocks merged). One case in ten is a chain: 2-4 generated graphs, a third of them with an exit that has successors of its own (loop tail, self-loop), joined by repeated append() and - as the instruction graphs of one BlockTranslationResult - by blockify(); the executable instruction sequences of both results (guards ignored, 7 instructions deep) must equal the language of 'run g0, then g1, ...' written down over (graph, block) pairs without the code under test. In chains one exit block in four ends in a Branch operation.",
    "level_text": "Sampled operation histories with a complete invariant check after each step, and sampled functions/states for the meaning-preservation half.",
    "level_note": "trusts harness/src/refinterp.rs for the execution comparison; append is judged only when both exits have no outgoing edges (as lifters produce)",
    "assumptions": ["a.append(b) is compared with 'run a then b' only when a's run ends at a's exit block and both exits have no successors"],
}

PROPS["C12"] = {
    "quick_secs": 12,
    "thorough_secs": 180,
    "min_evaluations": 100000,
    "technique": "shadow-state monitor: reference interpreter tracks the last writer of every scalar during executions; checked against reaching_definitions/use_def at every executed location; static kill-free-path and inverse-relation checks",
    "rule": "random IL functions (<=7 blocks; loops, instructions reading several scalars or the scalar they write, guarded edges, loads/stores, "
            "intrinsics with and without declared effects executed as deterministic havoc) x 6 executions of <=150 steps from corner-biased states. "
            "After each executed location every last writer must be in reaching_definitions[location]; before each instruction/guarded edge the "
            "last writer of every scalar it reads must be in use_def; every reported assignment/load must reach along a path of the independent "
            "location graph without another assignment/load of the scalar; def_use must be exactly the inverse of use_def. Distinct = (block count, "
            "loop?, multi-scalar read seen, self-read seen, intrinsic present). The scalars an operation or guard reads are computed by the harness's own walk over the IL (indirect-branch targets that read scalars included), not by falcon's scalars_read. Three-way splits include partitions whose guards read different scalars (a / !a&b / !a&!b); placeholder nops wrap assignments.",
    "level_text": "Sampled functions and executions; each executed location is an oracle comparison, the static half is complete per function.",
    "level_note": "trusts harness/src/refinterp.rs (last-writer shadow) and locgraph.rs; reported stores/nops/branches in reaching definitions are outside the statement and ignored; an execution ends at an indirect branch",
    "assumptions": ["intrinsics with declared written scalars are executed as writes of those scalars; undeclared ones as no-ops", "the function's execution ends at an indirect branch (no successor in its CFG)"],
}

PROPS["C14"] = {
    "quick_secs": 12,
    "thorough_secs": 180,
    "min_evaluations": 100000,
    "technique": "translation-validation-style lock-step monitor: input and dead_code_elimination output executed side by side in the reference interpreter, observables compared at every step",
    "rule": "random IL functions (as C12, one in eight with blocks unreachable from the entry) -> dead_code_elimination; structure must be identical up to "
            "operations replaced by nop; for 6 initial states on which the input runs without fault (<=400 steps) both run in lock-step: same location "
            "path, same stores/branch/intrinsic events in order, identical scalar state at every indirect branch and intrinsic, identical final "
            "scalars at a block without successors. Distinct = (block count, number of operations removed, load removed).",
    "level_text": "Sampled functions and states; every step of every paired run is compared, so a wrongly removed operation is seen as soon as it matters.",
    "level_note": "trusts harness/src/refinterp.rs; intrinsics are observable events with deterministic havoc of their declared written scalars",
    "assumptions": ["initial states on which the input faults within 400 steps are skipped, as the statement only speaks of fault-free runs"],
}

PROPS["C13"] = {
    "quick_secs": 12,
    "thorough_secs": 180,
    "min_evaluations": 100000,
    "technique": "shadow-state monitor: executions in the reference interpreter with an 'assigned by this function' shadow; every reported constant and every Constants::eval result checked against the concrete state before each executed location",
    "rule": "random IL functions in two modes: def-before-use (every scalar assigned in the entry block first; constants() must return Ok) and "
            "unrestricted (Ok or Err accepted, never a panic); branches assigning different values, loops, loads, indirect branches, intrinsics, "
            "one in eight with unreachable blocks. 6 executions of <=150 steps each: before each executed location every reported constant of a "
            "scalar the function has assigned must equal the concrete value; operand expressions and random expressions over assigned scalars must "
            "evaluate (Constants::eval) to None or the concrete value. Distinct = (mode, block count, back edge, constants reported, constants derived). One function in three contains calls (a Branch to a constant in the middle of a block): the reference execution lets the callee change up to three scalars and resumes at the next instruction; what was reported before the call must not be reported as still holding after it unless re-established.",
    "level_text": "Sampled functions and executions; the monitor judges every (location, scalar) report met by an execution.",
    "level_note": "trusts harness/src/refinterp.rs; reports about scalars the function has not assigned in the current run are not judged (as the statement says)",
    "assumptions": ["intrinsics with declared written scalars are executed as writes of those scalars; undeclared ones as no-ops", "an execution ends at an indirect branch"],
}

PROPS["C10"] = {
    "quick_secs": 12,
    "thorough_secs": 180,
    "min_evaluations": 100000,
    "technique": "structural monitors (skeleton preserved, single assignment, brute-force dominance of definitions over uses, phi inputs = predecessors) + lock-step differential execution of the function and its SSA form in the reference interpreter (SSA mode)",
    "rule": "random IL functions (<=8 blocks; loops through the entry, self-loops, one in five with unreachable blocks, scalars assigned on two "
            "branches and read only by a later edge guard, scalars read before assignment, mixed widths, intrinsics) -> ssa_transformation. "
            "Checked: Ok; stripping versions and phi nodes gives back the input; every version written once; every versioned use (operand, guard, "
            "phi input) has a definition that dominates it (dominators by the path definition); every phi has exactly one input per predecessor "
            "and an entry input only in the entry block; 6 lock-step executions (<=200 steps): same path, same events, same value written by every "
            "instruction. Distinct = (block count, phi count, entry-in-loop, unreachable, guard-only scalar).",
    "level_text": "Sampled functions; the structural checks are complete per function and the differential execution samples states.",
    "level_note": "trusts harness/src/graphref.rs for dominance and harness/src/refinterp.rs (phi selection by incoming edge); blocks unreachable from the entry are exempt from the versioning checks",
    "assumptions": ["writes in blocks unreachable from the entry are not required to be versioned (no path from the entry reaches them)"],
}

PROPS["C17"] = {
    "quick_secs": 12,
    "thorough_secs": 180,
    "min_evaluations": 100000,
    "technique": "execution monitor: reference-interpreter runs check sp_now == sp_entry + reported offset (mod 2^w) after every executed location, for all seven architecture descriptors",
    "rule": "for each of the 7 architectures (its stack_pointer() scalar, 32 or 64 bits): random IL functions whose entry block has no incoming edge, "
            "mixing sp +- constants, constant + sp, sp = other register, sp loaded from memory, sp saved elsewhere, sp & -16, sp = constant, sp + sp, "
            "constant - sp, nested affine forms, balanced/unbalanced diamonds and loops, plus (one case in eight) a machine-code function made of the architecture's stack-adjusting idioms lifted by its own translator; stack_pointer_offsets must return Ok; 6 executions (<=150 steps) each: after every executed "
            "location with Value(k), sp equals its entry value plus k reduced to the pointer width. Distinct = (architecture, block count, numeric "
            "offsets met, unknown offsets met). sp arithmetic includes a displacement selected by a register (sp - ite(c, 8, 16)) and writes of the low half only (sp = zext/sext(trun(sp - k))).",
    "level_text": "Sampled functions and executions per architecture; all seven descriptors are exercised on every run (the first seven cases are one per architecture).",
    "level_note": "trusts harness/src/refinterp.rs; Top/Bottom reports are never wrong by the statement",
    "assumptions": ["lifted machine code is limited to straight-line stack-adjusting idioms (lea/sub/add on esp/rsp, addiu $sp, addi r1, sub/add sp) ending in a return"],
}

PROPS["C03"] = {
    "quick_secs": 14,
    "thorough_secs": 300,
    "min_evaluations": 50000,
    "technique": "differential monitor: falcon-lifted IL run by the reference IL interpreter vs an independent A64 decoder/interpreter (a64ref, written from the Arm ARM pseudocode) from the same state; plus multi-instruction blocks (straight-line code + branch + trailing code lifted as one block) against instruction-by-instruction reference execution",
    "rule": "one 32-bit word per case from 18 class templates with every free field random (add/sub imm/shifted/extended, move wide, logical imm/"
            "shifted, load/store register in all addressing modes, unsigned offset, literal, pairs, ordered, LDAPUR/STLUR, b/bl, b.cond, cbz, tbz, "
            "br/blr/ret, hints) plus uniformly random words; register fields biased to 31/30 and to aliasing operands (Rd = Rm, Rd = Rn, a register moved onto itself); register values biased to pointers/small ints/corners, random NZCV; the bytes an access "
            "touches are discovered by a probe run of the reference and mapped with random data; little- and big-endian data. Compared: X0-X30, SP, "
            "NZCV, V0-V31, all memory, next PC. Thorough adds exhaustive 12-bit immediate (x LSL#12) and 6-bit shift-amount sweeps. Non-trivial = the "
            "instruction changed a compared output; distinct = (a64ref class, endianness). One case in four lifts just below 4 GiB, at 4 GiB or far above it (0x7f12_3440_0000, 0xffff_ffc0_0000) instead of the usual low text address. Three block cases per random case: 0-6 accepted straight-line instructions, an accepted branch and up to two more lifted as one block and compared with instruction-by-instruction a64ref execution.",
    "level_text": "Sampled (word, state) pairs per instruction class against an independently written interpreter; words that the reference classifies "
                  "as UNDEFINED/UNPREDICTABLE/unmodelled are counted and not judged.",
    "level_note": "trusts harness/src/a64ref.rs (106 hand-computed unit tests by its author), refinterp.rs and refeval.rs; a misreading of the Arm ARM shared by falcon and a64ref would be invisible",
    "assumptions": [
        "words for which a64ref reports Undefined/Unpredictable/Unmodelled are not judged even if falcon accepts them",
        "SP alignment checking and exclusive monitors are not modelled",
    ],
}

PROPS["C01"] = {
    "quick_secs": 16,
    "thorough_secs": 420,
    "min_evaluations": 60000,
    "technique": "differential monitor against the host CPU: each generated encoding is executed natively for exactly one instruction in a ptrace-single-stepped child (harness/src/x86native.rs) and, from the same state, as falcon-lifted IL in the reference IL interpreter; registers, XMM, flags, scratch memory and next address compared",
    "rule": "encoding templates for every mnemonic class the x86 lifter dispatches (ALU, test, mov, lea, inc/dec, neg/not/mul/imul/div/idiv, shifts, "
            "rotates incl. through carry, shld/shrd, movzx/movsx/movsxd, setcc/cmovcc/jcc for all 16 conditions, jmp/call/ret/loop/jrcxz, push/pop/leave, "
            "xchg/xadd/cmpxchg, bt/bts/btr/btc, bsf/bsr/bswap, cbw/cwd family, flag instructions, string instructions with rep/repe/repne, SSE moves, "
            "logic and shuffles) x operand size 8/16/32/64/128 (0x66, REX.W) x register/memory/immediate forms x every ModRM/SIB addressing mode incl. "
            "rip-relative, fs/gs overrides, the address-size prefix (67h: 32-bit addressing and ecx/esi/edi in 64-bit mode, cx as loop/jcxz count in 32-bit mode), "
            "high-byte registers, aliasing operands; corner-biased register, flag and memory contents; one case in four lifts the instruction as the second of its block (after a nop); register values "
            "solved so the memory operand lands in a 6 KiB scratch arena shared by both sides. 2/3 of the cases run in 64-bit mode; 32-bit mode cases "
            "are lifted by translator::x86::X86 and run natively through the mode-equivalence map (same bytes with an address-size prefix; 0x40-0x4f "
            "mapped to FF /0,/1). Non-trivial = the instruction changed a compared output; distinct = (mode, form, operand size, reg/mem). Relative branches (jmp/jcc/call/loop/jrcxz rel8/rel32) take a REX prefix in one 64-bit case in four and, after the comparison with the processor, are lifted a second time 0x7f0000000000 (64-bit mode) or 0xe0000000 (32-bit mode) higher: the processor's behaviour does not depend on where such an instruction stands, so the second IL run must end at the first one's next address plus that distance, with the same registers and memory except for a pushed return address, which moves along.",
    "level_text": "Sampled (encoding, state) pairs per instruction form against the processor itself; architecturally undefined flags and results are masked per the SDM; native faults (SIGSEGV/SIGILL/divide error) are counted and not judged.",
    "level_note": "the host runs only 64-bit code: 32-bit-mode lifting is compared through equivalent 64-bit encodings (absolute disp32 through the SIB no-base form); "
                  "the forms without one (stack-width instructions push/pop/call/ret/leave and indirect jmp/call in 32-bit mode) are judged against a 100-line hand model "
                  "of exactly those instructions (counter x86.hand_model_cases), which is weaker than the CPU; trusts x86native.rs (ptrace), liftexec.rs, refinterp.rs, refeval.rs",
    "assumptions": [
        "PF and AF are not modelled by falcon and are not compared",
        "flags and results the SDM leaves undefined (shift/rotate OF for counts other than 1, bsf/bsr on zero, mul/imul ZF/SF, 16-bit shld/shrd with count > 16, div flags) are masked",
        "a native divide error (quotient overflow) against a value in the IL is not judged: the architecture defines no register outcome",
        "32-bit mode: encodings whose semantics equal a 64-bit-mode encoding (same bytes plus 0x67, FF /0,/1 for 0x40-0x4f, SIB form for absolute disp32) are compared with the CPU; push/pop/call/ret/leave/jmp r/m/call r/m with a hand model written from the SDM",
    ],
}

PROPS["C02"] = {
    "quick_secs": 14,
    "thorough_secs": 300,
    "min_evaluations": 50000,
    "technique": "differential monitor: falcon-lifted IL run by the reference IL interpreter vs independent MIPS32 and PPC32 interpreters (mipsref/ppcref, written from the architecture manuals) from the same state; MIPS branches together with their delay slot, and MIPS multi-instruction blocks (straight-line code + branch + slot, cut at chosen byte lengths) against instruction-by-instruction reference execution",
    "rule": "per-opcode templates for every mnemonic the MIPS and PPC lifters dispatch, all register/immediate fields random ($zero destinations, "
            "aliasing, negative offsets routine), branch + random delay-slot pairs for every MIPS branch/jump (slots aimed at the branch's source and "
            "link registers), plus uniformly random words; big- and little-endian MIPS. Touched memory is discovered by a probe run of the reference "
            "and mapped with random bytes. Compared: 31 GPRs, HI/LO (except after mul), r0-r31, LR, CTR, all CR field bits, carry, all memory, next "
            "PC; a reference trap must correspond to the IL reaching an intrinsic. A difference in a branch+slot case is attributed to the slot "
            "instruction when that instruction alone also differs. One MIPS case in six is a multi-instruction block: 0-17 straight-line instructions, "
            "a branch, its delay slot and 0-2 more instructions handed to translate_block as one byte string of a chosen length (whole, cut between "
            "branch and slot, cut behind the slot, exactly the 64 bytes function lifting uses with the branch in the last or second-to-last word); the "
            "words the result covers (by its instruction addresses) are executed by mipsref one instruction at a time, stopping at the first transfer "
            "of control as the executor does, and all registers, memory and the next pc are compared; a covered branch must have its slot covered. "
            "One case in seven is a PPC block built the same way (0-6 accepted straight-line instructions, an accepted branch, 0-2 more) against ppcref. "
            "Block fillers are chosen incrementally so that the reference defines their outcome in the state reached so far. "
            "Non-trivial = a compared output changed; distinct = (arch, mnemonic, with-slot) and (arch, branch, block shape, covered part). One case in four lifts at an address in another 256 MiB region, across 0x80000000 or near the top of the address space instead of the usual low text address.",
    "level_text": "Sampled (word, state) pairs per mnemonic against independently written interpreters; unaligned accesses, UNPREDICTABLE forms, "
                  "reserved BO encodings and accesses/branches that wrap around the 32-bit address space are counted and not judged.",
    "level_note": "trusts harness/src/mipsref.rs (75 hand-computed tests) and ppcref.rs (120 tests), refinterp.rs, refeval.rs; falcon does not model XER[SO]/[OV], so CR SO bits start at 0 and OE forms are not generated",
    "assumptions": [
        "XER[SO]/XER[OV] are not modelled by falcon: CR SO bits are initialised to 0 and compares are expected to leave them 0",
        "loads/stores whose effective address is within 256 bytes of 2^32 and relative branches whose target wraps modulo 2^32 are skipped",
        "bc* encodings with non-zero reserved 'z' bits in BO are skipped",
        "MIPS word/halfword accesses that are not naturally aligned raise Address Error architecturally and are skipped",
    ],
}

PROPS["C05"] = {
    "quick_secs": 14,
    "thorough_secs": 420,
    "release_leg": True,
    "memcheck_leg": 60,
    "asan_leg": 60,
    # (translator, every): all 2^32 aarch64 words (100 s on 16 cores); every 16th word of the capstone-decoded ones
    "sweep_leg": [("aarch64", 1), ("mips", 16), ("mipsel", 16), ("ppc", 16)],
    "totality": True,
    "min_evaluations": 500000,
    "technique": "totality + well-formedness monitor: hostile byte strings lifted by all 7 translators x both unsupported-instruction policies under catch_unwind; harness-written IL well-formedness checker and guard-determinism evaluator judge every result; dead/hung workers are attributed to the in-flight input; a thread that never lifted anything must give the same answer as the worker thread (no dependence on earlier lifts); thorough adds a plain-release leg, a valgrind memcheck leg and an AddressSanitizer leg (Rust code built with -Zsanitizer=address on nightly, capstone and bad64 compiled by clang -fsanitize=address) over the same workload (the disassemblers are C code behind FFI); a sweep leg lifts all 2^32 AArch64 words and every 16th MIPS/MIPSel/PPC word once in the plain release build (a dead worker is a violation)",
    "exhaustive_part": "thorough: every one of the 2^32 32-bit words through AArch64::translate_block at address 0x400000 under the default policy (no panic, abort or hang); every 16th word (phase = seed mod 16) for mips, mipsel and ppc",
    "rule": "uniform random bytes (x86: 1-15 bytes, prefixed/two-byte opcodes, 8-48 byte streams; fixed-width ISAs: 1-3 words incl. lengths not a "
            "multiple of 4), class templates of the C02/C03 generators with a random bit flipped, at addresses 0, page-straddling, around 2^32 and near "
            "(but not wrapping) 2^64; thorough adds a stratified sweep of every value of the top 16 bits x 4 random low halves for the 5 fixed-width "
            "translators. Checked per result: every expression sort-correct, Assign/Load/Store/Branch/guard widths, entry and exit present with exit "
            "reachable, edges join existing blocks, exactly one enabled guard per block and in the successor list (exhaustive when the guards read "
            "<= 12 bits of scalars, else 48 corner-biased valuations), re-lifting gives the same result. Distinct = (translator, policy, input kind, instructions lifted). Loads and stores must address memory at the translator's address width (32 bits for x86/mips/mipsel/ppc, 64 for amd64/aarch64/aarch64eb); indirect branch targets may be narrower (66h-prefixed near branches).",
    "level_text": "Sampled byte strings per translator configuration; the 2^32 word spaces are sampled (thorough: stratified), not swept.",
    "level_note": "trusts the well-formedness rules in harness/src/c05.rs and refeval.rs; blocks that would wrap around the 2^64 address space are not generated (the IL has no wrap-around program counter)",
    "assumptions": [
        "lift addresses are at least 64 KiB below 2^64",
        "load/store addresses and branch targets must be 1..64 bits wide; equality with the architecture word size is not judged",
        "a guard that divides by zero under some valuation is not judged for that valuation",
    ],
}

PROPS["C19"] = {
    "quick_secs": 10,
    "thorough_secs": 240,
    "totality": True,
    "min_evaluations": 50000,
    "technique": "construction-based monitor: well-formed ELF files are produced by the harness's own ELF writer (elfgen) from a random declarative description, loaded by loader::Elf at base 0 and base B and linked by loader::ElfLinker from files in a scratch directory; memory image, permissions, architecture, function entries, symbols, program entry and every relocated word are compared with what the description prescribes",
    "rule": "single objects: ELF32/ELF64, little/big endian, EM_386/X86_64/MIPS/PPC/AARCH64, ET_EXEC/ET_DYN, 0-4 PT_LOAD segments (page-congruent or tightly packed, "
            "empty, file-only, bss tails, all permission combinations) plus the dynamic-metadata segment, .symtab/.dynsym symbols of every type/binding (undefined, absolute, "
            "value 0, two symbols at one address), PLT relocations, PT_INTERP, SONAME, user function entries; bases 0, page-aligned, unaligned and high. Link cases: x86 and "
            "MIPS (both endiannesses) main program + 1-3 shared objects with a random DT_NEEDED graph; R_386_32/GLOB_DAT/JMP_SLOT/RELATIVE, MIPS local and global GOT entries "
            "and R_MIPS_REL32, referring to symbols of the object itself, the main program and its dependencies; relocated words anywhere in the data segment's file part, its last word included. Non-trivial = at least one mapped segment / one symbol-relocated word; "
            "distinct = (kind, architecture, object type, segment count, features). Call order is varied: half of the single-object cases ask for entries and memory before add_user_function, every link case adds user functions after its first function_entries() query and asks again (the answer must be the old one plus exactly those). Half of the non-MIPS link cases then load one more object (with R_386_RELATIVE words) into the same linker with load_elf(): every byte of what was linked before must be unchanged and the newcomer's words rebased once.",
    "level_text": "Sampled ELF descriptions; the expected answers are known by construction, the file bytes come from a writer that shares no code with the parser (goblin) or the loader.",
    "level_note": "trusts harness/src/elfgen.rs (self-tests against its own reader); library bases are read from ElfLinker::loaded() (the placement policy is not part of the property); symbol names are unique across linked objects",
    "assumptions": [
        "link cases only reference symbols that are already loaded when the referring object is relocated (the object itself, the main program, its own DT_NEEDED closure)",
        "R_386_32 words are generated with a zero addend",
        "PPC little-endian files are not generated (the loader documents them as unsupported)",
    ],
}

PROPS["C20"] = {
    "quick_secs": 2,
    "thorough_secs": 2,
    "min_evaluations": 300,
    "exhaustive": True,
    "technique": "configuration monitor: for each of the 7 architectures, the scalars its own translator produces over a register-sweep corpus, the scalar written by a stack-adjusting instruction, load address widths and the ELF loader's mapping are observed and compared with the published descriptors and a psABI table",
    "rule": "the finite space of 7 architectures x their calling-convention tables is enumerated completely on every run: every register named "
            "(argument, return, return-address, preserved, trashed) must be a (name, width) scalar observed in IL lifted by arch.translator() from a "
            "register-sweep corpus; no register name both preserved and trashed (in the published sets and through is_preserved/is_trashed, which must agree with the sets); stack pointer preserved; stack slots of one machine word at "
            "consecutive offsets; argument order / return register / return-address location per psABI; stack_pointer() is the scalar written by a "
            "push/addiu $sp/stwu r1/sub sp instruction serialised in arch.endian() order; the MIPS unaligned-word idioms lwl/lwr and swl/swr at all four alignments read and write the word in arch.endian() byte order; load/store address width = word_size(); loader::Elf maps "
            "(e_machine, EI_DATA) to the same descriptor. Distinct = (architecture, role, register) facts confirmed. Each architecture is swept three times: in a process that lifted nothing else, after every other architecture lifted something (table order) and likewise in reverse order; inside each case the sweep is repeated behind one more round of the others and must observe the same scalars (state cached across translators shows as a difference). The loader mapping is also asked for EM_X86_64 in an ELFCLASS32 file (x32): the machine field names the instruction set. Every descriptor is compared with its box_clone().",
    "level_text": "A finite configuration space, enumerated completely (exhaustive: true); the observed side depends on the corpus, which sweeps every register number of every register class the conventions mention.",
    "level_note": "trusts the psABI table in harness/src/c20.rs (argument registers, return register, return-address location for cdecl, SysV amd64, o32, PPC SVR4, AAPCS64) and harness/src/elfgen.rs for the loader probe",
    "assumptions": ["psABI facts transcribed by hand into harness/src/c20.rs"],
}

# properties not claimed, with the reason (everything else not in PROPS is 'not built yet')
NOT_CLAIMED = {}
