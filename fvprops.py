"""Per-property configuration of the orchestrator (budgets, evidence texts)."""

PROPS = {
    "C04": {
        "quick_secs": 12,
        "thorough_secs": 180,
        "release_leg": True,
        "totality": True,
        "min_evaluations": 100000,
        "rule": "every (operator, operand pair) at widths 1..4 (1..6 thorough) enumerated exhaustively, plus corner-biased random "
                "operations, well-sorted and ill-sorted random trees (depth<=5), constructor decisions, sra/rotl builders and "
                "scalar substitution at widths 1..512, each compared with the BigUint reference evaluator. A case is non-trivial "
                "when the result differs from both operands or an error path is taken; distinct = (operator | builder | tree depth, "
                "width class, outcome class).",
        "exhaustive_part": "all binary operators x all operand pairs, zext/sext/trun to 1..9 bits and ite, at widths 1..4 (quick) / 1..6 (thorough)",
        "technique": "differential monitor: falcon eval/Constant/Expression builders vs BigUint reference evaluator; exhaustive at small widths",
        "level_text": "Every operator is enumerated exhaustively at widths 1-4 (6 thorough) and sampled with corner-biased operands at widths up to 512 "
                      "against an independent BigUint evaluator; panics and aborts are observed as violations. Random exploration cannot cover the "
                      "unbounded tree space, so the claim is 'held on the executions observed'.",
        "level_note": "trusts harness/src/refeval.rs (cross-checked exhaustively against native 8-bit arithmetic) and num-bigint",
        "assumptions": [
            "reference evaluator harness/src/refeval.rs (cross-checked against native 8-bit arithmetic exhaustively in its unit test)",
            "ill-sorted ite nodes built from raw enum variants are not judged (the statement speaks of operand width mismatches)",
        ],
    },
}

# properties not claimed, with the reason (everything else not in PROPS is 'not built yet')
NOT_CLAIMED = {}
