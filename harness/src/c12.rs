//! C12 — Reaching definitions and def-use/use-def chains cover every execution.
//!
//! Dynamic half: the reference interpreter tracks the last writer of every scalar;
//! after each executed location the writers must be in reaching_definitions, and
//! before each instruction / guarded edge the writers of the scalars it reads must
//! be in use_def. Static half: every reported assignment/load must reach along a
//! kill-free path of the independent location graph; def_use is the inverse of use_def.

use crate::fw::*;
use crate::ilgen::{self, GenOpts, MEM_BASE, MEM_LEN};
use crate::locgraph::{loc_str, LocGraph};
use crate::refeval::Bv;
use crate::refinterp::{IntrinsicMode, Machine, StepOut};
use falcon::analysis::{def_use, reaching_definitions, use_def, LocationSet};
use falcon::il::{Function, FunctionLocation as Loc, Operation, ProgramLocation, Scalar};
use serde_json::json;
use std::collections::{BTreeMap, BTreeSet, HashMap};

pub struct C12 {}
impl C12 {
    pub fn new(_t: Tier) -> C12 {
        C12 {}
    }
}

type Rel = BTreeMap<Loc, BTreeSet<Loc>>;

fn to_rel(m: HashMap<ProgramLocation, LocationSet>) -> Rel {
    m.into_iter()
        .map(|(k, v)| (k.function_location().clone(), v.locations().iter().map(|l| l.function_location().clone()).collect()))
        .collect()
}

fn op_at<'a>(f: &'a Function, l: &Loc) -> Option<&'a Operation> {
    match l {
        Loc::Instruction(b, i) => f.block(*b).ok()?.instruction(*i).map(|x| x.operation()),
        _ => None,
    }
}

/// scalars read at a location (instruction operands or edge guard)
fn reads_at(f: &Function, l: &Loc) -> Vec<Scalar> {
    match l {
        Loc::Instruction(..) => op_at(f, l).map(crate::refeval::op_reads).unwrap_or_default(),
        Loc::Edge(h, t) => f
            .edge(*h, *t)
            .ok()
            .and_then(|e| e.condition())
            .map(|c| {
                let mut v = Vec::new();
                crate::refeval::expr_scalars(c, &mut v);
                v
            })
            .unwrap_or_default(),
        Loc::EmptyBlock(_) => vec![],
    }
}

/// the scalar assigned by an Assign/Load at this location
fn assign_or_load_dst(f: &Function, l: &Loc) -> Option<Scalar> {
    match op_at(f, l)? {
        Operation::Assign { dst, .. } | Operation::Load { dst, .. } => Some(dst.clone()),
        _ => None,
    }
}

pub fn gen_function(rng: &mut Rng, intrinsics: bool, all_reachable: bool) -> ilgen::Gen {
    let o = GenOpts {
        max_blocks: 7,
        max_instrs: 4,
        all_reachable,
        intrinsics,
        indirect_branches: rng.chance(1, 4),
        memory: true,
        expr_depth: 2,
        ..GenOpts::default()
    };
    ilgen::generate(rng, &o)
}

pub fn init_machine(rng: &mut Rng, g: &ilgen::Gen, ssa: bool) -> Option<Machine> {
    let mut m = Machine::new(&g.f, rng.bool(), ssa)?;
    m.intrinsics = IntrinsicMode::Havoc;
    m.havoc_seed = rng.u64();
    for s in &g.pool {
        m.set(s.name(), Bv::new(rng.corner_big(s.bits()), s.bits()));
    }
    for a in MEM_BASE..MEM_BASE + MEM_LEN {
        m.mem.insert(a, rng.u64() as u8);
    }
    Some(m)
}

impl C12 {
    fn check(&self, ctx: &mut Ctx, rng: &mut Rng, g: &ilgen::Gen, tag: &str) {
        let f = &g.f;
        let fj = || ilgen::describe(f);
        ctx.trace(|| format!("function {}", fj()));
        let lg = LocGraph::build(f);
        let r = guard(|| (reaching_definitions(f), use_def(f), def_use(f)));
        ctx.evals(3);
        let (rd, ud, du) = match r {
            Err(p) => {
                ctx.panic_violation("analysis", &p, fj());
                return;
            }
            Ok((Ok(a), Ok(b), Ok(c))) => (to_rel(a), to_rel(b), to_rel(c)),
            Ok((a, b, c)) => {
                let which = if a.is_err() { "reaching_definitions" } else if b.is_err() { "use_def" } else { "def_use" };
                ctx.violation(&format!("{}:error:{}", which, tag), json!({"function": fj(), "error": format!("{:?}", a.err().map(|e| format!("{:?}", e)).or(b.err().map(|e| format!("{:?}", e))).or(c.err().map(|e| format!("{:?}", e))))}));
                return;
            }
        };
        // ---- static half: every reported assignment/load reaches along a kill-free path
        for (l, defs) in &rd {
            for d in defs {
                let dst = match assign_or_load_dst(f, d) {
                    Some(s) => s,
                    None => continue, // stores, nops, branches, intrinsics: outside the statement
                };
                ctx.eval();
                if d == l {
                    continue;
                }
                let killer = |x: &Loc| x != d && assign_or_load_dst(f, x).map(|s| s == dst).unwrap_or(false);
                let mut seen: BTreeSet<Loc> = BTreeSet::new();
                let mut stack: Vec<Loc> = lg.succs(d).to_vec();
                let mut found = false;
                while let Some(x) = stack.pop() {
                    if !seen.insert(x.clone()) {
                        continue;
                    }
                    if killer(&x) {
                        continue;
                    }
                    if &x == l {
                        found = true;
                        break;
                    }
                    for n in lg.succs(&x) {
                        stack.push(n.clone());
                    }
                }
                if !found {
                    ctx.violation(
                        &format!("reaching_definitions:reports_unreachable_or_killed_definition:{}", tag),
                        json!({"function": fj(), "at": loc_str(l), "definition": loc_str(d), "scalar": format!("{}", dst)}),
                    );
                    return;
                }
            }
        }
        // ---- def_use is exactly the inverse of use_def
        ctx.eval();
        for (u, defs) in &ud {
            for d in defs {
                if !du.get(d).map(|s| s.contains(u)).unwrap_or(false) {
                    ctx.violation(&format!("def_use:missing_inverse_pair:{}", tag), json!({"function": fj(), "use": loc_str(u), "def": loc_str(d)}));
                    return;
                }
            }
        }
        for (d, uses) in &du {
            for u in uses {
                if !ud.get(u).map(|s| s.contains(d)).unwrap_or(false) {
                    ctx.violation(&format!("def_use:extra_pair_not_in_use_def:{}", tag), json!({"function": fj(), "use": loc_str(u), "def": loc_str(d)}));
                    return;
                }
            }
        }
        // ---- dynamic half
        let mut multi_read = false;
        let mut self_read = false;
        for _run in 0..6 {
            let mut m = match init_machine(rng, g, false) {
                Some(m) => m,
                None => return,
            };
            for _ in 0..150 {
                let l = m.loc.clone();
                // before executing U: use-def must contain the last writer of every scalar read
                let reads = reads_at(f, &l);
                if !reads.is_empty() {
                    let names: BTreeSet<&str> = reads.iter().map(|s| s.name()).collect();
                    if names.len() >= 2 {
                        multi_read = true;
                    }
                    if let Some(dst) = assign_or_load_dst(f, &l) {
                        if reads.iter().any(|s| *s == dst) {
                            self_read = true;
                        }
                    }
                    for s in &reads {
                        if let Some(w) = m.last_writer.get(&(s.name().to_string(), None)) {
                            ctx.eval();
                            let ok = ud.get(&l).map(|set| set.contains(w)).unwrap_or(false);
                            if !ok {
                                let kind = match &l {
                                    Loc::Edge(..) => "edge",
                                    _ => {
                                        if names.len() >= 2 { "multi_scalar_read" } else if assign_or_load_dst(f, &l).map(|d| d == *s).unwrap_or(false) { "reads_own_destination" } else { "single_read" }
                                    }
                                };
                                ctx.violation(
                                    &format!("use_def:missing_last_writer:{}:{}", kind, tag),
                                    json!({"function": fj(), "use": loc_str(&l), "scalar": format!("{}", s), "last_writer": loc_str(w),
                                           "reported": ud.get(&l).map(|s| s.iter().map(loc_str).collect::<Vec<_>>())}),
                                );
                                return;
                            }
                        }
                    }
                }
                let out = m.step(f);
                // after executing L: every last writer is among the reaching definitions of L
                if let StepOut::Fault(_) = out {
                    break;
                }
                match rd.get(&l) {
                    None => {
                        ctx.violation(&format!("reaching_definitions:no_entry_for_executed_location:{}", tag), json!({"function": fj(), "at": loc_str(&l)}));
                        return;
                    }
                    Some(set) => {
                        for (k, w) in &m.last_writer {
                            ctx.eval();
                            if !set.contains(w) {
                                ctx.violation(
                                    &format!("reaching_definitions:missing_last_writer:{}", tag),
                                    json!({"function": fj(), "at": loc_str(&l), "scalar": k.0, "last_writer": loc_str(w), "reported": set.iter().map(loc_str).collect::<Vec<_>>()}),
                                );
                                return;
                            }
                        }
                    }
                }
                match out {
                    StepOut::Moved => {}
                    // an indirect branch has no successor inside the function's CFG: the execution
                    // of this function ends here
                    StepOut::Branched(_) => break,
                    _ => break,
                }
            }
        }
        let has_loop = lg.nodes.iter().any(|l| lg.succs(l).iter().any(|n| lg.reach_from(n, true).contains(l)));
        ctx.class(&format!(
            "b{}/{}{}{}{}",
            f.blocks().len().min(8),
            if has_loop {"loop"} else {"acyclic"},
            if multi_read {"/multiread"} else {""},
            if self_read {"/selfread"} else {""},
            if f.blocks().iter().any(|b| b.instructions().iter().any(|i| i.operation().is_intrinsic())) {"/intrinsic"} else {""}
        ));
        if ctx.want_sample() {
            ctx.sample(fj());
        }
    }
}

impl Check for C12 {
    fn directed(&self) -> u64 {
        1
    }
    fn run(&mut self, ctx: &mut Ctx, rng: &mut Rng, case: u64) {
        if case == 0 {
            // a=1; b=2; c=a+b; a=a+1
            use falcon::il;
            let mut cfg = il::ControlFlowGraph::new();
            {
                let b = cfg.new_block().unwrap();
                b.assign(il::scalar("s0", 32), il::expr_const(1, 32));
                b.assign(il::scalar("s1", 32), il::expr_const(2, 32));
                b.assign(il::scalar("s2", 32), il::Expression::add(il::expr_scalar("s0", 32), il::expr_scalar("s1", 32)).unwrap());
                b.assign(il::scalar("s0", 32), il::Expression::add(il::expr_scalar("s0", 32), il::expr_const(1, 32)).unwrap());
            }
            cfg.set_entry(0).unwrap();
            cfg.set_exit(0).unwrap();
            let g = ilgen::Gen { f: Function::new(0x1000, cfg), pool: vec![il::scalar("s0", 32), il::scalar("s1", 32), il::scalar("s2", 32)], addr_base: 0x1000 };
            self.check(ctx, rng, &g, "directed");
            return;
        }
        let intr = rng.bool();
        let g = gen_function(rng, intr, true);
        self.check(ctx, rng, &g, "rnd");
    }
}
