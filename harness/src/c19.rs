//! C19 — ELF loading maps exactly the image and rebases uniformly.
//!
//! Monitor: well-formed ELF files are written by the harness's own ELF writer
//! (`elfgen`, the inverse of a parser) from a random declarative description, so
//! the expected memory image, permissions, entries and symbols are known by
//! construction. Each file is loaded at base 0 and at a random base B and the
//! loader's answers are compared with the description and with each other.
//! Link cases write a main object and 1-3 shared objects to a scratch directory,
//! run `ElfLinker` over them and compare every relocated word with the address
//! of the symbol it names in the object that defines it.

use crate::elfgen::{self, BuildOpts, BuiltElf, ElfSpec, RelocSpec, SegSpec, SymSpec};
use crate::fw::*;
use falcon::architecture::Endian;
use falcon::loader::{Elf, ElfLinkerBuilder, Loader};
use falcon::memory::backing::Memory;
use falcon::memory::MemoryPermissions;
use serde_json::{json, Value};
use std::collections::{BTreeMap, BTreeSet};
use std::path::PathBuf;

pub struct C19 {
    thorough: bool,
    dir: PathBuf,
}
impl C19 {
    pub fn new(t: Tier) -> C19 {
        let dir = std::env::temp_dir().join(format!("fvh-c19-{}", std::process::id()));
        let _ = std::fs::create_dir_all(&dir);
        C19 { thorough: t == Tier::Thorough, dir }
    }
}
impl Drop for C19 {
    fn drop(&mut self) {
        let _ = std::fs::remove_dir_all(&self.dir);
    }
}

/// (name, e_machine, class64, big endian)
const MACHINES: [(&str, u16, bool, bool); 7] = [
    ("x86", 3, false, false),
    ("amd64", 62, true, false),
    ("mips", 8, false, true),
    ("mipsel", 8, false, false),
    ("ppc", 20, false, true),
    ("aarch64", 183, true, false),
    ("aarch64eb", 183, true, true),
];

const STT_NOTYPE: u8 = 0;
const STT_OBJECT: u8 = 1;
const STT_FUNC: u8 = 2;
const STT_SECTION: u8 = 3;

type Image = BTreeMap<u64, (u8, u8)>;

fn perm_bits(r: bool, w: bool, x: bool) -> u8 {
    (r as u8) | (w as u8) << 1 | (x as u8) << 2
}
fn perm_of(p: MemoryPermissions) -> u8 {
    perm_bits(p.contains(MemoryPermissions::READ), p.contains(MemoryPermissions::WRITE), p.contains(MemoryPermissions::EXECUTE))
}

/// byte -> (value, permissions) for everything a loader memory holds
fn image_of(m: &Memory) -> Image {
    let mut img = Image::new();
    for (addr, sec) in m.sections() {
        let p = perm_of(sec.permissions());
        for (i, b) in sec.data().iter().enumerate() {
            img.insert(addr + i as u64, (*b, p));
        }
    }
    img
}

/// the image the ELF description prescribes, at `base`
fn expected_image(built: &BuiltElf, base: u64, into: &mut Image) {
    for (vaddr, data, memsz, r, w, x) in &built.loads {
        let p = perm_bits(*r, *w, *x);
        for i in 0..*memsz {
            let b = if (i as usize) < data.len() { data[i as usize] } else { 0 };
            into.insert(base + vaddr + i, (b, p));
        }
    }
}

fn image_diff(got: &Image, want: &Image) -> Option<(String, String)> {
    for (a, w) in want {
        match got.get(a) {
            None => return Some(("byte_missing".into(), format!("0x{:x} expected {:02x} perms {:03b}", a, w.0, w.1))),
            Some(g) if g.0 != w.0 => return Some(("byte_differs".into(), format!("0x{:x} expected {:02x} got {:02x}", a, w.0, g.0))),
            Some(g) if g.1 != w.1 => return Some(("permissions_differ".into(), format!("0x{:x} expected {:03b} got {:03b} (xwr)", a, w.1, g.1))),
            _ => {}
        }
    }
    for a in got.keys() {
        if !want.contains_key(a) {
            return Some(("extra_byte".into(), format!("0x{:x} is mapped but belongs to no segment", a)));
        }
    }
    None
}

struct Gen {
    spec: ElfSpec,
    user: Vec<u64>,
    page_congruent: bool,
}

fn rand_name(rng: &mut Rng, prefix: &str, n: usize) -> String {
    format!("{}{}_{}", prefix, n, rng.below(1000))
}

/// an address inside (or, rarely, just outside) some segment
fn addr_in(rng: &mut Rng, segs: &[SegSpec]) -> u64 {
    if segs.is_empty() {
        return rng.range(1, 0x10000);
    }
    let s = &segs[rng.usize(segs.len())];
    let span = s.memsz.max(1);
    s.vaddr + rng.below(span)
}

fn gen_symbols(rng: &mut Rng, segs: &[SegSpec], n: usize, prefix: &str, allow_local: bool) -> Vec<SymSpec> {
    let mut v = Vec::new();
    for i in 0..n {
        let stype = *rng.pick(&[STT_FUNC, STT_FUNC, STT_FUNC, STT_OBJECT, STT_NOTYPE, STT_SECTION]);
        let bind = if allow_local { *rng.pick(&[0u8, 1, 1, 2]) } else { *rng.pick(&[1u8, 1, 2]) };
        let defined = rng.chance(4, 5);
        let abs = defined && rng.chance(1, 12);
        let value = if !defined {
            // undefined symbols usually carry 0, sometimes a PLT stub address
            if rng.chance(1, 4) {
                addr_in(rng, segs)
            } else {
                0
            }
        } else if stype != STT_FUNC && rng.chance(1, 10) {
            0
        } else {
            addr_in(rng, segs).max(1)
        };
        v.push(SymSpec { name: rand_name(rng, prefix, i), value, size: rng.below(64), stype, bind, defined, abs });
    }
    // two symbols at one address
    if v.len() >= 2 && rng.chance(1, 4) {
        let a = v[0].value;
        let k = v.len() - 1;
        if v[k].defined && a != 0 {
            v[k].value = a;
        }
    }
    v
}

fn gen_segments(rng: &mut Rng, start: u64, page_congruent: bool) -> (Vec<SegSpec>, u64) {
    let n = match rng.below(8) {
        0 => 0,
        1 | 2 => 1,
        3 | 4 => 2,
        5 | 6 => 3,
        _ => 4,
    };
    let mut cur = start;
    let mut segs = Vec::new();
    for _ in 0..n {
        let gap = match rng.below(4) {
            0 => 0,
            1 => rng.below(64),
            2 => 0x1000 - (cur & 0xfff),
            _ => rng.below(0x3000),
        };
        let mut vaddr = cur + gap;
        if page_congruent && rng.bool() {
            vaddr = (vaddr + 0xfff) & !0xfff;
        }
        let len = match rng.below(5) {
            0 => 0,
            1 => rng.below(16),
            _ => rng.below(700),
        } as usize;
        let extra = match rng.below(3) {
            0 => 0,
            1 => rng.below(32),
            _ => rng.below(500),
        };
        let data = rng.bytes(len);
        let memsz = len as u64 + extra;
        let (r, w, x) = match rng.below(6) {
            0 => (true, false, true),
            1 => (true, true, false),
            2 => (true, false, false),
            _ => (rng.bool(), rng.bool(), rng.bool()),
        };
        segs.push(SegSpec { vaddr, data, memsz, r, w, x });
        cur = vaddr + memsz;
    }
    (segs, cur)
}

fn gen_single(rng: &mut Rng) -> (Gen, &'static str) {
    let (name, machine, class64, big) = MACHINES[rng.usize(MACHINES.len())];
    let page_congruent = rng.chance(2, 3);
    let start = *rng.pick(&[0x1000u64, 0x10000, 0x40_0000, 0x0804_8000, 0x1_0000_0000]);
    let start = if !class64 && start > 0xffff_ffff { 0x40_0000 } else { start };
    let seg_start = start + rng.below(0x100);
    let (segments, end) = gen_segments(rng, seg_start, page_congruent);
    let nsym = rng.below(7) as usize;
    let ndyn = if rng.chance(2, 3) { rng.below(6) as usize } else { 0 };
    let symtab = gen_symbols(rng, &segments, nsym, "s", true);
    let dynsyms = gen_symbols(rng, &segments, ndyn, "d", false);
    let entry = match rng.below(5) {
        0 => 0,
        1 if !symtab.is_empty() => symtab[0].value,
        _ => addr_in(rng, &segments),
    };
    let mut plt_relocs = Vec::new();
    if !dynsyms.is_empty() && rng.chance(1, 2) {
        for _ in 0..rng.range(1, 3) {
            plt_relocs.push(RelocSpec { offset: addr_in(rng, &segments) & !3, sym: rng.range(1, dynsyms.len() as u64) as u32, rtype: 7, addend: 0 });
        }
    }
    let use_rela = class64;
    let meta_vaddr = ((end + 0xfff) & !0xfff) + rng.below(4) * 0x1000;
    let mut user = Vec::new();
    for _ in 0..rng.below(3) {
        user.push(if rng.chance(1, 4) && !symtab.is_empty() { symtab[0].value } else { addr_in(rng, &segments) });
    }
    let spec = ElfSpec {
        class64,
        big_endian: big,
        machine,
        etype: if rng.bool() { 2 } else { 3 },
        entry,
        segments,
        symtab,
        dynsyms,
        needed: vec![],
        soname: if rng.chance(1, 4) { Some("libself.so".into()) } else { None },
        interp: if rng.chance(1, 5) { Some("/lib/ld.so.1".into()) } else { None },
        dyn_relocs: vec![],
        plt_relocs,
        use_rela,
        extra_dynamic: vec![],
        meta_vaddr,
    };
    (Gen { spec, user, page_congruent }, name)
}

fn spec_json(g: &Gen, arch: &str, base: u64) -> Value {
    let s = &g.spec;
    json!({
        "arch": arch, "base": format!("0x{:x}", base), "etype": s.etype, "entry": format!("0x{:x}", s.entry),
        "segments": s.segments.iter().map(|x| format!("0x{:x} filesz {} memsz {} {}{}{}", x.vaddr, x.data.len(), x.memsz, if x.r {"r"} else {"-"}, if x.w {"w"} else {"-"}, if x.x {"x"} else {"-"})).collect::<Vec<_>>(),
        "symtab": s.symtab.iter().map(|x| format!("{} 0x{:x} type {} bind {} defined {} abs {}", x.name, x.value, x.stype, x.bind, x.defined, x.abs)).collect::<Vec<_>>(),
        "dynsyms": s.dynsyms.iter().map(|x| format!("{} 0x{:x} type {} bind {} defined {} abs {}", x.name, x.value, x.stype, x.bind, x.defined, x.abs)).collect::<Vec<_>>(),
        "plt_relocs": s.plt_relocs.iter().map(|r| format!("0x{:x} sym {}", r.offset, r.sym)).collect::<Vec<_>>(),
        "user_functions": g.user.iter().map(|u| format!("0x{:x}", u)).collect::<Vec<_>>(),
        "meta_vaddr": format!("0x{:x}", s.meta_vaddr), "page_congruent": g.page_congruent,
    })
}

struct Answers {
    image: Image,
    entries: BTreeMap<u64, Vec<Option<String>>>,
    symbols: Vec<(String, u64)>,
    program_entry: u64,
    arch: String,
    endian: Endian,
}

fn ask(elf: &Elf) -> Result<Answers, String> {
    let mem = elf.memory().map_err(|e| format!("memory(): {}", e))?;
    let mut entries: BTreeMap<u64, Vec<Option<String>>> = BTreeMap::new();
    for fe in elf.function_entries().map_err(|e| format!("function_entries(): {}", e))? {
        entries.entry(fe.address()).or_default().push(fe.name().map(|s| s.to_string()));
    }
    let mut symbols: Vec<(String, u64)> = Loader::symbols(elf).iter().map(|s| (s.name().to_string(), s.address())).collect();
    symbols.sort();
    Ok(Answers {
        image: image_of(&mem),
        entries,
        symbols,
        program_entry: elf.program_entry(),
        arch: elf.architecture().name().to_string(),
        endian: elf.architecture().endian(),
    })
}

impl C19 {
    fn single(&mut self, ctx: &mut Ctx, rng: &mut Rng) {
        let (g, arch) = gen_single(rng);
        // one file in four gives its PT_LOADs a physical address different from the virtual one (firmware, kernels)
        let paddr_delta = if rng.chance(1, 4) { *rng.pick(&[0x1000u64, 0x10_0000, 0u64.wrapping_sub(0x1000), 0x4000_0000]) } else { 0 };
        let built = elfgen::build_with(&g.spec, &BuildOpts { page_congruent: g.page_congruent, paddr_delta });
        let base = match rng.below(5) {
            0 => 0x1000,
            1 => 0x4000_0000,
            2 => rng.below(1 << 20) << 12,
            3 => rng.below(1 << 36),
            _ => 0x7f00_0000_0000 + (rng.below(1 << 20) << 12),
        };
        ctx.trace(|| format!("single {} base={:x} file={}", arch, base, hex(&built.bytes)));
        let viol = |ctx: &mut Ctx, kind: &str, what: String, base: u64| {
            ctx.violation(&format!("{}:{}", arch, kind), json!({"elf": spec_json(&g, arch, base), "problem": what, "file_bytes": built.bytes.len()}));
        };
        let mut answers = Vec::new();
        let query_first = rng.bool();
        for b in [0u64, base] {
            let loaded = guard(|| {
                let mut elf = Elf::new(built.bytes.clone(), b).map_err(|e| format!("Elf::new: {}", e))?;
                // entries may be asked for before user functions are added: the later answer must include them
                if query_first {
                    let _ = elf.function_entries();
                    let _ = elf.memory();
                }
                for u in &g.user {
                    elf.add_user_function(*u);
                }
                ask(&elf)
            });
            ctx.eval();
            match loaded {
                Err(pi) => {
                    ctx.panic_violation(&format!("{}:load", arch), &pi, spec_json(&g, arch, b));
                    return;
                }
                Ok(Err(e)) => {
                    viol(ctx, "well_formed_elf_rejected", e, b);
                    return;
                }
                Ok(Ok(a)) => answers.push(a),
            }
        }
        // ---- against the description, at both bases
        for (b, a) in [0u64, base].iter().zip(answers.iter()) {
            let mut want = Image::new();
            expected_image(&built, *b, &mut want);
            if let Some((kind, what)) = image_diff(&a.image, &want) {
                viol(ctx, &format!("memory:{}", kind), what, *b);
                return;
            }
            if a.arch != arch || (a.endian == Endian::Big) != g.spec.big_endian {
                viol(ctx, "architecture", format!("loader says {} {:?}", a.arch, a.endian), *b);
                return;
            }
            // function entries: defined function symbols, program entry, user entries
            let mut want_entries: BTreeSet<u64> = BTreeSet::new();
            let mut names: BTreeMap<u64, BTreeSet<String>> = BTreeMap::new();
            for s in g.spec.symtab.iter().chain(g.spec.dynsyms.iter()) {
                if s.stype == STT_FUNC && s.defined && s.value != 0 {
                    want_entries.insert(s.value + b);
                    names.entry(s.value + b).or_default().insert(s.name.clone());
                }
            }
            want_entries.insert(g.spec.entry + b);
            for u in &g.user {
                want_entries.insert(u + b);
            }
            let got_entries: BTreeSet<u64> = a.entries.keys().cloned().collect();
            if got_entries != want_entries {
                let missing: Vec<String> = want_entries.difference(&got_entries).map(|x| format!("0x{:x}", x)).collect();
                let extra: Vec<String> = got_entries.difference(&want_entries).map(|x| format!("0x{:x}", x)).collect();
                let kind = if !missing.is_empty() { "function_entry_missing" } else { "function_entry_extra" };
                viol(ctx, kind, format!("missing {:?} extra {:?}", missing, extra), *b);
                return;
            }
            for (addr, ns) in &a.entries {
                if ns.len() != 1 {
                    viol(ctx, "function_entry_duplicated", format!("0x{:x} reported {} times", addr, ns.len()), *b);
                    return;
                }
                if let (Some(n), Some(allowed)) = (&ns[0], names.get(addr)) {
                    if !allowed.contains(n) {
                        viol(ctx, "function_entry_name", format!("0x{:x} named {} but the function symbols there are {:?}", addr, n, allowed), *b);
                        return;
                    }
                }
            }
            if a.program_entry != g.spec.entry + b {
                viol(ctx, "program_entry_not_rebased", format!("program_entry() = 0x{:x}, e_entry 0x{:x} + base 0x{:x}", a.program_entry, g.spec.entry, b), *b);
                return;
            }
            // every defined symbol with a value is reported at value + base
            for s in g.spec.symtab.iter().chain(g.spec.dynsyms.iter()) {
                if s.defined && s.value != 0 && !a.symbols.contains(&(s.name.clone(), s.value + b)) {
                    viol(ctx, "symbol_missing_or_misplaced", format!("{} expected at 0x{:x}", s.name, s.value + b), *b);
                    return;
                }
            }
        }
        // ---- base B against base 0: everything exactly B higher
        let (a0, ab) = (&answers[0], &answers[1]);
        let shifted: Vec<(String, u64)> = {
            let mut v: Vec<(String, u64)> = a0.symbols.iter().map(|(n, a)| (n.clone(), a + base)).collect();
            v.sort();
            v
        };
        if shifted != ab.symbols {
            let bad = ab.symbols.iter().find(|s| !shifted.contains(s)).cloned();
            viol(ctx, "symbols_not_rebased_uniformly", format!("at base B the loader reports {:?}, which is not a base-0 symbol moved by B", bad), base);
            return;
        }
        let e0: Vec<u64> = a0.entries.keys().map(|a| a + base).collect();
        let eb: Vec<u64> = ab.entries.keys().cloned().collect();
        if e0 != eb {
            viol(ctx, "entries_not_rebased_uniformly", format!("{:x?} vs {:x?}", e0, eb), base);
            return;
        }
        let i0: Vec<u64> = a0.image.keys().map(|a| a + base).collect();
        let ib: Vec<u64> = ab.image.keys().cloned().collect();
        if i0 != ib {
            viol(ctx, "sections_not_rebased_uniformly", String::new(), base);
            return;
        }
        ctx.count("single_objects_checked");
        let nload = built.loads.iter().filter(|l| l.2 > 0).count();
        if nload > 0 {
            let bss = g.spec.segments.iter().any(|s| s.memsz > s.data.len() as u64);
            ctx.class(&format!(
                "single/{}/et{}/segs{}{}{}{}{}{}",
                arch,
                g.spec.etype,
                g.spec.segments.len(),
                if bss { "+bss" } else { "" },
                if g.spec.symtab.is_empty() { "" } else { "+symtab" },
                if g.spec.dynsyms.is_empty() { "" } else { "+dynsym" },
                if g.spec.plt_relocs.is_empty() { "" } else { "+plt" },
                if g.user.is_empty() { "" } else { "+user" }
            ));
            if ctx.want_sample() && g.spec.segments.len() >= 2 && !g.spec.dynsyms.is_empty() {
                ctx.sample(json!({"elf": spec_json(&g, arch, base), "mapped_bytes": a0.image.len(), "function_entries": a0.entries.len(), "symbols": a0.symbols.len()}));
            }
        }
    }

    // ------------------------------------------------------------ linking

    fn link(&mut self, ctx: &mut Ctx, rng: &mut Rng) {
        let mips = rng.chance(1, 3);
        let big = mips && rng.bool();
        let arch = if mips { if big { "mips" } else { "mipsel" } } else { "x86" };
        let nlibs = rng.range(1, 3) as usize;
        // object 0 is the main program
        struct Obj {
            file: String,
            spec: ElfSpec,
            built: Option<BuiltElf>,
            /// (address of the word in this object, defining object, symbol name, symbol value)
            sym_words: Vec<(u64, usize, String, u64)>,
            /// (address of the word, addend): base-relative relocation
            rel_words: Vec<(u64, u64)>,
        }
        let mut objs: Vec<Obj> = Vec::new();
        let case_id = rng.below(1 << 30);
        // definitions first
        for k in 0..=nlibs {
            let start = if k == 0 { 0x0804_8000 } else { 0x1000 * rng.range(1, 8) };
            let code_len = rng.range(16, 200) as usize;
            let code = SegSpec { vaddr: start, data: rng.bytes(code_len), memsz: 0, r: true, w: false, x: true };
            let mut code = code;
            code.memsz = code.data.len() as u64;
            let dstart = ((start + code.memsz + 0xfff) & !0xfff) + 0x1000;
            let dlen = rng.range(64, 256) as usize & !3;
            let data = SegSpec { vaddr: dstart, data: vec![0; dlen], memsz: dlen as u64 + if rng.chance(1, 3) { 0 } else { rng.below(64) }, r: true, w: true, x: false };
            let mut dynsyms = Vec::new();
            for i in 0..rng.range(1, 4) {
                let func = rng.chance(2, 3);
                let value = if func { code.vaddr + rng.below(code.memsz) } else { data.vaddr + (rng.below(data.memsz) & !3) };
                dynsyms.push(SymSpec { name: format!("o{}_{}_{}", k, if func { "f" } else { "v" }, i), value: value.max(1), size: 4, stype: if func { STT_FUNC } else { STT_OBJECT }, bind: if rng.chance(1, 5) { 2 } else { 1 }, defined: true, abs: false });
            }
            let file = if k == 0 { format!("main_{}", case_id) } else { format!("lib{}_{}.so", k, case_id) };
            let spec = ElfSpec {
                class64: false,
                big_endian: big,
                machine: if mips { 8 } else { 3 },
                etype: if k == 0 { 2 } else { 3 },
                entry: if k == 0 { code.vaddr } else { 0 },
                segments: vec![code, data],
                symtab: vec![],
                dynsyms,
                needed: vec![],
                soname: if k == 0 { None } else { Some(file.clone()) },
                interp: None,
                dyn_relocs: vec![],
                plt_relocs: vec![],
                use_rela: false,
                extra_dynamic: vec![],
                meta_vaddr: dstart + 0x4000,
            };
            objs.push(Obj { file, spec, built: None, sym_words: vec![], rel_words: vec![] });
        }
        // interposition: in half of the non-MIPS cases the main program and one library both define a function of the
        // same name; every reference to it from any object binds to the main program's definition (the main program
        // comes first in the lookup order however the libraries are ordered)
        let dup_name = format!("dup_{}", case_id);
        let mut dup_lib: Option<usize> = None;
        if !mips && rng.bool() {
            let k = 1 + rng.usize(nlibs);
            for o in [0usize, k] {
                let code = objs[o].spec.segments[0].clone();
                let value = code.vaddr + rng.below(code.memsz);
                objs[o].spec.dynsyms.push(SymSpec { name: dup_name.clone(), value: value.max(1), size: 4, stype: STT_FUNC, bind: 1, defined: true, abs: false });
            }
            dup_lib = Some(k);
            ctx.count("link_cases_with_an_interposed_symbol");
        }
        // dependency graph: main needs a non-empty subset; a lib may need later libs; every lib reachable from main
        let mut needs: Vec<Vec<usize>> = vec![Vec::new(); nlibs + 1];
        for k in 1..=nlibs {
            let mut parents: Vec<usize> = (0..k).collect();
            // at least one earlier object needs this lib
            let p = parents.remove(rng.usize(parents.len()));
            needs[p].push(k);
            for q in parents {
                if rng.chance(1, 4) {
                    needs[q].push(k);
                }
            }
        }
        for k in 0..=nlibs {
            let names: Vec<String> = needs[k].iter().map(|j| objs[*j].file.clone()).collect();
            objs[k].spec.needed = names;
        }
        // transitive dependencies (what is already loaded when the object's relocations are applied)
        let mut reach: Vec<BTreeSet<usize>> = vec![BTreeSet::new(); nlibs + 1];
        for k in (0..=nlibs).rev() {
            let mut r = BTreeSet::new();
            for j in &needs[k] {
                r.insert(*j);
                r.extend(reach[*j].iter().cloned());
            }
            reach[k] = r;
        }
        // references: words in the data segment relocated against symbols of the object itself, the main program or its dependencies
        for k in 0..=nlibs {
            let mut providers: Vec<usize> = reach[k].iter().cloned().collect();
            providers.push(0);
            if k == 0 {
                providers = (1..=nlibs).collect();
                providers.push(0);
            }
            let data_vaddr = objs[k].spec.segments[1].vaddr;
            let data_len = objs[k].spec.segments[1].data.len() as u64;
            let mut used: BTreeSet<u64> = BTreeSet::new();
            let mut free_word = |rng: &mut Rng, used: &mut BTreeSet<u64>| -> Option<u64> {
                for _ in 0..20 {
                    // any word of the data segment's file part, the last one included
                    let o = rng.below(data_len / 4) * 4;
                    if used.insert(o) {
                        return Some(o);
                    }
                }
                None
            };
            if mips {
                // GOT: two reserved + local entries, then one entry per dynamic symbol from gotsym on
                let nlocal = rng.range(2, 5);
                let own = objs[k].spec.dynsyms.len() as u64;
                let mut imports: Vec<(usize, String, u64)> = Vec::new();
                for _ in 0..rng.range(1, 3) {
                    let p = providers[rng.usize(providers.len())];
                    if p == k {
                        continue;
                    }
                    let ndef = objs[p].spec.dynsyms.iter().filter(|s| s.defined).count();
                    let s = objs[p].spec.dynsyms[rng.usize(ndef)].clone();
                    if !imports.iter().any(|i| i.1 == s.name) {
                        imports.push((p, s.name.clone(), s.value));
                    }
                }
                // dynsym: [null] own... imports...   gotsym = 1 (all of them have GOT entries)
                for (_, name, _) in &imports {
                    objs[k].spec.dynsyms.push(SymSpec { name: name.clone(), value: 0, size: 0, stype: STT_FUNC, bind: 1, defined: false, abs: false });
                }
                let symtabno = 1 + own + imports.len() as u64;
                let got_off = 0u64;
                let got_vaddr = data_vaddr + got_off;
                let total = nlocal + (symtabno - 1);
                if total * 4 + 16 > data_len {
                    ctx.count("link_case_too_small(skipped)");
                    return;
                }
                let mut words: Vec<u32> = Vec::new();
                for i in 0..nlocal {
                    let a = if i < 2 { 0 } else { data_vaddr + (rng.below(data_len) & !3) };
                    words.push(a as u32);
                    objs[k].rel_words.push((got_vaddr + i * 4, a));
                }
                for i in 0..own as usize {
                    let v = objs[k].spec.dynsyms[i].value;
                    words.push(v as u32);
                    objs[k].rel_words.push((got_vaddr + (nlocal + i as u64) * 4, v));
                }
                for (j, (p, name, value)) in imports.iter().enumerate() {
                    words.push(0);
                    objs[k].sym_words.push((got_vaddr + (nlocal + own + j as u64) * 4, *p, name.clone(), *value));
                }
                for (i, w) in words.iter().enumerate() {
                    let b = if big { w.to_be_bytes() } else { w.to_le_bytes() };
                    objs[k].spec.segments[1].data[got_off as usize + i * 4..got_off as usize + i * 4 + 4].copy_from_slice(&b);
                    used.insert(got_off + i as u64 * 4);
                }
                objs[k].spec.extra_dynamic = vec![(3, got_vaddr), (0x7000_000a, nlocal), (0x7000_0013, 1), (0x7000_0011, symtabno)];
                // R_MIPS_REL32 against the null symbol: word += base
                for _ in 0..rng.below(3) {
                    if let Some(o) = free_word(rng, &mut used) {
                        let a = data_vaddr + (rng.below(data_len) & !3);
                        let b = if big { (a as u32).to_be_bytes() } else { (a as u32).to_le_bytes() };
                        objs[k].spec.segments[1].data[o as usize..o as usize + 4].copy_from_slice(&b);
                        objs[k].spec.dyn_relocs.push(RelocSpec { offset: data_vaddr + o, sym: 0, rtype: 3, addend: 0 });
                        objs[k].rel_words.push((data_vaddr + o, a));
                    }
                }
            } else {
                let own = objs[k].spec.dynsyms.len();
                for _ in 0..rng.range(1, 5) {
                    let o = match free_word(rng, &mut used) {
                        Some(o) => o,
                        None => break,
                    };
                    match rng.below(4) {
                        0 => {
                            // R_386_RELATIVE: the word holds an address of this object
                            let a = data_vaddr + (rng.below(data_len) & !3);
                            objs[k].spec.segments[1].data[o as usize..o as usize + 4].copy_from_slice(&(a as u32).to_le_bytes());
                            objs[k].spec.dyn_relocs.push(RelocSpec { offset: data_vaddr + o, sym: 0, rtype: 8, addend: 0 });
                            objs[k].rel_words.push((data_vaddr + o, a));
                        }
                        kind => {
                            let p = providers[rng.usize(providers.len())];
                            let mut p = p;
                            let (idx, name, value) = if p == k {
                                let i = rng.usize(own);
                                if objs[k].spec.dynsyms[i].name == dup_name && k != 0 {
                                    // a library's reference to the name it defines itself too: not generated
                                    continue;
                                }
                                (i as u32 + 1, objs[k].spec.dynsyms[i].name.clone(), objs[k].spec.dynsyms[i].value)
                            } else {
                                let mut s = objs[p].spec.dynsyms[rng.usize(objs[p].spec.dynsyms.iter().filter(|s| s.defined).count())].clone();
                                if !s.defined {
                                    continue;
                                }
                                if s.name == dup_name {
                                    if Some(k) == dup_lib {
                                        continue;
                                    }
                                    // whoever was asked, the main program's definition is the one found first
                                    p = 0;
                                    s = objs[0].spec.dynsyms.iter().find(|d| d.name == dup_name).unwrap().clone();
                                    ctx.count("link_references_to_an_interposed_symbol");
                                }
                                let pos = match objs[k].spec.dynsyms.iter().position(|d| d.name == s.name) {
                                    Some(pos) => pos,
                                    None => {
                                        objs[k].spec.dynsyms.push(SymSpec { name: s.name.clone(), value: 0, size: 0, stype: s.stype, bind: 1, defined: false, abs: false });
                                        objs[k].spec.dynsyms.len() - 1
                                    }
                                };
                                (pos as u32 + 1, s.name.clone(), s.value)
                            };
                            let (rtype, plt) = match kind {
                                1 => (1, false),
                                2 => (6, false),
                                _ => (7, true),
                            };
                            let r = RelocSpec { offset: data_vaddr + o, sym: idx, rtype, addend: 0 };
                            if plt {
                                objs[k].spec.plt_relocs.push(r);
                            } else {
                                objs[k].spec.dyn_relocs.push(r);
                            }
                            objs[k].sym_words.push((data_vaddr + o, p, name, value));
                        }
                    }
                }
            }
        }
        // write the files
        for o in objs.iter_mut() {
            let built = elfgen::build(&o.spec);
            if std::fs::write(self.dir.join(&o.file), &built.bytes).is_err() {
                ctx.harness_errors.push("cannot write scratch ELF".into());
                return;
            }
            o.built = Some(built);
        }
        let describe = |objs: &Vec<Obj>| -> Value {
            json!({"arch": arch, "objects": objs.iter().map(|o| json!({
                "file": o.file, "needed": o.spec.needed,
                "segments": o.spec.segments.iter().map(|x| format!("0x{:x}+{}", x.vaddr, x.memsz)).collect::<Vec<_>>(),
                "dynsyms": o.spec.dynsyms.iter().map(|x| format!("{}=0x{:x}{}", x.name, x.value, if x.defined {""} else {" (undefined)"})).collect::<Vec<_>>(),
                "relocs": o.spec.dyn_relocs.iter().chain(o.spec.plt_relocs.iter()).map(|r| format!("0x{:x} type {} sym {}", r.offset, r.rtype, r.sym)).collect::<Vec<_>>(),
                "extra_dynamic": o.spec.extra_dynamic.iter().map(|(t, v)| format!("0x{:x}=0x{:x}", t, v)).collect::<Vec<_>>(),
            })).collect::<Vec<_>>()})
        };
        ctx.trace(|| format!("link {}", describe(&objs)));
        let main_path = self.dir.join(&objs[0].file);
        let dir = self.dir.clone();
        let linked = guard(|| ElfLinkerBuilder::new(main_path.clone()).ld_paths(Some(vec![dir.clone()])).link());
        ctx.eval();
        let cleanup = |objs: &Vec<Obj>, dir: &PathBuf| {
            for o in objs {
                let _ = std::fs::remove_file(dir.join(&o.file));
            }
        };
        let mut linker = match linked {
            Err(pi) => {
                ctx.panic_violation(&format!("{}:link", arch), &pi, describe(&objs));
                cleanup(&objs, &self.dir);
                return;
            }
            Ok(Err(e)) => {
                ctx.violation(&format!("{}:link:well_formed_objects_rejected", arch), json!({"objects": describe(&objs), "error": format!("{}", e).chars().take(200).collect::<String>()}));
                cleanup(&objs, &self.dir);
                return;
            }
            Ok(Ok(l)) => l,
        };
        cleanup(&objs, &self.dir);
        // observed bases
        let mut bases: Vec<u64> = Vec::new();
        for o in &objs {
            match linker.loaded().get(&o.file) {
                Some(e) => bases.push(e.base_address()),
                None => {
                    ctx.violation(&format!("{}:link:needed_object_not_loaded", arch), json!({"objects": describe(&objs), "missing": o.file}));
                    return;
                }
            }
        }
        // expected image: every object's segments at its base, relocated words replaced
        let mut want = Image::new();
        for (o, b) in objs.iter().zip(bases.iter()) {
            expected_image(o.built.as_ref().unwrap(), *b, &mut want);
        }
        let put32 = |img: &mut Image, addr: u64, v: u32| {
            let bytes = if big { v.to_be_bytes() } else { v.to_le_bytes() };
            for (i, b) in bytes.iter().enumerate() {
                if let Some(e) = img.get_mut(&(addr + i as u64)) {
                    e.0 = *b;
                }
            }
        };
        let mut reloc_addrs: BTreeMap<u64, String> = BTreeMap::new();
        for (k, o) in objs.iter().enumerate() {
            for (addr, p, name, value) in &o.sym_words {
                put32(&mut want, bases[k] + addr, (bases[*p] + value) as u32);
                reloc_addrs.insert(bases[k] + addr, format!("word in {} naming {} (defined in {} at 0x{:x}, loaded at 0x{:x})", o.file, name, objs[*p].file, value, bases[*p]));
            }
            for (addr, a) in &o.rel_words {
                put32(&mut want, bases[k] + addr, (bases[k] + a) as u32);
                reloc_addrs.insert(bases[k] + addr, format!("base-relative word in {} (0x{:x} + base 0x{:x})", o.file, a, bases[k]));
            }
        }
        let got = match linker.memory() {
            Ok(m) => image_of(&m),
            Err(e) => {
                ctx.violation(&format!("{}:link:memory_error", arch), json!({"objects": describe(&objs), "error": format!("{}", e)}));
                return;
            }
        };
        if let Some((kind, what)) = image_diff(&got, &want) {
            // attribute a differing byte to the relocation it belongs to
            let addr = what.split_whitespace().next().and_then(|s| u64::from_str_radix(s.trim_start_matches("0x"), 16).ok()).unwrap_or(0);
            let rel = reloc_addrs.range(..=addr).next_back().filter(|(a, _)| addr - **a < 4);
            let word = |img: &Image, a: u64| -> String { (0..4).map(|i| img.get(&(a + i)).map(|e| format!("{:02x}", e.0)).unwrap_or("--".into())).collect() };
            let (kind, detail) = match rel {
                Some((a, d)) => ("relocated_word_wrong".to_string(), format!("{}: expected bytes {} got {}", d, word(&want, *a), word(&got, *a))),
                None => (format!("memory:{}", kind), what),
            };
            ctx.violation(&format!("{}:link:{}", arch, kind), json!({"objects": describe(&objs), "bases": bases.iter().map(|b| format!("0x{:x}", b)).collect::<Vec<_>>(), "problem": detail}));
            return;
        }
        // entries: every object's function symbols at its base, the program entry of the main object
        let mut want_entries: BTreeSet<u64> = BTreeSet::new();
        for (k, o) in objs.iter().enumerate() {
            for s in &o.spec.dynsyms {
                if s.stype == STT_FUNC && s.defined && s.value != 0 {
                    want_entries.insert(bases[k] + s.value);
                }
            }
            want_entries.insert(bases[k] + o.spec.entry);
        }
        let got_entries: BTreeSet<u64> = match linker.function_entries() {
            Ok(v) => v.iter().map(|f| f.address()).collect(),
            Err(e) => {
                ctx.violation(&format!("{}:link:function_entries_error", arch), json!({"error": format!("{}", e)}));
                return;
            }
        };
        if got_entries != want_entries {
            ctx.violation(&format!("{}:link:function_entries", arch), json!({"objects": describe(&objs), "missing": want_entries.difference(&got_entries).map(|x| format!("0x{:x}", x)).collect::<Vec<_>>(), "extra": got_entries.difference(&want_entries).map(|x| format!("0x{:x}", x)).collect::<Vec<_>>()}));
            return;
        }
        // user-supplied entries added after the first query must show up in the next one (and only they)
        let users: Vec<u64> = (0..1 + rng.below(2)).map(|_| bases[0] + 0x40 + 4 * rng.below(64)).collect();
        for u in &users {
            linker.add_user_function(*u);
        }
        let mut want2 = want_entries.clone();
        want2.extend(users.iter().cloned());
        match linker.function_entries() {
            Ok(v) => {
                let got2: BTreeSet<u64> = v.iter().map(|f| f.address()).collect();
                if got2 != want2 {
                    ctx.violation(&format!("{}:link:function_entries_after_add_user_function", arch), json!({"objects": describe(&objs), "users": users.iter().map(|x| format!("0x{:x}", x)).collect::<Vec<_>>(),
                        "missing": want2.difference(&got2).map(|x| format!("0x{:x}", x)).collect::<Vec<_>>(), "extra": got2.difference(&want2).map(|x| format!("0x{:x}", x)).collect::<Vec<_>>()}));
                    return;
                }
            }
            Err(e) => {
                ctx.violation(&format!("{}:link:function_entries_error", arch), json!({"error": format!("{}", e)}));
                return;
            }
        }
        if linker.program_entry() != bases[0] + objs[0].spec.entry {
            ctx.violation(&format!("{}:link:program_entry", arch), json!({"got": format!("0x{:x}", linker.program_entry())}));
            return;
        }
        let syms: BTreeSet<(String, u64)> = linker.symbols().iter().map(|s| (s.name().to_string(), s.address())).collect();
        for (k, o) in objs.iter().enumerate() {
            for s in &o.spec.dynsyms {
                if s.name == dup_name && k != 0 {
                    continue;
                }
                if s.defined && s.value != 0 && !syms.contains(&(s.name.clone(), bases[k] + s.value)) {
                    ctx.violation(&format!("{}:link:symbol_missing_or_misplaced", arch), json!({"objects": describe(&objs), "symbol": s.name, "expected": format!("0x{:x}", bases[k] + s.value)}));
                    return;
                }
            }
        }
        // ---- a further object loaded into the same linker afterwards (a plugin): what was linked before stays as
        // it is (its words were rebased once, not once more), the newcomer's base-relative words are rebased once
        if !mips && rng.chance(1, 2) {
            let pstart = 0x2000u64;
            let code = SegSpec { vaddr: pstart, data: rng.bytes(32), memsz: 32, r: true, w: false, x: true };
            let dstart = 0x4000u64;
            let mut data = SegSpec { vaddr: dstart, data: vec![0; 64], memsz: 64, r: true, w: true, x: false };
            let mut rels: Vec<RelocSpec> = Vec::new();
            let mut prel: Vec<(u64, u64)> = Vec::new();
            for j in 0..1 + rng.below(3) {
                let o = 8 * j;
                let a = dstart + (rng.below(64) & !3);
                data.data[o as usize..o as usize + 4].copy_from_slice(&(a as u32).to_le_bytes());
                rels.push(RelocSpec { offset: dstart + o, sym: 0, rtype: 8, addend: 0 });
                prel.push((dstart + o, a));
            }
            let pfile = format!("plug_{}.so", case_id);
            let pspec = ElfSpec {
                class64: false,
                big_endian: false,
                machine: 3,
                etype: 3,
                entry: 0,
                segments: vec![code, data],
                symtab: vec![],
                dynsyms: vec![SymSpec { name: format!("plug_f_{}", case_id), value: pstart + 4, size: 4, stype: STT_FUNC, bind: 1, defined: true, abs: false }],
                needed: vec![],
                soname: Some(pfile.clone()),
                interp: None,
                dyn_relocs: rels,
                plt_relocs: vec![],
                use_rela: false,
                extra_dynamic: vec![],
                meta_vaddr: 0x8000,
            };
            let pbuilt = elfgen::build(&pspec);
            let ppath = self.dir.join(&pfile);
            if std::fs::write(&ppath, &pbuilt.bytes).is_err() {
                ctx.harness_errors.push("cannot write scratch ELF".into());
                return;
            }
            let pbase = 0x6000_0000u64 + 0x1000 * rng.below(16);
            let r = guard(|| linker.load_elf(std::path::Path::new(&pfile), pbase));
            let _ = std::fs::remove_file(&ppath);
            ctx.eval();
            match r {
                Err(pi) => {
                    ctx.panic_violation(&format!("{}:link:load_elf_after_link", arch), &pi, describe(&objs));
                    return;
                }
                Ok(Err(e)) => {
                    ctx.violation(&format!("{}:link:load_elf_after_link_rejected", arch), json!({"objects": describe(&objs), "error": format!("{}", e).chars().take(200).collect::<String>()}));
                    return;
                }
                Ok(Ok(())) => {}
            }
            let got2 = match linker.memory() {
                Ok(m) => image_of(&m),
                Err(_) => return,
            };
            for (a, e) in want.iter() {
                if got2.get(a).map(|g| g.0) != Some(e.0) {
                    let rel = reloc_addrs.range(..=*a).next_back().filter(|(ra, _)| *a - **ra < 4).map(|(_, d)| d.clone());
                    ctx.violation(&format!("{}:link:earlier_object_changed_by_a_later_load_elf", arch), json!({"objects": describe(&objs), "address": format!("0x{:x}", a), "expected": e.0, "got": got2.get(a).map(|g| g.0), "relocation": rel, "plugin_base": format!("0x{:x}", pbase)}));
                    return;
                }
            }
            for (addr, a) in &prel {
                let wantw = ((pbase + a) as u32).to_le_bytes();
                let gotw: Vec<Option<u8>> = (0..4).map(|i| got2.get(&(pbase + addr + i)).map(|g| g.0)).collect();
                if gotw != wantw.iter().map(|b| Some(*b)).collect::<Vec<_>>() {
                    ctx.violation(&format!("{}:link:relocated_word_wrong:later_load_elf", arch), json!({"objects": describe(&objs), "word_at": format!("0x{:x}", pbase + addr), "expected": format!("0x{:x}", pbase + a), "got": format!("{:?}", gotw)}));
                    return;
                }
            }
            ctx.count("link_cases_with_a_later_load_elf");
        }
        ctx.count("link_cases_checked");
        let nsym: usize = objs.iter().map(|o| o.sym_words.len()).sum();
        let nrel: usize = objs.iter().map(|o| o.rel_words.len()).sum();
        ctx.count_n("relocated_words_checked", (nsym + nrel) as u64);
        if nsym > 0 {
            let cross_lib = objs.iter().enumerate().any(|(k, o)| k > 0 && o.sym_words.iter().any(|w| w.1 != k));
            ctx.class(&format!("link/{}/libs{}{}{}", arch, nlibs, if cross_lib { "+lib_imports" } else { "" }, if nrel > 0 { "+relative" } else { "" }));
            if ctx.want_sample() {
                ctx.sample(json!({"link": describe(&objs), "bases": bases.iter().map(|b| format!("0x{:x}", b)).collect::<Vec<_>>(), "symbol_words": nsym, "relative_words": nrel}));
            }
        }
    }
}

impl Check for C19 {
    fn run(&mut self, ctx: &mut Ctx, rng: &mut Rng, _case: u64) {
        let _ = self.thorough;
        for _ in 0..4 {
            if rng.chance(1, 3) {
                self.link(ctx, rng);
            } else {
                self.single(ctx, rng);
            }
        }
    }
}
