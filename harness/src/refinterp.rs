//! Reference small-step interpreter for IL functions (the semantics stated in C07),
//! independent of falcon's executor: own scalar map, own byte-map memory, own
//! arithmetic (`refeval`), own successor selection.

use crate::locgraph::{first_loc, loc_str};
use crate::refeval::{self as re, Bv, EvalErr};
use falcon::il::{Expression, Function, FunctionLocation as Loc, Operation, Scalar};
use num_bigint::BigUint;
use std::collections::{BTreeMap, BTreeSet, HashMap};

#[derive(Clone, Debug, PartialEq, Eq)]
pub enum Fault {
    Undefined(String),
    Unmapped(u64),
    DivZero,
    Sort,
    Intrinsic,
    NoGuard,
    /// more than one out-edge enabled (only on ill-formed programs)
    AmbiguousGuards,
    AddressTooWide,
    BadPhi(String),
    BadLocation(String),
}

impl Fault {
    pub fn kind(&self) -> &'static str {
        match self {
            Fault::Undefined(_) => "undefined_scalar",
            Fault::Unmapped(_) => "unmapped",
            Fault::DivZero => "div_zero",
            Fault::Sort => "sort",
            Fault::Intrinsic => "intrinsic",
            Fault::NoGuard => "no_guard",
            Fault::AmbiguousGuards => "ambiguous_guards",
            Fault::AddressTooWide => "address_too_wide",
            Fault::BadPhi(_) => "bad_phi",
            Fault::BadLocation(_) => "bad_location",
        }
    }
}

impl From<EvalErr> for Fault {
    fn from(e: EvalErr) -> Fault {
        match e {
            EvalErr::Sort => Fault::Sort,
            EvalErr::DivZero => Fault::DivZero,
            EvalErr::Undefined(s) => Fault::Undefined(s),
        }
    }
}

pub type Key = (String, Option<usize>);

pub fn key_of(s: &Scalar, ssa: bool) -> Key {
    (s.name().to_string(), if ssa { s.ssa() } else { None })
}

#[derive(Clone, Debug, PartialEq, Eq)]
pub enum Event {
    Store { addr: u64, bits: usize, value: BigUint },
    Branch { target: u64 },
    Intrinsic { at: Loc },
}

#[derive(Clone, Copy, Debug, PartialEq, Eq)]
pub enum IntrinsicMode {
    /// executing an intrinsic is an error (falcon's executor semantics)
    Fault,
    /// declared written scalars receive deterministic pseudo-random values, keyed by position and visit count
    Havoc,
}

#[derive(Clone, Debug)]
pub struct Machine {
    pub scalars: HashMap<Key, Bv>,
    pub mem: BTreeMap<u64, u8>,
    pub big_endian: bool,
    pub ssa: bool,
    pub intrinsics: IntrinsicMode,
    pub loc: Loc,
    /// block we arrived from (for phi selection), None at function entry
    pub from_block: Option<usize>,
    pub events: Vec<Event>,
    pub last_writer: HashMap<Key, Loc>,
    pub assigned: BTreeSet<Key>,
    /// value written by the most recent instruction (dst key, value)
    pub last_write: Option<(Key, Bv)>,
    pub steps: u64,
    havoc_counter: u64,
    pub havoc_seed: u64,
}

#[derive(Clone, Debug, PartialEq, Eq)]
pub enum StepOut {
    /// moved to the next location inside the function
    Moved,
    /// executed an indirect branch: the caller decides where control goes
    Branched(u64),
    /// no outgoing edge: end of the function
    Terminal,
    Fault(Fault),
}

fn mix(mut x: u64) -> u64 {
    x ^= x >> 33;
    x = x.wrapping_mul(0xff51_afd7_ed55_8ccd);
    x ^= x >> 33;
    x = x.wrapping_mul(0xc4ce_b9fe_1a85_ec53);
    x ^ (x >> 33)
}

impl Machine {
    pub fn new(f: &Function, big_endian: bool, ssa: bool) -> Option<Machine> {
        let entry = f.control_flow_graph().entry()?;
        let loc = first_loc(f, entry)?;
        Some(Machine {
            scalars: HashMap::new(),
            mem: BTreeMap::new(),
            big_endian,
            ssa,
            intrinsics: IntrinsicMode::Fault,
            loc,
            from_block: None,
            events: Vec::new(),
            last_writer: HashMap::new(),
            assigned: BTreeSet::new(),
            last_write: None,
            steps: 0,
            havoc_counter: 0,
            havoc_seed: 0,
        })
    }

    pub fn set(&mut self, name: &str, v: Bv) {
        self.scalars.insert((name.to_string(), None), v);
    }
    pub fn get(&self, name: &str) -> Option<&Bv> {
        self.scalars.get(&(name.to_string(), None))
    }

    pub fn eval(&self, e: &Expression) -> Result<Bv, Fault> {
        let ssa = self.ssa;
        let sc = &self.scalars;
        re::eval(e, &|s: &Scalar| sc.get(&key_of(s, ssa)).cloned()).map_err(Fault::from)
    }

    pub fn load(&self, addr: u64, bits: usize) -> Result<Bv, Fault> {
        if bits == 0 || bits % 8 != 0 {
            return Err(Fault::Sort);
        }
        let n = bits / 8;
        let mut bytes = Vec::with_capacity(n);
        for i in 0..n as u64 {
            let a = addr.wrapping_add(i);
            match self.mem.get(&a) {
                Some(b) => bytes.push(*b),
                None => return Err(Fault::Unmapped(a)),
            }
        }
        let v = if self.big_endian { BigUint::from_bytes_be(&bytes) } else { BigUint::from_bytes_le(&bytes) };
        Ok(Bv::new(v, bits))
    }

    pub fn store(&mut self, addr: u64, v: &Bv) -> Result<(), Fault> {
        if v.bits == 0 || v.bits % 8 != 0 {
            return Err(Fault::Sort);
        }
        let n = v.bits / 8;
        let mut bytes = v.v.to_bytes_le();
        bytes.resize(n, 0);
        if self.big_endian {
            bytes.reverse();
        }
        for (i, b) in bytes.iter().enumerate() {
            self.mem.insert(addr.wrapping_add(i as u64), *b);
        }
        Ok(())
    }

    fn write(&mut self, dst: &Scalar, v: Bv, at: &Loc) {
        let k = key_of(dst, self.ssa);
        self.last_writer.insert(k.clone(), at.clone());
        self.assigned.insert(k.clone());
        self.last_write = Some((k.clone(), v.clone()));
        self.scalars.insert(k, v);
    }

    /// apply the phi nodes of `block` for an arrival from `from` (None = function entry)
    fn apply_phis(&mut self, f: &Function, block: usize, from: Option<usize>) -> Result<(), Fault> {
        if !self.ssa {
            return Ok(());
        }
        let b = f.block(block).map_err(|_| Fault::BadLocation(format!("block {}", block)))?;
        let mut writes = Vec::new();
        for phi in b.phi_nodes() {
            let src = match from {
                Some(p) => phi.incoming_scalar(p).ok_or_else(|| Fault::BadPhi(format!("phi {} in block {} has no input for predecessor {}", phi.out(), block, p)))?,
                None => match phi.entry_scalar() {
                    Some(s) => s,
                    None => continue, // no entry input: the output is simply not defined on this path
                },
            };
            let v = self
                .scalars
                .get(&key_of(src, true))
                .cloned()
                .ok_or_else(|| Fault::Undefined(format!("phi input {}", src)))?;
            writes.push((phi.out().clone(), v));
        }
        for (out, v) in writes {
            let k = key_of(&out, true);
            self.assigned.insert(k.clone());
            self.scalars.insert(k, v);
        }
        Ok(())
    }

    /// must be called once before the first step in SSA mode (phi nodes of the entry block)
    pub fn enter(&mut self, f: &Function) -> Result<(), Fault> {
        let b = match &self.loc {
            Loc::Instruction(b, _) | Loc::EmptyBlock(b) => *b,
            Loc::Edge(_, t) => *t,
        };
        self.apply_phis(f, b, None)
    }

    fn choose_edge(&mut self, f: &Function, block: usize) -> StepOut {
        let mut enabled = Vec::new();
        let mut total = 0;
        let mut first_fault: Option<Fault> = None;
        for e in f.edges() {
            if e.head() != block {
                continue;
            }
            total += 1;
            match e.condition() {
                None => enabled.push((e.head(), e.tail())),
                Some(c) => match self.eval(c) {
                    Ok(v) => {
                        // an edge is taken when its guard evaluates to one (whatever the guard's width: a wider
                        // guard with another non-zero value does not hold)
                        if v.is_one() {
                            enabled.push((e.head(), e.tail()));
                        }
                    }
                    Err(fault) => {
                        first_fault.get_or_insert(fault);
                    }
                },
            }
        }
        if total == 0 {
            return StepOut::Terminal;
        }
        if let Some(fault) = first_fault {
            // one guard cannot be evaluated: an error if nothing else is enabled; if another guard
            // holds the program is outside the well-formed fragment (not judged by callers)
            return StepOut::Fault(if enabled.is_empty() { fault } else { Fault::AmbiguousGuards });
        }
        match enabled.len() {
            0 => StepOut::Fault(Fault::NoGuard),
            1 => {
                self.loc = Loc::Edge(enabled[0].0, enabled[0].1);
                StepOut::Moved
            }
            _ => StepOut::Fault(Fault::AmbiguousGuards),
        }
    }

    /// execute the current location and move on
    pub fn step(&mut self, f: &Function) -> StepOut {
        self.steps += 1;
        self.last_write = None;
        let loc = self.loc.clone();
        match loc {
            Loc::Instruction(bi, ii) => {
                let block = match f.block(bi) {
                    Ok(b) => b,
                    Err(_) => return StepOut::Fault(Fault::BadLocation(loc_str(&loc))),
                };
                let pos = match block.instructions().iter().position(|i| i.index() == ii) {
                    Some(p) => p,
                    None => return StepOut::Fault(Fault::BadLocation(loc_str(&loc))),
                };
                let ins = &block.instructions()[pos];
                let mut branched = None;
                match ins.operation() {
                    Operation::Assign { dst, src } => match self.eval(src) {
                        Ok(v) => {
                            if v.bits != dst.bits() {
                                return StepOut::Fault(Fault::Sort);
                            }
                            self.write(dst, v, &loc)
                        }
                        Err(e) => return StepOut::Fault(e),
                    },
                    Operation::Store { index, src } => {
                        let v = match self.eval(src) {
                            Ok(v) => v,
                            Err(e) => return StepOut::Fault(e),
                        };
                        let a = match self.eval(index) {
                            Ok(a) => a,
                            Err(e) => return StepOut::Fault(e),
                        };
                        let a = match a.to_u64() {
                            Some(a) => a,
                            None => return StepOut::Fault(Fault::AddressTooWide),
                        };
                        if let Err(e) = self.store(a, &v) {
                            return StepOut::Fault(e);
                        }
                        self.events.push(Event::Store { addr: a, bits: v.bits, value: v.v.clone() });
                    }
                    Operation::Load { dst, index } => {
                        let a = match self.eval(index) {
                            Ok(a) => a,
                            Err(e) => return StepOut::Fault(e),
                        };
                        let a = match a.to_u64() {
                            Some(a) => a,
                            None => return StepOut::Fault(Fault::AddressTooWide),
                        };
                        match self.load(a, dst.bits()) {
                            Ok(v) => self.write(dst, v, &loc),
                            Err(e) => return StepOut::Fault(e),
                        }
                    }
                    Operation::Branch { target } => {
                        let t = match self.eval(target) {
                            Ok(t) => t,
                            Err(e) => return StepOut::Fault(e),
                        };
                        match t.to_u64() {
                            Some(t) => {
                                self.events.push(Event::Branch { target: t });
                                branched = Some(t);
                            }
                            None => return StepOut::Fault(Fault::AddressTooWide),
                        }
                    }
                    Operation::Intrinsic { intrinsic } => match self.intrinsics {
                        IntrinsicMode::Fault => return StepOut::Fault(Fault::Intrinsic),
                        IntrinsicMode::Havoc => {
                            self.events.push(Event::Intrinsic { at: loc.clone() });
                            if let Some(ws) = intrinsic.scalars_written() {
                                let ws: Vec<Scalar> = ws.into_iter().cloned().collect();
                                for (n, s) in ws.iter().enumerate() {
                                    self.havoc_counter += 1;
                                    let h = mix(self.havoc_seed ^ mix((bi as u64) << 32 | ii as u64) ^ mix(self.havoc_counter << 8 | n as u64));
                                    let v = Bv::new(BigUint::from(h) | (BigUint::from(mix(h)) << 64), s.bits());
                                    self.write(s, v, &loc);
                                }
                            }
                        }
                    },
                    Operation::Nop { .. } => {}
                }
                if let Some(t) = branched {
                    return StepOut::Branched(t);
                }
                if pos + 1 < block.instructions().len() {
                    self.loc = Loc::Instruction(bi, block.instructions()[pos + 1].index());
                    StepOut::Moved
                } else {
                    self.choose_edge(f, bi)
                }
            }
            Loc::EmptyBlock(bi) => self.choose_edge(f, bi),
            Loc::Edge(h, t) => {
                match first_loc(f, t) {
                    Some(l) => self.loc = l,
                    None => return StepOut::Fault(Fault::BadLocation(loc_str(&loc))),
                }
                self.from_block = Some(h);
                if let Err(e) = self.apply_phis(f, t, Some(h)) {
                    return StepOut::Fault(e);
                }
                StepOut::Moved
            }
        }
    }

    /// continue after an indirect branch whose target lies in the same function
    pub fn continue_at(&mut self, loc: Loc) {
        self.loc = loc;
    }
}

/// map address -> first instruction location carrying it (block order, then position)
pub fn address_map(f: &Function) -> BTreeMap<u64, Loc> {
    let mut m = BTreeMap::new();
    for b in f.blocks() {
        for i in b.instructions() {
            if let Some(a) = i.address() {
                m.entry(a).or_insert(Loc::Instruction(b.index(), i.index()));
            }
        }
    }
    m
}
