//! C01 — x86/amd64 lifter agrees with the processor on every instruction and state.
//!
//! Oracle: the host CPU, single-stepped under ptrace (`x86native`). Each case
//! assembles one instruction from an encoding template (opcode form x operand size
//! x reg/mem/imm x ModRM/SIB/disp x prefixes x all register numbers), solves the
//! registers of its memory operand so that the access falls into a small arena,
//! executes it natively and as lifted IL (reference IL interpreter) from the same
//! state, and compares GPRs, XMM registers, CF/ZF/SF/OF/DF where architecturally
//! defined, the arena bytes and the next instruction address.

use crate::fw::*;
use crate::liftexec::{run_block, IlState, LiftEnd};
use crate::refeval::Bv;
use crate::refinterp::Fault;
use crate::x86native::{Native, StepResult, X86State, ARENA_ADDR, ARENA_SIZE, CODE_ADDR};
use falcon::translator::x86::{Amd64, X86};
use falcon::translator::{Options, Translator};
use serde_json::{json, Value};

pub struct C01 {
    native: Option<Native>,
    native_err: Option<String>,
}
impl C01 {
    pub fn new(_t: Tier) -> C01 {
        match Native::new() {
            Ok(n) => C01 { native: Some(n), native_err: Option::None },
            Err(e) => C01 { native: Option::None, native_err: Some(e) },
        }
    }
}

pub const GPR64: [&str; 16] = ["rax", "rcx", "rdx", "rbx", "rsp", "rbp", "rsi", "rdi", "r8", "r9", "r10", "r11", "r12", "r13", "r14", "r15"];
pub const GPR32: [&str; 8] = ["eax", "ecx", "edx", "ebx", "esp", "ebp", "esi", "edi"];

#[derive(Clone, Copy, Debug, PartialEq)]
enum Imm {
    None,
    I8,
    I16,
    /// 16 or 32 bits by operand size (sign-extended to 64 with REX.W)
    Iz,
    /// b8+r: 16/32, or 64 with REX.W
    Iv,
}

#[derive(Clone, Copy, Debug, PartialEq)]
enum Kind {
    /// ModRM with a register in reg; optional /digit
    ModRM(Option<u8>),
    /// register number in the low 3 opcode bits
    OpReg,
    Plain,
    Rel8,
    Rel32,
}

#[derive(Clone, Copy, Debug, PartialEq)]
enum Special {
    None,
    MemOnly,
    RegOnly,
    Str,
    Stack,
    Leave,
    ShiftImm,
    ShiftCl,
    Shift1,
    BitIdxReg,
    Div,
    Aligned16,
    Sse,
    /// 0x40..0x4f one-byte inc/dec (32-bit mode only)
    Short32,
}

#[derive(Clone, Copy, Debug)]
struct Form {
    name: &'static str,
    /// mandatory prefix (0 = none)
    mand: u8,
    op: &'static [u8],
    kind: Kind,
    imm: Imm,
    byte_op: bool,
    sp: Special,
}

const fn f(name: &'static str, mand: u8, op: &'static [u8], kind: Kind, imm: Imm, byte_op: bool, sp: Special) -> Form {
    Form { name, mand, op, kind, imm, byte_op, sp }
}

use Imm::*;
use Kind::*;
use Special as S;

const ALU: [&str; 8] = ["add", "or", "adc", "sbb", "and", "sub", "xor", "cmp"];
const CC: [&str; 16] = ["o", "no", "b", "ae", "e", "ne", "be", "a", "s", "ns", "p", "np", "l", "ge", "le", "g"];

fn forms() -> Vec<Form> {
    let mut v: Vec<Form> = Vec::new();
    // leak small strings for names built at run time
    fn nm(s: String) -> &'static str {
        Box::leak(s.into_boxed_str())
    }
    fn ob(b: Vec<u8>) -> &'static [u8] {
        Box::leak(b.into_boxed_slice())
    }
    for (k, a) in ALU.iter().enumerate() {
        let k = k as u8;
        v.push(f(nm(format!("{}_rm8_r8", a)), 0, ob(vec![k * 8]), ModRM(Option::None), None, true, S::None));
        v.push(f(nm(format!("{}_rm_r", a)), 0, ob(vec![k * 8 + 1]), ModRM(Option::None), None, false, S::None));
        v.push(f(nm(format!("{}_r8_rm8", a)), 0, ob(vec![k * 8 + 2]), ModRM(Option::None), None, true, S::None));
        v.push(f(nm(format!("{}_r_rm", a)), 0, ob(vec![k * 8 + 3]), ModRM(Option::None), None, false, S::None));
        v.push(f(nm(format!("{}_al_i8", a)), 0, ob(vec![k * 8 + 4]), Plain, I8, true, S::None));
        v.push(f(nm(format!("{}_eax_iz", a)), 0, ob(vec![k * 8 + 5]), Plain, Iz, false, S::None));
        v.push(f(nm(format!("{}_rm8_i8", a)), 0, &[0x80], ModRM(Some(k)), I8, true, S::None));
        v.push(f(nm(format!("{}_rm_iz", a)), 0, &[0x81], ModRM(Some(k)), Iz, false, S::None));
        v.push(f(nm(format!("{}_rm_i8", a)), 0, &[0x83], ModRM(Some(k)), I8, false, S::None));
    }
    v.push(f("test_rm8_r8", 0, &[0x84], ModRM(Option::None), None, true, S::None));
    v.push(f("test_rm_r", 0, &[0x85], ModRM(Option::None), None, false, S::None));
    v.push(f("test_al_i8", 0, &[0xa8], Plain, I8, true, S::None));
    v.push(f("test_eax_iz", 0, &[0xa9], Plain, Iz, false, S::None));
    v.push(f("test_rm8_i8", 0, &[0xf6], ModRM(Some(0)), I8, true, S::None));
    v.push(f("test_rm_iz", 0, &[0xf7], ModRM(Some(0)), Iz, false, S::None));
    v.push(f("mov_rm8_r8", 0, &[0x88], ModRM(Option::None), None, true, S::None));
    v.push(f("mov_rm_r", 0, &[0x89], ModRM(Option::None), None, false, S::None));
    v.push(f("mov_r8_rm8", 0, &[0x8a], ModRM(Option::None), None, true, S::None));
    v.push(f("mov_r_rm", 0, &[0x8b], ModRM(Option::None), None, false, S::None));
    v.push(f("mov_rm8_i8", 0, &[0xc6], ModRM(Some(0)), I8, true, S::None));
    v.push(f("mov_rm_iz", 0, &[0xc7], ModRM(Some(0)), Iz, false, S::None));
    v.push(f("mov_r8_i8", 0, &[0xb0], OpReg, I8, true, S::None));
    v.push(f("mov_r_iv", 0, &[0xb8], OpReg, Iv, false, S::None));
    v.push(f("lea", 0, &[0x8d], ModRM(Option::None), None, false, S::MemOnly));
    for (d, n) in [(0u8, "inc"), (1, "dec")] {
        v.push(f(nm(format!("{}_rm8", n)), 0, &[0xfe], ModRM(Some(d)), None, true, S::None));
        v.push(f(nm(format!("{}_rm", n)), 0, &[0xff], ModRM(Some(d)), None, false, S::None));
    }
    for (d, n) in [(2u8, "not"), (3, "neg"), (4, "mul"), (5, "imul1"), (6, "div"), (7, "idiv")] {
        let sp = if d >= 6 { S::Div } else { S::None };
        v.push(f(nm(format!("{}_rm8", n)), 0, &[0xf6], ModRM(Some(d)), None, true, sp));
        v.push(f(nm(format!("{}_rm", n)), 0, &[0xf7], ModRM(Some(d)), None, false, sp));
    }
    v.push(f("imul_r_rm", 0, &[0x0f, 0xaf], ModRM(Option::None), None, false, S::None));
    v.push(f("imul_r_rm_iz", 0, &[0x69], ModRM(Option::None), Iz, false, S::None));
    v.push(f("imul_r_rm_i8", 0, &[0x6b], ModRM(Option::None), I8, false, S::None));
    for (d, n) in [(0u8, "rol"), (1, "ror"), (4, "shl"), (5, "shr"), (7, "sar")] {
        v.push(f(nm(format!("{}_rm8_i8", n)), 0, &[0xc0], ModRM(Some(d)), I8, true, S::ShiftImm));
        v.push(f(nm(format!("{}_rm_i8", n)), 0, &[0xc1], ModRM(Some(d)), I8, false, S::ShiftImm));
        v.push(f(nm(format!("{}_rm8_1", n)), 0, &[0xd0], ModRM(Some(d)), None, true, S::Shift1));
        v.push(f(nm(format!("{}_rm_1", n)), 0, &[0xd1], ModRM(Some(d)), None, false, S::Shift1));
        v.push(f(nm(format!("{}_rm8_cl", n)), 0, &[0xd2], ModRM(Some(d)), None, true, S::ShiftCl));
        v.push(f(nm(format!("{}_rm_cl", n)), 0, &[0xd3], ModRM(Some(d)), None, false, S::ShiftCl));
    }
    v.push(f("shld_i8", 0, &[0x0f, 0xa4], ModRM(Option::None), I8, false, S::ShiftImm));
    v.push(f("shld_cl", 0, &[0x0f, 0xa5], ModRM(Option::None), None, false, S::ShiftCl));
    v.push(f("shrd_i8", 0, &[0x0f, 0xac], ModRM(Option::None), I8, false, S::ShiftImm));
    v.push(f("shrd_cl", 0, &[0x0f, 0xad], ModRM(Option::None), None, false, S::ShiftCl));
    v.push(f("movzx_r_rm8", 0, &[0x0f, 0xb6], ModRM(Option::None), None, false, S::None));
    v.push(f("movzx_r_rm16", 0, &[0x0f, 0xb7], ModRM(Option::None), None, false, S::None));
    v.push(f("movsx_r_rm8", 0, &[0x0f, 0xbe], ModRM(Option::None), None, false, S::None));
    v.push(f("movsx_r_rm16", 0, &[0x0f, 0xbf], ModRM(Option::None), None, false, S::None));
    v.push(f("movsxd", 0, &[0x63], ModRM(Option::None), None, false, S::None));
    for (c, n) in CC.iter().enumerate() {
        let c = c as u8;
        v.push(f(nm(format!("set{}", n)), 0, ob(vec![0x0f, 0x90 + c]), ModRM(Some(0)), None, true, S::None));
        v.push(f(nm(format!("cmov{}", n)), 0, ob(vec![0x0f, 0x40 + c]), ModRM(Option::None), None, false, S::None));
        v.push(f(nm(format!("j{}_rel8", n)), 0, ob(vec![0x70 + c]), Rel8, None, false, S::None));
        v.push(f(nm(format!("j{}_rel32", n)), 0, ob(vec![0x0f, 0x80 + c]), Rel32, None, false, S::None));
    }
    v.push(f("jmp_rel8", 0, &[0xeb], Rel8, None, false, S::None));
    v.push(f("jmp_rel32", 0, &[0xe9], Rel32, None, false, S::None));
    v.push(f("jmp_rm", 0, &[0xff], ModRM(Some(4)), None, false, S::None));
    v.push(f("call_rel32", 0, &[0xe8], Rel32, None, false, S::Stack));
    v.push(f("call_rm", 0, &[0xff], ModRM(Some(2)), None, false, S::Stack));
    v.push(f("ret", 0, &[0xc3], Plain, None, false, S::Stack));
    v.push(f("ret_i16", 0, &[0xc2], Plain, I16, false, S::Stack));
    v.push(f("loop", 0, &[0xe2], Rel8, None, false, S::None));
    v.push(f("loope", 0, &[0xe1], Rel8, None, false, S::None));
    v.push(f("loopne", 0, &[0xe0], Rel8, None, false, S::None));
    v.push(f("jrcxz", 0, &[0xe3], Rel8, None, false, S::None));
    v.push(f("push_r", 0, &[0x50], OpReg, None, false, S::Stack));
    v.push(f("pop_r", 0, &[0x58], OpReg, None, false, S::Stack));
    v.push(f("push_iz", 0, &[0x68], Plain, Iz, false, S::Stack));
    v.push(f("push_i8", 0, &[0x6a], Plain, I8, false, S::Stack));
    v.push(f("push_rm", 0, &[0xff], ModRM(Some(6)), None, false, S::Stack));
    v.push(f("pop_rm", 0, &[0x8f], ModRM(Some(0)), None, false, S::Stack));
    v.push(f("leave", 0, &[0xc9], Plain, None, false, S::Leave));
    v.push(f("xchg_rm8_r8", 0, &[0x86], ModRM(Option::None), None, true, S::None));
    v.push(f("xchg_rm_r", 0, &[0x87], ModRM(Option::None), None, false, S::None));
    v.push(f("xchg_eax_r", 0, &[0x90], OpReg, None, false, S::None));
    v.push(f("xadd_rm8_r8", 0, &[0x0f, 0xc0], ModRM(Option::None), None, true, S::None));
    v.push(f("xadd_rm_r", 0, &[0x0f, 0xc1], ModRM(Option::None), None, false, S::None));
    v.push(f("cmpxchg_rm8_r8", 0, &[0x0f, 0xb0], ModRM(Option::None), None, true, S::None));
    v.push(f("cmpxchg_rm_r", 0, &[0x0f, 0xb1], ModRM(Option::None), None, false, S::None));
    for (o, n) in [(0xa3u8, "bt"), (0xab, "bts"), (0xb3, "btr"), (0xbb, "btc")] {
        v.push(f(nm(format!("{}_rm_r", n)), 0, ob(vec![0x0f, o]), ModRM(Option::None), None, false, S::BitIdxReg));
    }
    for (d, n) in [(4u8, "bt"), (5, "bts"), (6, "btr"), (7, "btc")] {
        v.push(f(nm(format!("{}_rm_i8", n)), 0, &[0x0f, 0xba], ModRM(Some(d)), I8, false, S::None));
    }
    v.push(f("bsf", 0, &[0x0f, 0xbc], ModRM(Option::None), None, false, S::None));
    v.push(f("bsr", 0, &[0x0f, 0xbd], ModRM(Option::None), None, false, S::None));
    v.push(f("bswap", 0, &[0x0f, 0xc8], OpReg, None, false, S::None));
    v.push(f("cbw_cwde_cdqe", 0, &[0x98], Plain, None, false, S::None));
    v.push(f("cwd_cdq_cqo", 0, &[0x99], Plain, None, false, S::None));
    for (o, n) in [(0xf8u8, "clc"), (0xf9, "stc"), (0xf5, "cmc"), (0xfc, "cld"), (0xfd, "std"), (0x9e, "sahf"), (0x90, "nop")] {
        v.push(f(n, 0, ob(vec![o]), Plain, None, false, S::None));
    }
    v.push(f("nop_rm", 0, &[0x0f, 0x1f], ModRM(Some(0)), None, false, S::None));
    for (o, n, b) in [(0xa4u8, "movsb", true), (0xa5, "movs", false), (0xaa, "stosb", true), (0xab, "stos", false), (0xac, "lodsb", true), (0xad, "lods", false), (0xa6, "cmpsb", true), (0xae, "scasb", true), (0xaf, "scas", false)] {
        v.push(f(n, 0, ob(vec![o]), Plain, None, b, S::Str));
    }
    // SSE
    v.push(f("movaps_x_xm", 0, &[0x0f, 0x28], ModRM(Option::None), None, false, S::Aligned16));
    v.push(f("movaps_xm_x", 0, &[0x0f, 0x29], ModRM(Option::None), None, false, S::Aligned16));
    v.push(f("movups_x_xm", 0, &[0x0f, 0x10], ModRM(Option::None), None, false, S::Sse));
    v.push(f("movups_xm_x", 0, &[0x0f, 0x11], ModRM(Option::None), None, false, S::Sse));
    v.push(f("movapd_x_xm", 0x66, &[0x0f, 0x28], ModRM(Option::None), None, false, S::Aligned16));
    v.push(f("movapd_xm_x", 0x66, &[0x0f, 0x29], ModRM(Option::None), None, false, S::Aligned16));
    v.push(f("movdqa_x_xm", 0x66, &[0x0f, 0x6f], ModRM(Option::None), None, false, S::Aligned16));
    v.push(f("movdqa_xm_x", 0x66, &[0x0f, 0x7f], ModRM(Option::None), None, false, S::Aligned16));
    v.push(f("movdqu_x_xm", 0xf3, &[0x0f, 0x6f], ModRM(Option::None), None, false, S::Sse));
    v.push(f("movdqu_xm_x", 0xf3, &[0x0f, 0x7f], ModRM(Option::None), None, false, S::Sse));
    v.push(f("movd_x_rm", 0x66, &[0x0f, 0x6e], ModRM(Option::None), None, false, S::Sse));
    v.push(f("movd_rm_x", 0x66, &[0x0f, 0x7e], ModRM(Option::None), None, false, S::Sse));
    v.push(f("movq_x_xm64", 0xf3, &[0x0f, 0x7e], ModRM(Option::None), None, false, S::Sse));
    v.push(f("movq_xm64_x", 0x66, &[0x0f, 0xd6], ModRM(Option::None), None, false, S::Sse));
    for (o, n) in [(0xefu8, "pxor"), (0xeb, "por"), (0xd4, "paddq"), (0xf8, "psubb"), (0xfb, "psubq"), (0x74, "pcmpeqb"), (0x76, "pcmpeqd"), (0xda, "pminub"), (0x60, "punpcklbw"), (0x61, "punpcklwd")] {
        v.push(f(n, 0x66, ob(vec![0x0f, o]), ModRM(Option::None), None, false, S::Aligned16));
    }
    v.push(f("pmovmskb", 0x66, &[0x0f, 0xd7], ModRM(Option::None), None, false, S::RegOnly));
    v.push(f("pshufd", 0x66, &[0x0f, 0x70], ModRM(Option::None), I8, false, S::Aligned16));
    v.push(f("pslldq", 0x66, &[0x0f, 0x73], ModRM(Some(7)), I8, false, S::RegOnly));
    v.push(f("psrldq", 0x66, &[0x0f, 0x73], ModRM(Some(3)), I8, false, S::RegOnly));
    v.push(f("movhpd_x_m", 0x66, &[0x0f, 0x16], ModRM(Option::None), None, false, S::MemOnly));
    v.push(f("movhpd_m_x", 0x66, &[0x0f, 0x17], ModRM(Option::None), None, false, S::MemOnly));
    v.push(f("movlpd_x_m", 0x66, &[0x0f, 0x12], ModRM(Option::None), None, false, S::MemOnly));
    v.push(f("movlpd_m_x", 0x66, &[0x0f, 0x13], ModRM(Option::None), None, false, S::MemOnly));
    v.push(f("movnti", 0, &[0x0f, 0xc3], ModRM(Option::None), None, false, S::MemOnly));
    v.push(f("movsd_x_xm", 0xf2, &[0x0f, 0x10], ModRM(Option::None), None, false, S::Sse));
    v.push(f("movsd_xm_x", 0xf2, &[0x0f, 0x11], ModRM(Option::None), None, false, S::Sse));
    v.push(f("inc_r32_short", 0, &[0x40], OpReg, None, false, S::Short32));
    v.push(f("dec_r32_short", 0, &[0x48], OpReg, None, false, S::Short32));
    v
}

#[derive(Clone, Debug, Default)]
struct MemOp {
    base: Option<usize>,
    index: Option<usize>,
    scale: u64,
    disp: i64,
    rip_rel: bool,
    disp_off: usize,
    seg: u8,
    /// 32-bit mode: absolute disp32 encoded as mod=00 rm=101 (rip-relative in 64-bit mode)
    abs_modrm: bool,
}

#[derive(Clone, Debug)]
struct Enc {
    bytes: Vec<u8>,
    form: Form,
    opsize: usize,
    mem: Option<MemOp>,
    reg: usize,
    rm_reg: Option<usize>,
    imm: i64,
    rep: u8,
    mode64: bool,
    /// 64-bit mode with an address-size prefix: effective addresses and the implicit count / string
    /// registers are 32 bits wide
    addr32: bool,
}

fn assemble(rng: &mut Rng, form: &Form, mode64: bool) -> Option<Enc> {
    let is_sse = form.mand != 0 || matches!(form.sp, S::Aligned16 | S::Sse) || form.name.starts_with("p") && form.op[0] == 0x0f;
    let mut bytes = Vec::new();
    // prefixes
    let mut seg = 0u8;
    let mut rep = 0u8;
    let has_modrm = matches!(form.kind, ModRM(_));
    if has_modrm && rng.chance(1, 10) {
        seg = *rng.pick(&[0x64u8, 0x65]);
        bytes.push(seg);
    }
    let counted = matches!(form.name, "loop" | "loope" | "loopne" | "jrcxz");
    // 64-bit mode: 32-bit addressing; 32-bit mode: only the count register of loop/jcxz becomes 16 bits wide
    // (16-bit ModRM addressing is not generated)
    let addr32 = if mode64 { (has_modrm || form.sp == S::Str || counted) && !matches!(form.sp, S::Stack | S::Leave) && rng.chance(1, 10) } else { counted && rng.chance(1, 5) };
    if addr32 {
        bytes.push(0x67);
    }
    if form.sp == S::Str && rng.chance(1, 2) {
        rep = if matches!(form.name, "cmpsb" | "scasb" | "scas") { *rng.pick(&[0xf3u8, 0xf2]) } else { 0xf3 };
        bytes.push(rep);
    }
    let opsize16 = !is_sse && !form.byte_op && form.sp != S::Short32 && !matches!(form.kind, Rel8 | Rel32) && !matches!(form.sp, S::Stack | S::Leave) && form.name != "jmp_rm" && rng.chance(1, 5);
    if opsize16 {
        bytes.push(0x66);
    }
    if form.mand != 0 {
        bytes.push(form.mand);
    }
    // register numbers
    let nregs = if mode64 { 16 } else { 8 };
    let reg = rng.usize(nregs);
    let rmr = rng.usize(nregs);
    let idx = rng.usize(nregs);
    let rexw = mode64 && !opsize16 && !form.byte_op && form.sp != S::Short32 && !matches!(form.kind, Rel8 | Rel32) && (form.name == "movsxd" || rng.chance(2, 5)) && !(is_sse && !matches!(form.name, "movd_x_rm" | "movd_rm_x"));
    let mut rex = 0u8;
    let mut rex_empty = false;
    if form.sp == S::Short32 && mode64 {
        return Option::None;
    }
    if form.name == "movsxd" && !mode64 {
        return Option::None;
    }
    // ModRM planning
    let mut mem: Option<MemOp> = Option::None;
    let mut rm_reg: Option<usize> = Option::None;
    let mut tail: Vec<u8> = Vec::new();
    let mut disp_off_in_tail = 0usize;
    match form.kind {
        ModRM(ext) => {
            let regfield = match ext {
                Some(d) => d as usize,
                Option::None => reg,
            };
            let want_mem = match form.sp {
                S::MemOnly => true,
                S::RegOnly => false,
                _ => rng.chance(1, 2),
            };
            if !want_mem {
                tail.push(0xc0 | ((regfield & 7) as u8) << 3 | (rmr & 7) as u8);
                rm_reg = Some(rmr);
                if rmr >= 8 {
                    rex |= 1;
                }
            } else {
                let modb = rng.below(3) as u8;
                let use_sib = rng.chance(1, 3) || (rmr & 7) == 4;
                let mut m = MemOp { scale: 1, seg, ..MemOp::default() };
                if !use_sib {
                    let rmlow = (rmr & 7) as u8;
                    if rmlow == 5 && modb == 0 {
                        // rip-relative (64-bit) or absolute disp32 (32-bit)
                        tail.push(((regfield & 7) as u8) << 3 | 5);
                        disp_off_in_tail = tail.len();
                        tail.extend_from_slice(&[0, 0, 0, 0]);
                        m.rip_rel = mode64;
                        m.disp = 0;
                        if !mode64 {
                            // absolute: filled in by the solver (address inside the arena)
                            m.rip_rel = false;
                            m.base = Option::None;
                            m.abs_modrm = true;
                        }
                    } else {
                        tail.push(modb << 6 | ((regfield & 7) as u8) << 3 | rmlow);
                        m.base = Some(rmr);
                        if rmr >= 8 {
                            rex |= 1;
                        }
                    }
                } else {
                    let ss = rng.below(4) as u8;
                    let base = rmr;
                    let mut index = idx;
                    if index & 7 == 4 && index < 8 {
                        // no index
                        index = 4;
                    }
                    tail.push(modb << 6 | ((regfield & 7) as u8) << 3 | 4);
                    tail.push(ss << 6 | ((index & 7) as u8) << 3 | (base & 7) as u8);
                    if index != 4 {
                        m.index = Some(index);
                        m.scale = 1 << ss;
                        if index >= 8 {
                            rex |= 2;
                        }
                    }
                    if (base & 7) == 5 && modb == 0 {
                        // no base, disp32
                        disp_off_in_tail = tail.len();
                        tail.extend_from_slice(&[0, 0, 0, 0]);
                        m.base = Option::None;
                        if base >= 8 {
                            rex |= 1;
                        }
                        m.disp = 0;
                        mem = Some(m.clone());
                    } else {
                        m.base = Some(base);
                        if base >= 8 {
                            rex |= 1;
                        }
                    }
                }
                if !(m.base.is_none() || m.rip_rel) || mem.is_none() {
                    // displacement for mod 1/2
                    if !m.rip_rel && !(m.base.is_none()) {
                        match modb {
                            1 => {
                                let d = rng.corner64(8) as u8;
                                tail.push(d);
                                m.disp = d as i8 as i64;
                            }
                            2 => {
                                let d = (rng.corner64(12) as i64 - 2048) as i32;
                                tail.extend_from_slice(&d.to_le_bytes());
                                m.disp = d as i64;
                            }
                            _ => {}
                        }
                    }
                }
                m.disp_off = disp_off_in_tail;
                mem = Some(m);
            }
            if regfield >= 8 && ext.is_none() {
                rex |= 4;
            }
        }
        OpReg => {
            if reg >= 8 {
                rex |= 1;
            }
        }
        _ => {}
    }
    if rexw {
        rex |= 8;
    }
    // relative branches: a REX prefix (with or without W) changes nothing on the processor - in 64-bit mode their
    // operand size is fixed at 64 bits ("rex64 call" is part of the x86-64 TLS call sequence)
    if mode64 && matches!(form.kind, Rel8 | Rel32) && rng.chance(1, 4) {
        rex |= *rng.pick(&[8u8, 8, 0, 1, 9, 0xf]);
        if rex == 0 {
            rex_empty = true;
        }
    }
    // byte registers spl/bpl/sil/dil need an (empty) REX prefix in 64-bit mode; without REX numbers 4-7 are ah/ch/dh/bh
    let force_rex = mode64 && form.byte_op && rng.chance(1, 3);
    if mode64 && (rex != 0 || force_rex || rex_empty) {
        bytes.push(0x40 | rex);
    }
    let opsize = if form.byte_op { 8 } else if opsize16 { 16 } else if rexw { 64 } else { 32 };
    // opcode
    let mut op = form.op.to_vec();
    if form.kind == OpReg {
        let l = op.len() - 1;
        op[l] |= (reg & 7) as u8;
    }
    bytes.extend_from_slice(&op);
    let tail_start = bytes.len();
    bytes.extend_from_slice(&tail);
    // immediates / relative offsets
    let mut imm: i64 = 0;
    match form.kind {
        Rel8 => {
            let d = *rng.pick(&[0i8, 2, -2, 16, 127, -128, 5]);
            bytes.push(d as u8);
            imm = d as i64;
        }
        Rel32 => {
            let d = *rng.pick(&[0i32, 5, -5, 0x100, -0x100, 0x7fff]);
            bytes.extend_from_slice(&d.to_le_bytes());
            imm = d as i64;
        }
        _ => {}
    }
    match form.imm {
        None => {}
        I8 => {
            let d = if matches!(form.sp, S::ShiftImm) { *rng.pick(&[0u8, 1, 1, 2, 7, 8, 15, 16, 31, 32, 33, 63, 64, 0x81, 0xff]) } else { rng.corner64(8) as u8 };
            bytes.push(d);
            imm = d as i8 as i64;
        }
        I16 => {
            let d = (rng.below(8) * 8) as u16;
            bytes.extend_from_slice(&d.to_le_bytes());
            imm = d as i64;
        }
        Iz => {
            if opsize == 16 {
                let d = rng.corner64(16) as u16;
                bytes.extend_from_slice(&d.to_le_bytes());
                imm = d as i16 as i64;
            } else {
                let d = rng.corner64(32) as u32;
                bytes.extend_from_slice(&d.to_le_bytes());
                imm = d as i32 as i64;
            }
        }
        Iv => {
            if opsize == 16 {
                let d = rng.corner64(16) as u16;
                bytes.extend_from_slice(&d.to_le_bytes());
                imm = d as i64;
            } else if opsize == 64 {
                let d = rng.corner64(64);
                bytes.extend_from_slice(&d.to_le_bytes());
                imm = d as i64;
            } else {
                let d = rng.corner64(32) as u32;
                bytes.extend_from_slice(&d.to_le_bytes());
                imm = d as i64;
            }
        }
    }
    if bytes.len() > 15 {
        return Option::None;
    }
    if let Some(m) = mem.as_mut() {
        m.disp_off += tail_start;
    }
    Some(Enc { bytes, form: *form, opsize, mem, reg, rm_reg, imm, rep, mode64, addr32 })
}

fn flag(rf: u64, bit: u32) -> bool {
    rf >> bit & 1 == 1
}

/// which of CF ZF SF OF are architecturally undefined after this instruction in this state
fn undefined_flags(e: &Enc, st: &X86State) -> (bool, bool, bool, bool, bool) {
    // (cf, zf, sf, of, dest_undefined)
    let n = e.form.name;
    let base = n.split('_').next().unwrap_or(n);
    let count_mask = if e.opsize == 64 { 63 } else { 31 };
    let count = match e.form.sp {
        S::ShiftImm => (e.imm as u64) & count_mask,
        S::ShiftCl => st.gpr[1] & count_mask,
        S::Shift1 => 1,
        _ => 0,
    };
    match base {
        "shl" | "shr" | "sar" => {
            if count == 0 {
                (false, false, false, false, false)
            } else {
                (count as usize > e.opsize || (count as usize == e.opsize && base != "sar") && false || count as usize >= e.opsize && base != "sar", false, false, count != 1, false)
            }
        }
        "rol" | "ror" => {
            if count == 0 {
                (false, false, false, false, false)
            } else {
                (false, false, false, count != 1, false)
            }
        }
        "shld" | "shrd" => {
            if count == 0 {
                (false, false, false, false, false)
            } else if count as usize > e.opsize {
                (true, true, true, true, true)
            } else {
                (false, false, false, count != 1, false)
            }
        }
        "mul" | "imul1" | "imul" => (false, true, true, false, false),
        "div" | "idiv" => (true, true, true, true, false),
        "bt" | "bts" | "btr" | "btc" => (false, false, true, true, false),
        "bsf" | "bsr" => (true, false, true, true, false),
        "bswap" => (false, false, false, false, e.opsize == 16),
        _ => (false, false, false, false, false),
    }
}

fn state_json(e: &Enc, st: &X86State) -> Value {
    json!({
        "mode": if e.mode64 {"amd64"} else {"x86"}, "bytes": hex(&e.bytes), "form": e.form.name, "opsize": e.opsize,
        "gpr": st.gpr.iter().map(|v| format!("0x{:x}", v)).collect::<Vec<_>>(), "rflags": format!("0x{:x}", st.rflags),
        "fs_base": format!("0x{:x}", st.fs_base), "gs_base": format!("0x{:x}", st.gs_base),
        "mem_operand": e.mem.as_ref().map(|m| format!("{:?}", m)),
    })
}

/// 32-bit mode semantics of the stack-width and indirect-transfer instructions (SDM vol. 2), for which the
/// 64-bit host has no equivalent encoding. Returns None for states the model does not cover.
fn model32(e: &Enc, st0: &X86State) -> Option<StepResult> {
    let mut st = st0.clone();
    let m32 = |x: u64| x & 0xffff_ffff;
    let rd = |st: &X86State, a: u64| -> Option<u32> {
        let a = m32(a);
        if a < ARENA_ADDR || a + 4 > ARENA_ADDR + ARENA_SIZE as u64 {
            return Option::None;
        }
        let o = (a - ARENA_ADDR) as usize;
        Some(u32::from_le_bytes(st.arena[o..o + 4].try_into().unwrap()))
    };
    let wr = |st: &mut X86State, a: u64, v: u32| -> Option<()> {
        let a = m32(a);
        if a < ARENA_ADDR || a + 4 > ARENA_ADDR + ARENA_SIZE as u64 {
            return Option::None;
        }
        let o = (a - ARENA_ADDR) as usize;
        st.arena[o..o + 4].copy_from_slice(&v.to_le_bytes());
        Some(())
    };
    // effective address of the memory operand from the registers of `st`
    let ea = |st: &X86State, m: &MemOp| -> u64 {
        let seg = match m.seg {
            0x64 => st.fs_base,
            0x65 => st.gs_base,
            _ => 0,
        };
        let b = m.base.map(|b| st.gpr[b]).unwrap_or(0);
        let i = m.index.map(|i| st.gpr[i].wrapping_mul(m.scale)).unwrap_or(0);
        m32(m32(b.wrapping_add(i).wrapping_add(m.disp as u64)).wrapping_add(seg))
    };
    if e.opsize != 32 || e.rep != 0 {
        return Option::None;
    }
    let next = m32(CODE_ADDR + e.bytes.len() as u64);
    let esp = m32(st.gpr[4]);
    let rm_value = |st: &X86State| -> Option<u32> {
        match (&e.mem, e.rm_reg) {
            (Some(m), _) => rd(st, ea(st, m)),
            (Option::None, Some(r)) => Some(st.gpr[r] as u32),
            _ => Option::None,
        }
    };
    st.rip = next;
    match e.form.name {
        "push_r" => {
            let v = st.gpr[e.reg] as u32;
            st.gpr[4] = m32(esp.wrapping_sub(4));
            wr(&mut st, esp.wrapping_sub(4), v)?;
        }
        "push_iz" | "push_i8" => {
            st.gpr[4] = m32(esp.wrapping_sub(4));
            wr(&mut st, esp.wrapping_sub(4), e.imm as u32)?;
        }
        "push_rm" => {
            let v = rm_value(&st)?;
            st.gpr[4] = m32(esp.wrapping_sub(4));
            wr(&mut st, esp.wrapping_sub(4), v)?;
        }
        "pop_r" => {
            let v = rd(&st, esp)?;
            st.gpr[4] = m32(esp.wrapping_add(4));
            st.gpr[e.reg] = v as u64;
        }
        "pop_rm" => {
            let v = rd(&st, esp)?;
            st.gpr[4] = m32(esp.wrapping_add(4));
            match (&e.mem, e.rm_reg) {
                // the address of a memory destination is computed after esp has been incremented
                (Some(m), _) => {
                    let a = ea(&st, m);
                    wr(&mut st, a, v)?;
                }
                (Option::None, Some(r)) => st.gpr[r] = v as u64,
                _ => return Option::None,
            }
        }
        "call_rel32" => {
            st.gpr[4] = m32(esp.wrapping_sub(4));
            wr(&mut st, esp.wrapping_sub(4), next as u32)?;
            st.rip = m32(next.wrapping_add(e.imm as u64));
        }
        "call_rm" => {
            let t = rm_value(&st)?;
            st.gpr[4] = m32(esp.wrapping_sub(4));
            wr(&mut st, esp.wrapping_sub(4), next as u32)?;
            st.rip = t as u64;
        }
        "jmp_rm" => {
            st.rip = rm_value(&st)? as u64;
        }
        "ret" | "ret_i16" => {
            let t = rd(&st, esp)?;
            let extra = if e.form.name == "ret_i16" { (e.imm as u64) & 0xffff } else { 0 };
            st.gpr[4] = m32(esp.wrapping_add(4).wrapping_add(extra));
            st.rip = t as u64;
        }
        "jrcxz" | "loop" | "loope" | "loopne" if e.addr32 => {
            // address-size prefix in 32-bit mode: the count register is cx
            let zf = st.rflags >> 6 & 1 == 1;
            let taken = if e.form.name == "jrcxz" {
                st.gpr[1] & 0xffff == 0
            } else {
                let cx = (st.gpr[1] as u16).wrapping_sub(1);
                st.gpr[1] = (st.gpr[1] & 0xffff_0000) | cx as u64;
                cx != 0 && match e.form.name {
                    "loope" => zf,
                    "loopne" => !zf,
                    _ => true,
                }
            };
            if taken {
                st.rip = m32(next.wrapping_add(e.imm as u64));
            }
        }
        "leave" => {
            let ebp = m32(st.gpr[5]);
            let v = rd(&st, ebp)?;
            st.gpr[4] = m32(ebp.wrapping_add(4));
            st.gpr[5] = v as u64;
        }
        _ => return Option::None,
    }
    Some(StepResult::Ok(st))
}

impl C01 {
    fn solve(&self, rng: &mut Rng, e: &mut Enc) -> Option<X86State> {
        let mut st = X86State::zeroed();
        for i in 0..16 {
            st.gpr[i] = match rng.below(6) {
                0 => rng.below(256),
                1 => rng.corner64(32),
                _ => rng.corner64(64),
            };
            if !e.mode64 {
                st.gpr[i] &= 0xffff_ffff;
            }
        }
        // rsp always inside the stack half of the arena
        st.gpr[4] = ARENA_ADDR + 0x1400 + 8 * rng.below(0x80);
        for i in 0..16 {
            st.xmm[i] = (rng.u64() as u128) << 64 | rng.corner64(64) as u128;
        }
        st.rflags = 0x202;
        for b in [0u32, 2, 4, 6, 7, 10, 11] {
            if rng.bool() {
                st.rflags |= 1 << b;
            }
        }
        st.arena = rng.bytes(ARENA_SIZE);
        if e.form.sp == S::Leave {
            st.gpr[5] = ARENA_ADDR + 0x1400 + 8 * rng.below(0x80);
        }
        if e.form.sp == S::Str {
            st.gpr[6] = ARENA_ADDR + 0x400 + rng.below(0x400);
            st.gpr[7] = ARENA_ADDR + 0x800 + rng.below(0x400);
            if e.rep != 0 {
                st.gpr[1] = rng.below(9);
            }
        }
        if matches!(e.form.sp, S::Div) && rng.chance(3, 4) {
            // make a fault-free division likely: small high half
            st.gpr[2] = if rng.bool() { 0 } else { rng.below(4) };
            if e.opsize == 8 {
                st.gpr[0] &= 0x0fff;
            }
        }
        if e.mem.as_ref().map(|m| m.seg == 0x64).unwrap_or(false) {
            st.fs_base = 0x100 * rng.below(8);
        }
        if e.mem.as_ref().map(|m| m.seg == 0x65).unwrap_or(false) {
            st.gs_base = 0x100 * rng.below(8);
        }
        if let Some(m) = e.mem.clone() {
            let segbase = match m.seg {
                0x64 => st.fs_base,
                0x65 => st.gs_base,
                _ => 0,
            };
            let align16 = e.form.sp == S::Aligned16 || rng.bool();
            let mut t = ARENA_ADDR + 0x100 + 16 * rng.below(0xd0) + if align16 { 0 } else { rng.below(16) };
            let eff = |t: u64| t.wrapping_sub(segbase);
            if m.rip_rel {
                let d = (eff(t) as i64) - (CODE_ADDR as i64 + e.bytes.len() as i64);
                let d32 = d as i32;
                e.bytes[m.disp_off..m.disp_off + 4].copy_from_slice(&d32.to_le_bytes());
            } else {
                match (m.base, m.index) {
                    (Some(b), Some(i)) if b == i => {
                        let k = 1 + m.scale;
                        let want = eff(t).wrapping_sub(m.disp as u64);
                        let r = want % k;
                        t -= r;
                        st.gpr[b] = eff(t).wrapping_sub(m.disp as u64) / k;
                    }
                    (Some(b), Some(i)) => {
                        if i != 4 {
                            st.gpr[i] = rng.below(33);
                        }
                        st.gpr[b] = eff(t).wrapping_sub(m.disp as u64).wrapping_sub(st.gpr[i].wrapping_mul(m.scale));
                    }
                    (Some(b), Option::None) => {
                        st.gpr[b] = eff(t).wrapping_sub(m.disp as u64);
                    }
                    (Option::None, idx) => {
                        // absolute disp32 (+ index): put the displacement itself into the arena
                        let iv = match idx {
                            Some(i) => {
                                st.gpr[i] = rng.below(17);
                                st.gpr[i].wrapping_mul(m.scale)
                            }
                            Option::None => 0,
                        };
                        let d = eff(t).wrapping_sub(iv) as u32;
                        e.bytes[m.disp_off..m.disp_off + 4].copy_from_slice(&d.to_le_bytes());
                    }
                }
                if !e.mode64 {
                    for i in 0..16 {
                        st.gpr[i] &= 0xffff_ffff;
                    }
                }
            }
            if e.form.sp == S::BitIdxReg {
                // keep the bit index inside the addressed operand
                if Some(e.reg) != m.base && Some(e.reg) != m.index {
                    st.gpr[e.reg] &= (e.opsize as u64) - 1;
                } else {
                    return Option::None;
                }
            }
        }
        if e.addr32 && !e.mode64 {
            st.gpr[1] = (st.gpr[1] & 0xffff) | (rng.corner64(16) << 16);
            if rng.bool() {
                st.gpr[1] &= 0xffff_0003;
            }
        }
        if e.addr32 && e.mode64 {
            // only the low 32 bits of address, string and count registers take part: the rest is noise
            let mut noisy: Vec<usize> = Vec::new();
            if let Some(m) = &e.mem {
                noisy.extend(m.base.iter().chain(m.index.iter()).cloned());
            }
            if e.form.sp == S::Str {
                noisy.extend([6usize, 7]);
                if e.rep != 0 {
                    noisy.push(1);
                }
            }
            if matches!(e.form.name, "loop" | "loope" | "loopne" | "jrcxz") {
                noisy.push(1);
                if rng.bool() {
                    st.gpr[1] = rng.below(3);
                }
            }
            for r in noisy {
                if r != 4 && rng.chance(2, 3) {
                    st.gpr[r] = (st.gpr[r] & 0xffff_ffff) | (rng.corner64(32) << 32);
                }
            }
        }
        // the stack pointer may have been used as base: keep it canonical
        Some(st)
    }

    fn one(&mut self, ctx: &mut Ctx, rng: &mut Rng, form: &Form, mode64: bool) {
        let mut e = match assemble(rng, form, mode64) {
            Some(e) => e,
            Option::None => return,
        };
        let st0 = match self.solve(rng, &mut e) {
            Some(s) => s,
            Option::None => return,
        };
        ctx.trace(|| format!("x86 {}", state_json(&e, &st0)));
        // ---- native execution. In 32-bit mode the same bytes are executed in 64-bit mode with an address-size
        // prefix where a memory operand is present (mode-equivalence map); stack-width instructions have no equivalent.
        let mut native_bytes = e.bytes.clone();
        let mut modelled: Option<StepResult> = Option::None;
        if !mode64 {
            if matches!(e.form.sp, S::Stack | S::Leave) || matches!(e.form.name, "jmp_rm" | "call_rm") || e.addr32 {
                // no 64-bit encoding behaves like these with 4-byte stack slots: judged against the hand model
                match model32(&e, &st0) {
                    Some(m) => {
                        ctx.count("x86.hand_model_cases");
                        modelled = Some(m);
                    }
                    Option::None => {
                        ctx.count("x86.no_native_equivalent(skipped)");
                        return;
                    }
                }
            }
        }
        if modelled.is_some() {
            // nothing to prepare
        } else if !mode64 {
            if e.form.sp == S::Short32 {
                // 40+r / 48+r are REX prefixes in 64-bit mode: use FF /0, FF /1
                let r = (e.bytes[e.bytes.len() - 1] & 7) as u8;
                let dec = e.form.op[0] == 0x48;
                let mut nb: Vec<u8> = e.bytes[..e.bytes.len() - 1].to_vec();
                nb.extend_from_slice(&[0xff, 0xc0 | (dec as u8) << 3 | r]);
                native_bytes = nb;
            } else if e.mem.is_some() || e.form.sp == S::Str || matches!(e.form.name, "loop" | "loope" | "loopne" | "jrcxz") {
                if let Some(m) = e.mem.as_ref().filter(|m| m.base.is_none() && m.index.is_none()) {
                    // mod=00 rm=101 is absolute here but rip-relative in 64-bit mode: the native run uses the
                    // SIB form without base and index, which is absolute in both modes
                    let mo = m.disp_off - 1;
                    if m.abs_modrm && native_bytes[mo] & 0xc7 == 0x05 {
                        native_bytes[mo] = (native_bytes[mo] & 0x38) | 0x04;
                        native_bytes.insert(mo + 1, 0x25);
                        ctx.count("x86.absolute_disp32_via_sib");
                    }
                }
                native_bytes.insert(0, 0x67);
            }
        }
        let native = match self.native.as_mut() {
            Some(n) => n,
            Option::None => {
                ctx.harness_errors.push(format!("ptrace oracle unavailable: {:?}", self.native_err));
                return;
            }
        };
        let res = match modelled {
            Some(m) => Ok(m),
            Option::None => native.step(&native_bytes, &st0),
        };
        let res = match res {
            Ok(r) => r,
            Err(err) => {
                ctx.count("native.refused");
                if ctx.verbose {
                    eprintln!("native refused: {}", err);
                }
                return;
            }
        };
        // ---- lift
        // one case in four lifts the instruction as the second one of its block (after a nop that ends right in
        // front of it), so that block-relative bookkeeping such as the fall-through address is exercised too
        let pre: Vec<u8> = if rng.chance(1, 4) { rng.pick(&[vec![0x90u8], vec![0x66, 0x90], vec![0x0f, 0x1f, 0x00]]).clone() } else { Vec::new() };
        let lift_bytes: Vec<u8> = pre.iter().chain(e.bytes.iter()).cloned().collect();
        let lift_addr = CODE_ADDR - pre.len() as u64;
        let lifted = guard(|| if mode64 { Amd64::new().translate_block(&lift_bytes, lift_addr, &Options::default()) } else { X86::new().translate_block(&lift_bytes, lift_addr, &Options::default()) });
        let mode = if mode64 { "amd64" } else { "x86" };
        let btr = match lifted {
            Err(p) => {
                ctx.panic_violation(&format!("{}:lift:{}", mode, e.form.name), &p, state_json(&e, &st0));
                return;
            }
            Ok(Err(falcon::Error::Sort)) => {
                if let StepResult::Ok(_) = res {
                    ctx.violation(&format!("{}:{}:sort_error_while_lifting:{}", mode, e.form.name, e.opsize), state_json(&e, &st0));
                }
                return;
            }
            Ok(Err(_)) => {
                ctx.count(&format!("{}.falcon_rejected", mode));
                return;
            }
            Ok(Ok(b)) => b,
        };
        if btr.length() != lift_bytes.len() || btr.instructions().last().map(|i| i.0) != Some(CODE_ADDR) {
            ctx.count("decoded_length_differs(skipped)");
            return;
        }
        // ---- IL state
        let mut il = IlState::new(false);
        if mode64 {
            for i in 0..16 {
                il.set(GPR64[i], Bv::from_u64(st0.gpr[i], 64));
            }
        } else {
            for i in 0..8 {
                il.set(GPR32[i], Bv::from_u64(st0.gpr[i] & 0xffff_ffff, 32));
            }
        }
        let w = if mode64 { 64 } else { 32 };
        for (nm, b) in [("CF", 0u32), ("PF", 2), ("AF", 4), ("ZF", 6), ("SF", 7), ("DF", 10), ("OF", 11)] {
            il.set(nm, Bv::bit1(flag(st0.rflags, b)));
        }
        il.set("IF", Bv::bit1(true));
        for i in 0..16 {
            il.set(&format!("xmm{}", i), Bv::from_u128(st0.xmm[i], 128));
        }
        il.set("fs_base", Bv::from_u64(st0.fs_base, w));
        il.set("gs_base", Bv::from_u64(st0.gs_base, w));
        for s in ["ds_base", "es_base", "cs_base", "ss_base"] {
            il.set(s, Bv::from_u64(0, w));
        }
        for (k, b) in st0.arena.iter().enumerate() {
            il.mem.insert(ARENA_ADDR + k as u64, *b);
        }
        let il0 = il.clone();
        let end = run_block(&btr, &mut il);
        ctx.eval();
        // hazard tags single out operand constellations that deserve their own signature
        let mut tags = String::new();
        if e.mem.is_some() {
            tags.push_str(":mem");
        }
        if e.mem.as_ref().map(|m| m.seg != 0).unwrap_or(false) {
            tags.push_str(":seg");
        }
        if e.addr32 {
            tags.push_str(":a32");
        }
        let names_sp = e.rm_reg == Some(4) || (e.form.kind == OpReg && e.reg == 4) || e.mem.as_ref().map(|m| m.base == Some(4) || m.index == Some(4)).unwrap_or(false);
        if matches!(e.form.sp, S::Stack | S::Leave) && names_sp {
            tags.push_str(":sp_operand");
        }
        if matches!(e.form.kind, ModRM(Option::None)) && e.rm_reg == Some(e.reg) && !e.form.name.contains("_x") && e.form.mand == 0 {
            tags.push_str(":same_reg");
        }
        let sig_base = format!("{}:{}:{}{}", mode, e.form.name, e.opsize, tags);
        // one coarse signature per instruction for the constellation "address-size prefix on an instruction with
        // implicit address/count registers" (string instructions, loop, jecxz)
        let implicit_a32 = e.addr32 && (e.form.sp == S::Str || matches!(e.form.name, "loop" | "loope" | "loopne" | "jrcxz"));
        let finalize = |sig: String| -> String { if implicit_a32 { format!("{}:{}:a32_implicit_registers", mode, e.form.name) } else { sig } };
        let st1 = match res {
            StepResult::Ok(s) => s,
            StepResult::Signal(sig) => {
                // the architecture defines no normal outcome; for divide errors the IL must not produce a value either
                ctx.count(&format!("native.signal{}", sig));
                if sig == 8 {
                    // quotient overflow has no architectural register outcome: not judged. A value is only
                    // wrong when the IL divides by zero without noticing, which the IL evaluator rules out itself.
                    match end {
                        LiftEnd::Next(_) => ctx.count("divide_error_natively_value_in_il(not judged)"),
                        _ => ctx.class(&format!("{}/{}/divide_error", mode, e.form.name)),
                    }
                }
                return;
            }
            StepResult::TooManySteps => {
                ctx.count("native.too_many_steps");
                return;
            }
        };
        let il_pc = match end {
            LiftEnd::Next(p) => p,
            other => {
                let kind = match &other {
                    LiftEnd::Intrinsic(m) => format!("intrinsic_{}", m),
                    LiftEnd::Fault(Fault::Unmapped(_)) => "unmapped_access".to_string(),
                    LiftEnd::Fault(fl) => fl.kind().to_string(),
                    o => format!("{:?}", o).to_lowercase(),
                };
                ctx.violation(&finalize(format!("{}:il_{}", sig_base, kind)), json!({"input": state_json(&e, &st0), "il_end": format!("{:?}", other)}));
                return;
            }
        };
        // ---- compare
        let (ucf, uzf, usf, uof, udest) = undefined_flags(&e, &st0);
        let mut diffs: Vec<String> = Vec::new();
        let mut detail: Vec<String> = Vec::new();
        let bsx_zero_src = matches!(e.form.name, "bsf" | "bsr") && flag(st1.rflags, 6);
        let nregs = if mode64 { 16 } else { 8 };
        for i in 0..nregs {
            let (name, want) = if mode64 { (GPR64[i], st1.gpr[i]) } else { (GPR32[i], st1.gpr[i] & 0xffff_ffff) };
            let got = il.get_u64(name);
            if got != Some(want) {
                if (udest || bsx_zero_src) && (e.rm_reg == Some(i) || e.reg == i) {
                    continue;
                }
                diffs.push(if i == 4 { "rsp".into() } else { "gpr".into() });
                detail.push(format!("{}: expected 0x{:x} got {:?}", name, want, got.map(|g| format!("0x{:x}", g))));
            }
        }
        for i in 0..16 {
            if il.get(&format!("xmm{}", i)).and_then(|b| b.to_u128()) != Some(st1.xmm[i]) {
                diffs.push("xmm".into());
                detail.push(format!("xmm{}: expected 0x{:x} got {:?}", i, st1.xmm[i], il.get(&format!("xmm{}", i)).map(|b| b.hex())));
            }
        }
        for (nm, b, undef) in [("CF", 0u32, ucf), ("ZF", 6, uzf), ("SF", 7, usf), ("OF", 11, uof), ("DF", 10, false)] {
            if undef {
                ctx.count("masked_flag_comparisons");
                continue;
            }
            let want = flag(st1.rflags, b);
            if il.get(nm).map(|v| v.is_one()) != Some(want) {
                diffs.push(format!("{}", nm));
                detail.push(format!("{}: expected {} got {:?}", nm, want as u8, il.get(nm).map(|v| v.hex())));
            }
        }
        let mut memdiff = 0;
        for (k, b) in st1.arena.iter().enumerate() {
            if il.mem.get(&(ARENA_ADDR + k as u64)) != Some(b) {
                if memdiff < 6 {
                    detail.push(format!("[0x{:x}] expected {:02x} got {:?}", ARENA_ADDR + k as u64, b, il.mem.get(&(ARENA_ADDR + k as u64))));
                }
                memdiff += 1;
            }
        }
        // an architecturally undefined result written to a memory destination is not judged
        if udest && e.mem.is_some() && il.mem.len() == ARENA_SIZE {
            if memdiff > 0 {
                ctx.count("undefined_memory_result(not judged)");
            }
            memdiff = 0;
        }
        if memdiff > 0 || il.mem.len() != ARENA_SIZE {
            diffs.push("mem".into());
        }
        let want_pc = if mode64 {
            st1.rip
        } else {
            // the native run had an extra 0x67 / different encoding length: compare relative to the end of the instruction
            st1.rip.wrapping_sub(CODE_ADDR + native_bytes.len() as u64).wrapping_add(CODE_ADDR + e.bytes.len() as u64) & 0xffff_ffff
        };
        if il_pc != want_pc {
            diffs.push("rip".into());
            detail.push(format!("next rip: expected 0x{:x} got 0x{:x}", want_pc, il_pc));
        }
        diffs.sort();
        diffs.dedup();
        if !diffs.is_empty() {
            ctx.violation(&finalize(format!("{}:diff={}", sig_base, diffs.join("+"))), json!({"input": state_json(&e, &st0), "differences": detail}));
            return;
        }
        // ---- the same bytes somewhere else: the processor's behaviour does not depend on where a relative branch
        // stands, only its targets and the pushed return address move along. The instruction is lifted a second time
        // 0x7f00_0000_0000 higher (where addresses no longer fit 32 bits) and must do the same thing shifted by that.
        if matches!(e.form.kind, Rel8 | Rel32) && !(e.addr32 && !mode64) {
            // (32-bit mode: 0xe000_0000 higher, beyond the sign bit of a 32-bit address)
            let high: u64 = if mode64 { 0x7f00_0000_0000 } else { 0xe000_0000 };
            #[allow(non_snake_case)]
            let HIGH = high;
            let relifted = guard(|| if mode64 { Amd64::new().translate_block(&lift_bytes, lift_addr + HIGH, &Options::default()) } else { X86::new().translate_block(&lift_bytes, lift_addr + HIGH, &Options::default()) });
            if let Ok(Ok(btr2)) = relifted {
                let mut il2 = il0.clone();
                let end2 = run_block(&btr2, &mut il2);
                ctx.eval();
                let mut d2: Vec<String> = Vec::new();
                match end2 {
                    LiftEnd::Next(p) if p == (if mode64 { il_pc.wrapping_add(HIGH) } else { il_pc.wrapping_add(HIGH) & 0xffff_ffff }) => {}
                    other => d2.push(format!("next rip: expected 0x{:x} got {:?}", il_pc.wrapping_add(HIGH), other)),
                }
                let regs: &[&str] = if mode64 { &GPR64 } else { &GPR32 };
                for r in regs.iter() {
                    if il2.get_u64(r) != il.get_u64(r) {
                        d2.push(format!("{}: 0x{:x?} at the low address, 0x{:x?} at the high one", r, il.get_u64(r), il2.get_u64(r)));
                    }
                }
                // memory: identical, except that a call pushes a return address that moved along
                let rsp = il.get_u64(if mode64 { "rsp" } else { "esp" }).unwrap_or(0);
                let slot = if mode64 { 8u64 } else { 4 };
                let word = |m: &std::collections::BTreeMap<u64, u8>, a: u64| -> Option<u64> { (0..slot).map(|k| m.get(&(a + k)).map(|b| (*b as u64) << (8 * k))).sum::<Option<u64>>() };
                let is_call = e.form.name == "call_rel32";
                for (a, b) in il.mem.iter() {
                    if is_call && *a >= rsp && *a < rsp + slot {
                        continue;
                    }
                    if il2.mem.get(a) != Some(b) {
                        d2.push(format!("[0x{:x}] differs between the two lifts", a));
                        break;
                    }
                }
                if is_call && word(&il2.mem, rsp) != word(&il.mem, rsp).map(|v| if mode64 { v.wrapping_add(HIGH) } else { v.wrapping_add(HIGH) & 0xffff_ffff }) {
                    d2.push(format!("pushed return address: 0x{:x?} at the low address, 0x{:x?} at the high one", word(&il.mem, rsp), word(&il2.mem, rsp)));
                }
                if !d2.is_empty() {
                    ctx.violation(&format!("{}:lifted_{}_higher_behaves_differently", sig_base, if mode64 { "0x7f0000000000" } else { "0xe0000000" }), json!({"input": state_json(&e, &st0), "differences": d2}));
                    return;
                }
                ctx.count(if mode64 { "amd64.relative_branches_relifted_at_a_high_address" } else { "x86.relative_branches_relifted_at_a_high_address" });
            } else {
                ctx.violation(&format!("{}:not_lifted_at_a_high_address", sig_base), state_json(&e, &st0));
                return;
            }
        }
        let changed = st1.gpr != st0.gpr || st1.xmm != st0.xmm || st1.arena != st0.arena || (st1.rflags ^ st0.rflags) & 0xcc1 != 0 || st1.rip != CODE_ADDR + native_bytes.len() as u64;
        if changed {
            ctx.class(&format!("{}/{}/{}/{}", mode, e.form.name, e.opsize, if e.mem.is_some() {"mem"} else {"reg"}));
        }
        ctx.count("compared");
        if ctx.want_sample() && changed {
            ctx.sample(state_json(&e, &st0));
        }
    }
}

impl Check for C01 {
    fn run(&mut self, ctx: &mut Ctx, rng: &mut Rng, _case: u64) {
        thread_local! {
            static FORMS: Vec<Form> = forms();
        }
        FORMS.with(|fs| {
            for _ in 0..32 {
                let form = fs[rng.usize(fs.len())];
                let mode64 = rng.chance(2, 3);
                self.one(ctx, rng, &form, mode64);
            }
        });
    }
}
