//! C03 — AArch64 lifter agrees with the Arm architecture pseudocode.
//!
//! Oracle: `a64ref` (independent decoder/interpreter written from the Arm ARM).
//! Each case lifts one 32-bit word with falcon, runs the IL in the reference IL
//! interpreter and the word in a64ref from the same state, and compares
//! X0-X30, SP, NZCV, V0-V31, memory and the next PC.

use crate::a64ref::{self, A64Cpu, A64Outcome};
use crate::fw::*;
use crate::liftexec::{run_block, run_block_until_branch, IlState, LiftEnd};
use crate::refeval::Bv;
use falcon::translator::aarch64::{AArch64, AArch64Eb};
use falcon::translator::{Options, Translator};
use num_bigint::BigUint;
use serde_json::{json, Value};
use std::collections::BTreeMap;

pub struct C03 {
    sweep: bool,
}
impl C03 {
    pub fn new(t: Tier) -> C03 {
        C03 { sweep: t == Tier::Thorough }
    }
}

/// (mask, value) of the fixed bits of each class template
const TEMPLATES: &[(&str, u32, u32)] = &[
    ("addsub_imm", 0x1f80_0000, 0x1100_0000),
    ("addsub_shift", 0x1f20_0000, 0x0b00_0000),
    ("addsub_ext", 0x1fe0_0000, 0x0b20_0000),
    ("movewide", 0x1f80_0000, 0x1280_0000),
    ("logical_imm", 0x1f80_0000, 0x1200_0000),
    ("logical_shift", 0x1f00_0000, 0x0a00_0000),
    ("ldst_reg", 0x3a00_0000, 0x3800_0000),
    ("ldst_uoff", 0x3b00_0000, 0x3900_0000),
    ("ld_literal", 0x3b00_0000, 0x1800_0000),
    ("ldst_pair", 0x3a00_0000, 0x2800_0000),
    ("ldst_ordered", 0x3f00_0000, 0x0800_0000),
    ("ldapur_stlur", 0x3f20_0c00, 0x1900_0000),
    ("b_bl", 0x7c00_0000, 0x1400_0000),
    ("b_cond", 0xff00_0010, 0x5400_0000),
    ("cbz", 0x7e00_0000, 0x3400_0000),
    ("tbz", 0x7e00_0000, 0x3600_0000),
    ("br_blr_ret", 0xff9f_fc1f, 0xd61f_0000),
    ("hint", 0xffff_f01f, 0xd503_201f),
];

pub fn template_word(rng: &mut Rng) -> u32 {
    gen_word(rng).0
}

fn gen_word(rng: &mut Rng) -> (u32, &'static str) {
    if rng.chance(1, 8) {
        return (rng.u32(), "random");
    }
    let (name, mask, value) = TEMPLATES[rng.usize(TEMPLATES.len())];
    let mut w = (rng.u32() & !mask) | value;
    // bias some fields
    match name {
        "ldst_reg" | "ldst_uoff" | "ldst_pair" | "ldst_ordered" => {
            // keep to general-purpose forms most of the time (V = bit 26 = 0)
            if rng.chance(5, 6) {
                w &= !(1 << 26);
            }
            if name == "ldst_ordered" && rng.chance(3, 4) {
                // non-exclusive: o2=1 (bit 23), Rs = Rt2 = 11111, o0 random
                w |= 1 << 23;
                w |= 0x1f << 16;
                w |= 0x1f << 10;
                w &= !(1 << 21);
            }
        }
        "addsub_shift" | "logical_shift" => {
            if rng.chance(1, 2) {
                // small shift amounts
                w &= !(0x3f << 10);
                w |= (rng.u32() & 7) << 10;
            }
        }
        "addsub_ext" => {
            if rng.chance(3, 4) {
                w &= !(7 << 10);
                w |= (rng.u32() % 5) << 10;
            }
        }
        _ => {}
    }
    // registers 31 / 30 / equal registers more often
    if rng.chance(1, 4) {
        let r = *rng.pick(&[31u32, 31, 30, 0, 29]);
        match rng.below(3) {
            0 => w = (w & !0x1f) | r,
            1 => w = (w & !(0x1f << 5)) | (r << 5),
            _ => w = (w & !(0x1f << 16)) | (r << 16),
        }
    }
    // aliasing operands (mov w0, w0; add x1, x1, x1; ldp x9, x3, [x9])
    if rng.chance(1, 5) {
        match rng.below(3) {
            0 => w = (w & !0x1f) | ((w >> 16) & 0x1f),
            1 => w = (w & !0x1f) | ((w >> 5) & 0x1f),
            _ => w = (w & !(0x1f << 16)) | (((w >> 5) & 0x1f) << 16),
        }
        // register moves are the orr-alias with Rn = 31
        if matches!(name, "logical_shift") && rng.bool() {
            w = (w & !(0x1f << 5)) | (31 << 5);
            w &= !(0x3f << 10);
            w = (w & !(0x3 << 29)) | (1 << 29);
            w &= !(1 << 21);
        }
    }
    (w, name)
}

const CENTER: u64 = 0x0000_0000_0010_0000;

/// where the instruction stands: mostly a low text address; one case in four just below 4 GiB (pc-relative
/// targets cross it) or far above it (addresses that do not fit 32 bits)
fn pick_pc64(rng: &mut Rng) -> u64 {
    let base = if rng.chance(3, 4) { 0x40_0000 } else { *rng.pick(&[0xffff_c000u64, 0x1_0000_0000, 0x7f12_3440_0000, 0x0000_ffff_ffc0_0000]) };
    base + 4 * rng.below(0x1000)
}

fn gen_reg_value(rng: &mut Rng) -> u64 {
    match rng.below(10) {
        0..=3 => CENTER.wrapping_add(rng.below(0x100)).wrapping_sub(0x80) & !((1 << rng.below(4)) - 1),
        4 | 5 => rng.below(64),
        6 => (rng.below(64) as i64).wrapping_neg() as u64,
        _ => rng.corner64(64),
    }
}

fn gen_cpu(rng: &mut Rng, big: bool) -> A64Cpu {
    let mut cpu = A64Cpu::new();
    for i in 0..31 {
        cpu.x[i] = gen_reg_value(rng);
    }
    cpu.sp = CENTER.wrapping_add(rng.below(0x100) & !0xf);
    cpu.n = rng.bool();
    cpu.z = rng.bool();
    cpu.c = rng.bool();
    cpu.v = rng.bool();
    for i in 0..32 {
        cpu.vreg[i] = (rng.u64() as u128) << 64 | rng.u64() as u128;
    }
    cpu.big_endian = big;
    cpu
}

fn il_state_of(cpu: &A64Cpu) -> IlState {
    let mut st = IlState::new(cpu.big_endian);
    for i in 0..31 {
        st.set(&format!("x{}", i), Bv::from_u64(cpu.x[i], 64));
    }
    st.set("sp", Bv::from_u64(cpu.sp, 64));
    st.set("n", Bv::bit1(cpu.n));
    st.set("z", Bv::bit1(cpu.z));
    st.set("c", Bv::bit1(cpu.c));
    st.set("v", Bv::bit1(cpu.v));
    for i in 0..32 {
        st.set(&format!("v{}", i), Bv::from_u128(cpu.vreg[i], 128));
    }
    st.mem = cpu.mem.clone();
    st
}

fn cpu_json(cpu: &A64Cpu, word: u32, pc: u64) -> Value {
    json!({
        "word": format!("0x{:08x}", word), "pc": format!("0x{:x}", pc), "big_endian_data": cpu.big_endian,
        "x": cpu.x.iter().map(|v| format!("0x{:x}", v)).collect::<Vec<_>>(), "sp": format!("0x{:x}", cpu.sp),
        "nzcv": format!("{}{}{}{}", cpu.n as u8, cpu.z as u8, cpu.c as u8, cpu.v as u8),
        "mem": cpu.mem.iter().map(|(a, b)| format!("{:x}:{:02x}", a, b)).collect::<Vec<_>>().join(" "),
    })
}

impl C03 {
    fn one(&self, ctx: &mut Ctx, rng: &mut Rng, word: u32, tname: &str, big: bool, fixed_cpu: Option<A64Cpu>) {
        let pc: u64 = pick_pc64(rng);
        let mut cpu0 = fixed_cpu.unwrap_or_else(|| gen_cpu(rng, big));
        let class = match a64ref::class_of(word) {
            Some(c) => c,
            None => {
                ctx.count("ref_unmodelled_or_undefined");
                // blind-spot accounting: words the lifter accepts but the reference does not model
                if ctx.thorough() || rng.chance(1, 8) {
                    let bytes = word.to_le_bytes();
                    if let Ok(Ok(_)) = guard(|| AArch64::new().translate_block(&bytes, pc, &Options::default())) {
                        let op = bad64::decode(word, pc).map(|i| format!("{:?}", i.op())).unwrap_or_else(|_| "?".into());
                        ctx.count(&format!("falcon_accepts_unmodelled:{}", op));
                    }
                }
                return;
            }
        };
        // discover which bytes the instruction touches: run the reference on empty memory
        {
            let mut probe = cpu0.clone();
            if let A64Outcome::MemFault(a) = a64ref::step(&mut probe, pc, word) {
                for k in 0..80u64 {
                    cpu0.mem.insert(a.wrapping_sub(16).wrapping_add(k), rng.u64() as u8);
                }
            }
        }
        ctx.trace(|| format!("a64 {}", cpu_json(&cpu0, word, pc)));
        let bytes = word.to_le_bytes();
        let lifted = guard(|| if big { AArch64Eb::new().translate_block(&bytes, pc, &Options::default()) } else { AArch64::new().translate_block(&bytes, pc, &Options::default()) });
        let btr = match lifted {
            Err(p) => {
                ctx.panic_violation(&format!("lift:{}", class), &p, json!({"word": format!("0x{:08x}", word)}));
                return;
            }
            Ok(Err(_)) => {
                ctx.count("falcon_rejected");
                return;
            }
            Ok(Ok(b)) => b,
        };
        let mut cpu = cpu0.clone();
        let out = a64ref::step(&mut cpu, pc, word);
        let ref_pc = match out {
            A64Outcome::Next { pc } => pc,
            A64Outcome::MemFault(_) => {
                ctx.count("ref_memfault(skipped)");
                return;
            }
            A64Outcome::Unpredictable(_) => {
                ctx.count("ref_unpredictable(skipped)");
                return;
            }
            A64Outcome::Undefined | A64Outcome::Unmodelled => {
                ctx.count("ref_undefined_but_falcon_accepts(not judged)");
                return;
            }
        };
        let mut st = il_state_of(&cpu0);
        let end = run_block(&btr, &mut st);
        ctx.eval();
        let e_tag = if big { "be" } else { "le" };
        let il_pc = match end {
            LiftEnd::Next(p) => p,
            other => {
                let kind = match &other {
                    LiftEnd::Intrinsic(_) => "intrinsic",
                    LiftEnd::Fault(f) => f.kind(),
                    LiftEnd::StepCap => "step_cap",
                    LiftEnd::NoSuccessor => "no_successor",
                    LiftEnd::AmbiguousSuccessor => "ambiguous_successor",
                    LiftEnd::Next(_) => unreachable!(),
                };
                ctx.violation(&format!("{}:il_{}", class, kind), json!({"input": cpu_json(&cpu0, word, pc), "il_end": format!("{:?}", other), "template": tname}));
                return;
            }
        };
        // compare
        let mut diffs: Vec<String> = Vec::new();
        let mut detail: Vec<String> = Vec::new();
        for i in 0..31 {
            let got = st.get_u64(&format!("x{}", i));
            if got != Some(cpu.x[i]) {
                diffs.push(if i == 30 { "x30".into() } else { "x".into() });
                detail.push(format!("x{}: expected 0x{:x} got {:?}", i, cpu.x[i], got.map(|g| format!("0x{:x}", g))));
            }
        }
        if st.get_u64("sp") != Some(cpu.sp) {
            diffs.push("sp".into());
            detail.push(format!("sp: expected 0x{:x} got {:?}", cpu.sp, st.get_u64("sp").map(|g| format!("0x{:x}", g))));
        }
        for (nm, val) in [("n", cpu.n), ("z", cpu.z), ("c", cpu.c), ("v", cpu.v)] {
            if st.get(nm).map(|b| b.is_one()) != Some(val) {
                diffs.push(format!("flag_{}", nm));
                detail.push(format!("{}: expected {} got {:?}", nm, val as u8, st.get(nm).map(|b| b.hex())));
            }
        }
        for i in 0..32 {
            if st.get(&format!("v{}", i)).and_then(|b| b.to_u128()) != Some(cpu.vreg[i]) {
                diffs.push("vreg".into());
                detail.push(format!("v{}: expected 0x{:x} got {:?}", i, cpu.vreg[i], st.get(&format!("v{}", i)).map(|b| b.hex())));
            }
        }
        if st.mem != cpu.mem {
            diffs.push("mem".into());
            let d: Vec<String> = cpu.mem.iter().filter(|(a, b)| st.mem.get(*a) != Some(*b)).take(6).map(|(a, b)| format!("[{:x}] expected {:02x} got {:?}", a, b, st.mem.get(a))).collect();
            let extra = st.mem.keys().filter(|a| !cpu.mem.contains_key(*a)).count();
            detail.push(format!("memory: {:?} (+{} bytes written outside the mapped window)", d, extra));
        }
        if il_pc != ref_pc {
            diffs.push("pc".into());
            detail.push(format!("next pc: expected 0x{:x} got 0x{:x}", ref_pc, il_pc));
        }
        diffs.sort();
        diffs.dedup();
        if !diffs.is_empty() {
            ctx.violation(
                &format!("{}:{}:diff={}", class, e_tag, diffs.join("+")),
                json!({"input": cpu_json(&cpu0, word, pc), "differences": detail, "template": tname}),
            );
            return;
        }
        // non-trivial: something observable changed
        let changed = cpu.x != cpu0.x || cpu.sp != cpu0.sp || cpu.mem != cpu0.mem || (cpu.n, cpu.z, cpu.c, cpu.v) != (cpu0.n, cpu0.z, cpu0.c, cpu0.v) || cpu.vreg != cpu0.vreg || ref_pc != pc + 4;
        if changed {
            ctx.class(&format!("{}/{}", class, e_tag));
        }
        ctx.count("compared");
        if ctx.want_sample() && changed {
            ctx.sample(json!({"class": class, "input": cpu_json(&cpu0, word, pc), "next_pc": format!("0x{:x}", ref_pc)}));
        }
    }
}

// ------------------------------------------------------------------ multi-instruction blocks

fn a64_is_branch(w: u32) -> bool {
    (w & 0x7c00_0000) == 0x1400_0000 || (w & 0xff00_0010) == 0x5400_0000 || (w & 0x7e00_0000) == 0x3400_0000 || (w & 0x7e00_0000) == 0x3600_0000 || (w & 0xfe00_0000) == 0xd600_0000
}

fn a64_compare(st: &IlState, cpu: &A64Cpu, il_pc: u64, ref_pc: u64) -> (Vec<String>, Vec<String>) {
    let mut diffs: Vec<String> = Vec::new();
    let mut detail: Vec<String> = Vec::new();
    for i in 0..31 {
        let got = st.get_u64(&format!("x{}", i));
        if got != Some(cpu.x[i]) {
            diffs.push(if i == 30 { "x30".into() } else { "x".into() });
            detail.push(format!("x{}: expected 0x{:x} got {:?}", i, cpu.x[i], got.map(|g| format!("0x{:x}", g))));
        }
    }
    if st.get_u64("sp") != Some(cpu.sp) {
        diffs.push("sp".into());
        detail.push(format!("sp: expected 0x{:x} got {:?}", cpu.sp, st.get_u64("sp").map(|g| format!("0x{:x}", g))));
    }
    for (nm, val) in [("n", cpu.n), ("z", cpu.z), ("c", cpu.c), ("v", cpu.v)] {
        if st.get(nm).map(|b| b.is_one()) != Some(val) {
            diffs.push(format!("flag_{}", nm));
            detail.push(format!("{}: expected {} got {:?}", nm, val as u8, st.get(nm).map(|b| b.hex())));
        }
    }
    for i in 0..32 {
        if st.get(&format!("v{}", i)).and_then(|b| b.to_u128()) != Some(cpu.vreg[i]) {
            diffs.push("vreg".into());
            detail.push(format!("v{}: expected 0x{:x} got {:?}", i, cpu.vreg[i], st.get(&format!("v{}", i)).map(|b| b.hex())));
        }
    }
    if st.mem != cpu.mem {
        diffs.push("mem".into());
        let d: Vec<String> = cpu.mem.iter().filter(|(a, b)| st.mem.get(*a) != Some(*b)).take(6).map(|(a, b)| format!("[{:x}] expected {:02x} got {:?}", a, b, st.mem.get(a))).collect();
        detail.push(format!("memory: {:?}", d));
    }
    if il_pc != ref_pc {
        diffs.push("pc".into());
        detail.push(format!("next pc: expected 0x{:x} got 0x{:x}", ref_pc, il_pc));
    }
    diffs.sort();
    diffs.dedup();
    (diffs, detail)
}

impl C03 {
    /// Straight-line code, a branch and a little more lifted as ONE block; the words the block covers are executed by
    /// a64ref one at a time (stopping behind the first branch instruction, as the executor stops at a `Branch`
    /// operation or leaves the block through a successor) and the whole state is compared. Observes what single-
    /// instruction cases cannot: state carried from one instruction of a block to the next, block-relative addresses.
    fn block(&self, ctx: &mut Ctx, rng: &mut Rng, big: bool) {
        let pc: u64 = pick_pc64(rng);
        let mut cpu0 = gen_cpu(rng, big);
        let lift = |bytes: &[u8], at: u64| guard(|| if big { AArch64Eb::new().translate_block(bytes, at, &Options::default()) } else { AArch64::new().translate_block(bytes, at, &Options::default()) });
        let accepts = |w: u32, at: u64| matches!(lift(&w.to_le_bytes(), at), Ok(Ok(ref b)) if !b.instructions().is_empty());
        let k = rng.below(7) as usize;
        let mut words: Vec<u32> = Vec::new();
        let mut run = cpu0.clone();
        let mut tries = 0;
        while words.len() < k && tries < 200 {
            tries += 1;
            let (w, _) = gen_word(rng);
            let a = pc + 4 * words.len() as u64;
            if a64_is_branch(w) || a64ref::class_of(w).is_none() || !accepts(w, a) {
                continue;
            }
            for _ in 0..3 {
                let mut t = run.clone();
                match a64ref::step(&mut t, a, w) {
                    A64Outcome::Next { pc: n } if n == a + 4 => {
                        run = t;
                        words.push(w);
                        break;
                    }
                    A64Outcome::MemFault(f) if f >= 0x100 && f < u64::MAX - 0x1000 => {
                        for j in 0..80u64 {
                            let addr = f.wrapping_sub(16).wrapping_add(j);
                            if !cpu0.mem.contains_key(&addr) {
                                let v = rng.u64() as u8;
                                cpu0.mem.insert(addr, v);
                                run.mem.insert(addr, v);
                            }
                        }
                    }
                    _ => break,
                }
            }
        }
        let k = words.len();
        let mut br = None;
        for _ in 0..60 {
            let (w, _) = gen_word(rng);
            let a = pc + 4 * k as u64;
            if a64_is_branch(w) && a64ref::class_of(w).is_some() && accepts(w, a) {
                let mut t = run.clone();
                if let A64Outcome::Next { .. } = a64ref::step(&mut t, a, w) {
                    br = Some(w);
                    break;
                }
            }
        }
        let br = match br {
            Some(b) => b,
            None => return,
        };
        let brclass = a64ref::class_of(br).unwrap_or("?");
        words.push(br);
        for _ in 0..rng.below(3) {
            let (w, _) = gen_word(rng);
            if !a64_is_branch(w) && a64ref::class_of(w).is_some() && accepts(w, pc + 4 * words.len() as u64) {
                words.push(w);
            }
        }
        let input = |cpu: &A64Cpu| {
            let mut j = cpu_json(cpu, words[0], pc);
            j["words"] = json!(words.iter().map(|w| format!("0x{:08x} {}", w, a64ref::class_of(*w).unwrap_or("?"))).collect::<Vec<_>>());
            j
        };
        let mut bytes = Vec::new();
        for w in &words {
            bytes.extend_from_slice(&w.to_le_bytes());
        }
        ctx.trace(|| format!("a64 block {}", input(&cpu0)));
        let btr = match lift(&bytes, pc) {
            Err(p) => {
                ctx.panic_violation(&format!("lift_block:{}", brclass), &p, input(&cpu0));
                return;
            }
            Ok(Err(_)) => {
                ctx.count("block.falcon_rejected");
                return;
            }
            Ok(Ok(b)) => b,
        };
        ctx.eval();
        let e_tag = if big { "be" } else { "le" };
        let mut addrs: Vec<u64> = btr.instructions().iter().map(|(a, _)| *a).collect();
        addrs.sort();
        addrs.dedup();
        let n_cov = addrs.len();
        if addrs.iter().enumerate().any(|(i, a)| *a != pc + 4 * i as u64) || n_cov > words.len() {
            ctx.violation(&format!("block:{}:{}:instructions_not_a_prefix_of_the_bytes", brclass, e_tag), json!({"input": input(&cpu0), "addresses": addrs.iter().map(|a| format!("0x{:x}", a)).collect::<Vec<_>>()}));
            return;
        }
        // reference: one instruction at a time over the covered words, stopping behind the first branch instruction
        let mut cpu = cpu0.clone();
        let mut ref_pc = pc;
        for (i, w) in words[..n_cov].iter().enumerate() {
            let a = pc + 4 * i as u64;
            match a64ref::step(&mut cpu, a, *w) {
                A64Outcome::Next { pc: n } => {
                    ref_pc = n;
                    if a64_is_branch(*w) {
                        break;
                    }
                }
                A64Outcome::MemFault(_) if i > k => {
                    // an instruction behind the branch touches memory nobody mapped: not part of the judged prefix
                    ctx.count("block.ref_not_defined(skipped)");
                    return;
                }
                _ => {
                    ctx.count("block.ref_not_defined(skipped)");
                    return;
                }
            }
        }
        let mut st = il_state_of(&cpu0);
        let il_pc = match run_block_until_branch(&btr, &mut st) {
            LiftEnd::Next(p) => p,
            other => {
                let kind = match &other {
                    LiftEnd::Intrinsic(_) => "intrinsic".to_string(),
                    LiftEnd::Fault(f) => f.kind().to_string(),
                    o => format!("{:?}", o).to_lowercase(),
                };
                ctx.violation(&format!("block:{}:{}:il_{}", brclass, e_tag, kind), json!({"input": input(&cpu0), "covered_words": n_cov, "il_end": format!("{:?}", other)}));
                return;
            }
        };
        let (diffs, detail) = a64_compare(&st, &cpu, il_pc, ref_pc);
        if !diffs.is_empty() {
            // an instruction that is wrong on its own is reported by the single-instruction cases
            for w in &words[..n_cov] {
                let before = ctx.n_violations();
                let mut r2 = rng.clone();
                self.one(ctx, &mut r2, *w, "block_probe", big, None);
                if ctx.n_violations() != before {
                    ctx.count("block_case_attributed_to_one_instruction");
                    return;
                }
            }
            ctx.violation(&format!("block:{}:{}:diff={}", brclass, e_tag, diffs.join("+")), json!({"input": input(&cpu0), "covered_words": n_cov, "differences": detail}));
            return;
        }
        ctx.class(&format!("block/{}/{}/cov{}", brclass, e_tag, if n_cov > k { "branch" } else { "prefix" }));
        ctx.count("block.compared");
    }
}

impl Check for C03 {
    fn directed(&self) -> u64 {
        2 + if self.sweep { 64 } else { 0 }
    }
    fn run(&mut self, ctx: &mut Ctx, rng: &mut Rng, case: u64) {
        match case {
            0 => {
                // flag boundary pairs for adds/subs (32 and 64 bit), cmp, and b.cond after them
                let words: [u32; 8] = [
                    0xeb01001f, // cmp x0, x1  (subs xzr, x0, x1)
                    0x6b01001f, // cmp w0, w1
                    0xeb010002, // subs x2, x0, x1
                    0xab010002, // adds x2, x0, x1
                    0x2b010002, // adds w2, w0, w1
                    0xf1000402, // subs x2, x0, #1
                    0x7100001f, // cmp w0, #0
                    0xb1000402, // adds x2, x0, #1
                ];
                let vals: [u64; 8] = [0, 1, u64::MAX, 1 << 63, (1 << 63) - 1, 0xffff_ffff, 0x8000_0000, 0x7fff_ffff];
                for w in words {
                    for a in vals {
                        for b in vals {
                            let mut cpu = A64Cpu::new();
                            cpu.x[0] = a;
                            cpu.x[1] = b;
                            cpu.sp = CENTER;
                            self.one(ctx, rng, w, "directed", false, Some(cpu));
                        }
                    }
                }
            }
            1 => {
                // blr x30 / br x30 / ret / ldr literal / register 31 forms
                for w in [0xd63f03c0u32, 0xd61f03c0, 0xd65f03c0, 0x58000040, 0x18000040, 0x910003ff, 0x9100001f, 0xaa1f03e0, 0xf81f0fe0, 0xf84107e0] {
                    for _ in 0..8 {
                        self.one(ctx, rng, w, "directed", false, None);
                        self.one(ctx, rng, w, "directed", true, None);
                    }
                }
            }
            c if c < self.directed() => {
                // thorough: exhaustive 12-bit immediate and 6-bit shift sweeps
                let k = c - 2;
                let base_imm: [u32; 4] = [0x91000020, 0xb1000020, 0xd1000020, 0xf1000020]; // add/adds/sub/subs x0, x1, #imm
                for sh in 0..2u32 {
                    for (bi, b) in base_imm.iter().enumerate() {
                        if (k as usize) % 4 != bi {
                            continue;
                        }
                        for imm in (0..4096u32).filter(|i| (*i as u64) % 16 == k / 4) {
                            self.one(ctx, rng, b | sh << 22 | imm << 10, "sweep_imm12", false, None);
                        }
                    }
                }
                for imm6 in 0..64u32 {
                    for shift in 0..3u32 {
                        for opc in [0x8b000020u32, 0xab000020, 0xcb000020, 0xeb000020, 0x0b000020, 0x6b000020] {
                            if (imm6 as u64 + shift as u64) % 16 == k % 16 {
                                self.one(ctx, rng, opc | shift << 22 | 2 << 16 | imm6 << 10, "sweep_shift", false, None);
                            }
                        }
                    }
                }
            }
            _ => {
                let big = rng.chance(1, 3);
                for _ in 0..16 {
                    let (w, t) = gen_word(rng);
                    self.one(ctx, rng, w, t, big, None);
                }
                for _ in 0..3 {
                    self.block(ctx, rng, big);
                }
            }
        }
    }
}

#[allow(dead_code)]
fn unused(_: BigUint, _: BTreeMap<u8, u8>) {}
