//! C02 — MIPS and PowerPC lifters agree with the architecture manuals.
//!
//! Oracles: `mipsref` and `ppcref` (independent interpreters that decode the raw
//! 32-bit word). The lifted IL is run by the reference IL interpreter from the
//! same state; registers (incl. HI/LO, LR/CTR, CR fields, carry), memory and the
//! next PC are compared. MIPS branches are lifted and executed together with
//! their delay slot.

use crate::fw::*;
use crate::liftexec::{run_block, run_block_until_branch, IlState, LiftEnd};
use crate::mipsref::{self, MipsCpu, MipsOutcome};
use crate::ppcref::{self, PpcCpu, PpcOutcome};
use crate::refeval::Bv;
use falcon::translator::mips::{Mips, Mipsel};
use falcon::translator::ppc::Ppc;
use falcon::translator::{Options, Translator};
use serde_json::{json, Value};

pub struct C02 {}
impl C02 {
    pub fn new(_t: Tier) -> C02 {
        C02 {}
    }
}

pub const MIPS_REGS: [&str; 32] = [
    "$zero", "$at", "$v0", "$v1", "$a0", "$a1", "$a2", "$a3", "$t0", "$t1", "$t2", "$t3", "$t4", "$t5", "$t6", "$t7", "$s0", "$s1", "$s2", "$s3", "$s4", "$s5", "$s6",
    "$s7", "$t8", "$t9", "$k0", "$k1", "$gp", "$sp", "$fp", "$ra",
];

const CENTER: u32 = 0x0010_0000;

fn reg_value(rng: &mut Rng) -> u32 {
    match rng.below(10) {
        0..=3 => (CENTER.wrapping_add(rng.below(0x100) as u32).wrapping_sub(0x80)) & !((1u32 << rng.below(3)) - 1),
        4 | 5 => rng.below(40) as u32,
        6 => (rng.below(40) as i32).wrapping_neg() as u32,
        _ => rng.corner64(32) as u32,
    }
}

/// where the instruction stands: mostly a low text address; one case in four in another 256 MiB region (what MIPS
/// j/jal splice into their target), across the sign boundary of 32-bit addresses, or high up
fn pick_pc32(rng: &mut Rng) -> u32 {
    let base = if rng.chance(3, 4) { 0x0040_0000 } else { *rng.pick(&[0x1000_0000u32, 0x7fff_c000, 0x8000_0000, 0x9040_0000, 0xefff_c000, 0xf000_0000]) };
    base + 4 * rng.below(0x1000) as u32
}

// ------------------------------------------------------------------ MIPS

fn mips_fields(rng: &mut Rng) -> (u32, u32, u32, u32) {
    let r = |rng: &mut Rng| -> u32 {
        match rng.below(8) {
            0 => 0,
            1 => 31,
            _ => rng.below(32) as u32,
        }
    };
    (r(rng), r(rng), r(rng), rng.below(32) as u32)
}

/// a non-branch MIPS instruction word
pub fn mips_template_word(rng: &mut Rng) -> u32 {
    if rng.chance(1, 4) { mips_branch(rng) } else { mips_plain(rng) }
}

pub fn ppc_template_word(rng: &mut Rng) -> u32 {
    ppc_word(rng)
}

fn mips_plain(rng: &mut Rng) -> u32 {
    let (rs, rt, rd, sh) = mips_fields(rng);
    let imm = match rng.below(4) {
        0 => (rng.below(16) * 4) as u32 & 0xffff,
        1 => (0x10000 - rng.below(16) * 4) as u32 & 0xffff,
        _ => rng.corner64(16) as u32,
    };
    match rng.below(10) {
        0..=3 => {
            // SPECIAL
            let f = *rng.pick(&[0x20u32, 0x21, 0x22, 0x23, 0x24, 0x25, 0x26, 0x27, 0x2a, 0x2b, 0, 2, 3, 4, 6, 7, 0xa, 0xb, 0xc, 0xd, 0xf, 0x10, 0x11, 0x12, 0x13, 0x18, 0x19, 0x1a, 0x1b, 0x34]);
            match f {
                0 | 2 | 3 => rt << 16 | rd << 11 | sh << 6 | f,
                0x10 | 0x12 => rd << 11 | f,
                0x11 | 0x13 => rs << 21 | f,
                0x18..=0x1b => rs << 21 | rt << 16 | f,
                0xc | 0xd | 0xf => f,
                0x34 => rs << 21 | rt << 16 | f,
                _ => rs << 21 | rt << 16 | rd << 11 | f,
            }
        }
        4 => {
            // SPECIAL2
            let f = *rng.pick(&[0u32, 1, 2, 4, 5, 0x20, 0x21]);
            match f {
                0 | 1 | 4 | 5 => 0x1c << 26 | rs << 21 | rt << 16 | f,
                2 => 0x1c << 26 | rs << 21 | rt << 16 | rd << 11 | f,
                _ => 0x1c << 26 | rs << 21 | rd << 16 | rd << 11 | f,
            }
        }
        5 | 6 => {
            let op = *rng.pick(&[8u32, 9, 0xa, 0xb, 0xc, 0xd, 0xe, 0xf]);
            if op == 0xf {
                op << 26 | rt << 16 | imm
            } else {
                op << 26 | rs << 21 | rt << 16 | imm
            }
        }
        _ => {
            let op = *rng.pick(&[0x20u32, 0x21, 0x22, 0x23, 0x24, 0x25, 0x26, 0x28, 0x29, 0x2a, 0x2b, 0x2e, 0x30, 0x38, 0x33]);
            op << 26 | rs << 21 | rt << 16 | imm
        }
    }
}

fn mips_branch(rng: &mut Rng) -> u32 {
    let (rs, rt, rd, _) = mips_fields(rng);
    let off = match rng.below(4) {
        0 => 1u32, // target = fall-through
        1 => 0xffff,
        2 => 0,
        _ => rng.below(0x10000) as u32,
    };
    match rng.below(12) {
        0 => 4 << 26 | rs << 21 | rt << 16 | off,
        1 => 5 << 26 | rs << 21 | rt << 16 | off,
        2 => 6 << 26 | rs << 21 | off,
        3 => 7 << 26 | rs << 21 | off,
        4 => 1 << 26 | rs << 21 | 0 << 16 | off,
        5 => 1 << 26 | rs << 21 | 1 << 16 | off,
        6 => 1 << 26 | rs << 21 | 0x10 << 16 | off,
        7 => 1 << 26 | rs << 21 | 0x11 << 16 | off,
        8 => 2 << 26 | rng.below(1 << 26) as u32,
        9 => 3 << 26 | rng.below(1 << 26) as u32,
        10 => rs << 21 | 8,
        _ => rs << 21 | rd << 11 | 9,
    }
}

fn mips_json(cpu: &MipsCpu, pc: u32, words: &[u32]) -> Value {
    json!({
        "arch": if cpu.big_endian {"mips"} else {"mipsel"}, "pc": format!("0x{:x}", pc),
        "words": words.iter().map(|w| format!("0x{:08x} {}", w, mipsref::mnemonic(*w).unwrap_or("?"))).collect::<Vec<_>>(),
        "gpr": cpu.gpr.iter().map(|v| format!("0x{:x}", v)).collect::<Vec<_>>(), "hi": format!("0x{:x}", cpu.hi), "lo": format!("0x{:x}", cpu.lo),
        "mem": cpu.mem.iter().map(|(a, b)| format!("{:x}:{:02x}", a, b)).collect::<Vec<_>>().join(" "),
    })
}

impl C02 {
    fn mips_case(&self, ctx: &mut Ctx, rng: &mut Rng, big: bool, word: u32, slot: Option<u32>, fixed: Option<MipsCpu>, tag: &str) {
        let mn = match mipsref::mnemonic(word) {
            Some(m) => m,
            None => {
                ctx.count("mips.ref_unmodelled");
                // blind-spot accounting: words the lifter accepts but the reference does not model
                if rng.chance(1, 8) {
                    let mut bytes = if big { word.to_be_bytes().to_vec() } else { word.to_le_bytes().to_vec() };
                    bytes.extend_from_slice(&[0, 0, 0, 0]);
                    let tr = crate::c05::translator(if big { "mips" } else { "mipsel" });
                    if let Ok(Ok(b)) = guard(|| tr.translate_block(&bytes, 0x40_0000, &Options::default())) {
                        if !b.instructions().is_empty() {
                            ctx.count(&format!("mips.falcon_accepts_unmodelled:op{:02x}_fn{:02x}", word >> 26, if word >> 26 == 0 || word >> 26 == 0x1c { word & 0x3f } else { 0 }));
                        }
                    }
                }
                return;
            }
        };
        let is_branch = mipsref::has_delay_slot(word);
        let slot = if is_branch { slot } else { None };
        if is_branch && slot.is_none() {
            return;
        }
        let pc: u32 = pick_pc32(rng);
        let mut cpu0 = fixed.unwrap_or_else(|| {
            let mut c = MipsCpu::new(big);
            for i in 1..32 {
                c.gpr[i] = reg_value(rng);
            }
            c.hi = rng.corner64(32) as u32;
            c.lo = rng.corner64(32) as u32;
            c
        });
        cpu0.gpr[0] = 0;
        cpu0.big_endian = big;
        // discover touched memory with probe runs (branch + slot may touch one region each)
        for _ in 0..2 {
            let mut probe = cpu0.clone();
            if let MipsOutcome::MemFault(a) = mipsref::step(&mut probe, pc, word, slot) {
                for k in 0..48u32 {
                    cpu0.mem.entry(a.wrapping_sub(16).wrapping_add(k)).or_insert(rng.u64() as u8);
                }
            }
        }
        if cpu0.mem.keys().any(|a| *a >= 0xffff_ff00) {
            ctx.count("mips.access_wraps_address_space(skipped)");
            return;
        }
        let words: Vec<u32> = std::iter::once(word).chain(slot).collect();
        ctx.trace(|| format!("mips {}", mips_json(&cpu0, pc, &words)));
        let mut bytes = Vec::new();
        for w in &words {
            bytes.extend_from_slice(&if big { w.to_be_bytes() } else { w.to_le_bytes() });
        }
        let lifted = guard(|| if big { Mips::new().translate_block(&bytes, pc as u64, &Options::default()) } else { Mipsel::new().translate_block(&bytes, pc as u64, &Options::default()) });
        let arch = if big { "mips" } else { "mipsel" };
        let btr = match lifted {
            Err(p) => {
                ctx.panic_violation(&format!("{}:lift:{}", arch, mn), &p, mips_json(&cpu0, pc, &words));
                return;
            }
            Ok(Err(_)) => {
                ctx.count("mips.falcon_rejected");
                return;
            }
            Ok(Ok(b)) => b,
        };
        let mut cpu = cpu0.clone();
        let out = mipsref::step(&mut cpu, pc, word, slot);
        let mut st = IlState::new(big);
        for i in 0..32 {
            st.set(MIPS_REGS[i], Bv::from_u64(cpu0.gpr[i] as u64, 32));
        }
        st.set("$hi", Bv::from_u64(cpu0.hi as u64, 32));
        st.set("$lo", Bv::from_u64(cpu0.lo as u64, 32));
        st.mem = cpu0.mem.iter().map(|(a, b)| (*a as u64, *b)).collect();
        let end = run_block(&btr, &mut st);
        ctx.eval();
        let hazard = if let Some(s) = slot {
            // does the slot write a register the branch reads or links?
            let smn = mipsref::mnemonic(s).unwrap_or("?");
            let _ = smn;
            let brs = (word >> 21) & 31;
            let mut tags = Vec::new();
            let srt = (s >> 16) & 31;
            let srd = (s >> 11) & 31;
            if (mn == "jr" || mn == "jalr") && (srt == brs || srd == brs) && brs != 0 {
                tags.push("slot_may_write_jump_register");
            }
            if ["jal", "jalr", "bltzal", "bgezal"].contains(&mn) {
                tags.push("link");
            }
            if tags.is_empty() { "slot".to_string() } else { tags.join("+") }
        } else {
            "noslot".to_string()
        };
        let ref_pc = match out {
            MipsOutcome::Next { pc } => pc,
            MipsOutcome::Trap(kind) => {
                // the IL must reach an intrinsic (or otherwise refuse to produce a value)
                match end {
                    LiftEnd::Intrinsic(_) => {
                        ctx.class(&format!("{}/{}/trap", arch, mn));
                    }
                    other => ctx.violation(
                        &format!("{}:{}:trap_{}_not_signalled:{}", arch, mn, kind, hazard),
                        json!({"input": mips_json(&cpu0, pc, &words), "reference": format!("Trap({})", kind), "il_end": format!("{:?}", other)}),
                    ),
                }
                return;
            }
            MipsOutcome::MemFault(_) | MipsOutcome::Unaligned(_) | MipsOutcome::Unpredictable(_) | MipsOutcome::Unmodelled => {
                ctx.count(&format!("mips.ref_{}", match out { MipsOutcome::MemFault(_) => "memfault", MipsOutcome::Unaligned(_) => "unaligned", MipsOutcome::Unpredictable(_) => "unpredictable", _ => "unmodelled" }));
                return;
            }
        };
        let il_pc = match end {
            LiftEnd::Next(p) => p,
            other => {
                let kind = match &other {
                    LiftEnd::Intrinsic(_) => "intrinsic".to_string(),
                    LiftEnd::Fault(f) => f.kind().to_string(),
                    o => format!("{:?}", o).to_lowercase(),
                };
                ctx.violation(&format!("{}:{}:il_{}:{}", arch, mn, kind, hazard), json!({"input": mips_json(&cpu0, pc, &words), "il_end": format!("{:?}", other)}));
                return;
            }
        };
        let mut diffs: Vec<String> = Vec::new();
        let mut detail: Vec<String> = Vec::new();
        for i in 1..32 {
            let got = st.get_u64(MIPS_REGS[i]).map(|v| v as u32);
            if got != Some(cpu.gpr[i]) {
                diffs.push(if i == 31 { "ra".into() } else { "gpr".into() });
                detail.push(format!("{}: expected 0x{:x} got {:?}", MIPS_REGS[i], cpu.gpr[i], got.map(|g| format!("0x{:x}", g))));
            }
        }
        let hilo_defined = mn != "mul" && slot.map(|s| mipsref::mnemonic(s) != Some("mul")).unwrap_or(true);
        if hilo_defined {
            if st.get_u64("$hi").map(|v| v as u32) != Some(cpu.hi) {
                diffs.push("hilo".into());
                detail.push(format!("hi: expected 0x{:x} got {:?}", cpu.hi, st.get("$hi").map(|b| b.hex())));
            }
            if st.get_u64("$lo").map(|v| v as u32) != Some(cpu.lo) {
                diffs.push("hilo".into());
                detail.push(format!("lo: expected 0x{:x} got {:?}", cpu.lo, st.get("$lo").map(|b| b.hex())));
            }
        }
        let refmem: std::collections::BTreeMap<u64, u8> = cpu.mem.iter().map(|(a, b)| (*a as u64, *b)).collect();
        if st.mem != refmem {
            diffs.push("mem".into());
            let d: Vec<String> = refmem.iter().filter(|(a, b)| st.mem.get(*a) != Some(*b)).take(6).map(|(a, b)| format!("[{:x}] expected {:02x} got {:?}", a, b, st.mem.get(a))).collect();
            detail.push(format!("memory: {:?}", d));
        }
        if il_pc != ref_pc as u64 {
            diffs.push("pc".into());
            detail.push(format!("next pc: expected 0x{:x} got 0x{:x}", ref_pc, il_pc));
        }
        diffs.sort();
        diffs.dedup();
        if !diffs.is_empty() {
            if let Some(sw) = slot {
                // is the delay-slot instruction wrong on its own? then the plain-instruction cases own the report
                if tag != "slot_probe" {
                    let before = ctx.n_violations();
                    let mut probe_ctx_rng = rng.clone();
                    // the slot runs after the link register has been written
                    let mut pstate = cpu0.clone();
                    if ["jal", "bltzal", "bgezal"].contains(&mn) {
                        pstate.gpr[31] = pc.wrapping_add(8);
                    } else if mn == "jalr" {
                        pstate.gpr[((word >> 11) & 31) as usize] = pc.wrapping_add(8);
                    }
                    self.mips_case(ctx, &mut probe_ctx_rng, big, sw, None, Some(pstate), "slot_probe");
                    if ctx.n_violations() != before {
                        ctx.count("mips.branch_case_attributed_to_slot_instruction");
                        return;
                    }
                }
            }
            ctx.violation(&format!("{}:{}:{}:diff={}", arch, mn, hazard, diffs.join("+")), json!({"input": mips_json(&cpu0, pc, &words), "differences": detail, "tag": tag}));
            return;
        }
        let changed = cpu.gpr != cpu0.gpr || cpu.hi != cpu0.hi || cpu.lo != cpu0.lo || cpu.mem != cpu0.mem || ref_pc != pc.wrapping_add(4);
        if changed {
            ctx.class(&format!("{}/{}{}", arch, mn, if slot.is_some() {"+slot"} else {""}));
        }
        ctx.count("mips.compared");
        if ctx.want_sample() && changed {
            ctx.sample(json!({"input": mips_json(&cpu0, pc, &words), "next_pc": format!("0x{:x}", ref_pc)}));
        }
    }
}

// ------------------------------------------------------------------ MIPS: multi-instruction blocks

/// why the reference stopped before the end of the covered words
enum BlockStop {
    Outcome(MipsOutcome),
    BranchWithoutSlot(usize),
}

/// Execute words[0..n_cov] one architectural instruction at a time (a branch together with its delay slot) the way a
/// lifted block is executed: stop after the first transfer of control (taken or not-taken non-linking branch, taken call),
/// continue behind a conditional call that is not taken. Returns the next pc.
fn mips_ref_block(cpu: &mut MipsCpu, pc0: u32, words: &[u32], n_cov: usize) -> Result<u32, BlockStop> {
    let mut i = 0usize;
    loop {
        let a = pc0.wrapping_add(4 * i as u32);
        if i >= n_cov {
            return Ok(a);
        }
        let w = words[i];
        if mipsref::has_delay_slot(w) {
            if i + 1 >= n_cov {
                return Err(BlockStop::BranchWithoutSlot(i));
            }
            // a conditional call that is not taken falls through into the rest of the block (decided on the
            // register value before the step: its target may equal the fall-through address)
            let rs_before = cpu.gpr[((w >> 21) & 31) as usize] as i32;
            let not_taken_call = match mipsref::mnemonic(w) {
                Some("bgezal") | Some("bal") => rs_before < 0,
                Some("bltzal") => rs_before >= 0,
                _ => false,
            };
            match mipsref::step(cpu, a, w, Some(words[i + 1])) {
                MipsOutcome::Next { pc } => {
                    if not_taken_call {
                        i += 2;
                        continue;
                    }
                    return Ok(pc);
                }
                o => return Err(BlockStop::Outcome(o)),
            }
        } else {
            match mipsref::step(cpu, a, w, None) {
                MipsOutcome::Next { pc } if pc == a.wrapping_add(4) => i += 1,
                MipsOutcome::Next { .. } => return Err(BlockStop::Outcome(MipsOutcome::Unmodelled)),
                o => return Err(BlockStop::Outcome(o)),
            }
        }
    }
}

impl C02 {
    /// A branch (with or without the bytes of its delay slot) behind `k` straight-line instructions, handed to
    /// translate_block as one byte string of a chosen length (in particular exactly 64 bytes - the window size function
    /// lifting uses - with the branch in its last or second-to-last word). Whatever prefix of the words the result
    /// says it covers (`length()`), running its IL must equal executing that prefix; a covered branch must have
    /// its delay slot covered too.
    fn mips_block_case(&self, ctx: &mut Ctx, rng: &mut Rng, big: bool) {
        let arch = if big { "mips" } else { "mipsel" };
        let k = *rng.pick(&[0usize, 1, 2, 3, 5, 13, 14, 14, 15, 15, 16, 17]);
        let pc: u32 = pick_pc32(rng);
        let mut cpu0 = MipsCpu::new(big);
        for i in 1..32 {
            cpu0.gpr[i] = reg_value(rng);
        }
        cpu0.hi = rng.corner64(32) as u32;
        cpu0.lo = rng.corner64(32) as u32;
        let tr = crate::c05::translator(arch);
        // straight-line part: only instructions falcon lifts and whose outcome the reference defines in the state
        // reached so far (memory they touch is mapped as it is discovered)
        let mut words: Vec<u32> = Vec::new();
        let mut run = cpu0.clone();
        let filler = |rng: &mut Rng, words: &mut Vec<u32>, run: &mut MipsCpu, cpu0: &mut MipsCpu| {
            let w = mips_plain(rng);
            if mipsref::mnemonic(w).is_none() || mipsref::has_delay_slot(w) {
                return;
            }
            let mut wb = if big { w.to_be_bytes().to_vec() } else { w.to_le_bytes().to_vec() };
            wb.extend_from_slice(&[0, 0, 0, 0]);
            if !matches!(guard(|| tr.translate_block(&wb, 0x40_0000, &Options::default())), Ok(Ok(_))) {
                return;
            }
            let a = pc.wrapping_add(4 * words.len() as u32);
            for _ in 0..3 {
                let mut t = run.clone();
                match mipsref::step(&mut t, a, w, None) {
                    MipsOutcome::Next { pc: n } if n == a.wrapping_add(4) => {
                        *run = t;
                        words.push(w);
                        return;
                    }
                    MipsOutcome::MemFault(f) if f < 0xffff_fe00 && f >= 0x100 => {
                        for j in 0..48u32 {
                            let addr = (f & !3).wrapping_sub(16).wrapping_add(j);
                            if !cpu0.mem.contains_key(&addr) {
                                let v = rng.u64() as u8;
                                cpu0.mem.insert(addr, v);
                                run.mem.insert(addr, v);
                            }
                        }
                    }
                    _ => return,
                }
            }
        };
        let mut tries = 0;
        while words.len() < k && tries < 300 {
            tries += 1;
            filler(rng, &mut words, &mut run, &mut cpu0);
        }
        let k = words.len();
        let br = mips_branch(rng);
        let brmn = match mipsref::mnemonic(br) {
            Some(m) if mipsref::has_delay_slot(br) => m,
            _ => return,
        };
        words.push(br);
        let mut slot = mips_plain(rng);
        if mipsref::mnemonic(slot).is_none() || mipsref::has_delay_slot(slot) {
            slot = 0;
        }
        if (brmn == "jr" || brmn == "jalr") && (((slot >> 16) & 31) == ((br >> 21) & 31) || ((slot >> 11) & 31) == ((br >> 21) & 31)) {
            // the slot may write the jump register: that constellation is owned by the branch+slot pair cases (C02-K1)
            slot = 0;
        }
        words.push(slot);
        for _ in 0..rng.below(3) {
            let w = mips_plain(rng);
            if mipsref::mnemonic(w).is_some() && !mipsref::has_delay_slot(w) {
                words.push(w);
            }
        }
        // how many bytes are handed over: everything, cut behind the branch (no slot bytes), cut behind the slot, or 64
        let nbytes = match rng.below(5) {
            0 => 4 * (k + 1),
            1 => 4 * (k + 2),
            2 => 64.min(4 * words.len()),
            _ => 4 * words.len(),
        };
        let shape = format!("k{}:{}", if k >= 13 { k.to_string() } else { "small".to_string() }, if nbytes == 4 * (k + 1) { "cut_before_slot" } else if nbytes == 64 { "window64" } else { "whole" });
        let mut bytes = Vec::new();
        for w in &words {
            bytes.extend_from_slice(&if big { w.to_be_bytes() } else { w.to_le_bytes() });
        }
        bytes.truncate(nbytes);
        let input = |cpu: &MipsCpu| {
            let mut j = mips_json(cpu, pc, &words);
            j["bytes_given"] = json!(nbytes);
            j
        };
        ctx.trace(|| format!("mips block {}", input(&cpu0)));
        let lifted = guard(|| if big { Mips::new().translate_block(&bytes, pc as u64, &Options::default()) } else { Mipsel::new().translate_block(&bytes, pc as u64, &Options::default()) });
        let btr = match lifted {
            Err(p) => {
                ctx.panic_violation(&format!("{}:lift_block:{}", arch, brmn), &p, input(&cpu0));
                return;
            }
            Ok(Err(_)) => {
                ctx.count("mips.block.falcon_rejected");
                return;
            }
            Ok(Ok(b)) => b,
        };
        ctx.eval();
        // which words the block covers: taken from the instruction addresses it reports (falcon reports the transfer part
        // of a branch at address+1; `length()` does not count the delay slot of a block-ending branch and is not used)
        let mut addrs: Vec<u64> = btr.instructions().iter().map(|(a, _)| *a & !3).collect();
        addrs.sort();
        addrs.dedup();
        let n_cov = addrs.len();
        if addrs.iter().enumerate().any(|(i, a)| *a != pc as u64 + 4 * i as u64) || 4 * n_cov > nbytes {
            ctx.violation(&format!("{}:block:{}:{}:instructions_not_a_prefix_of_the_bytes", arch, brmn, shape), json!({"input": input(&cpu0), "addresses": addrs.iter().map(|a| format!("0x{:x}", a)).collect::<Vec<_>>()}));
            return;
        }
        // memory discovery on the reference
        for _ in 0..8 {
            let mut probe = cpu0.clone();
            match mips_ref_block(&mut probe, pc, &words, n_cov) {
                Err(BlockStop::Outcome(MipsOutcome::MemFault(a))) => {
                    // whole aligned words (lwl/lwr/swl/swr may touch all of the word containing the address)
                    for j in 0..48u32 {
                        cpu0.mem.entry((a & !3).wrapping_sub(16).wrapping_add(j)).or_insert(rng.u64() as u8);
                    }
                }
                _ => break,
            }
        }
        if cpu0.mem.keys().any(|a| *a >= 0xffff_ff00) {
            ctx.count("mips.access_wraps_address_space(skipped)");
            return;
        }
        let mut cpu = cpu0.clone();
        let ref_pc = match mips_ref_block(&mut cpu, pc, &words, n_cov) {
            Ok(p) => p,
            Err(BlockStop::BranchWithoutSlot(i)) => {
                ctx.violation(
                    &format!("{}:block:{}:{}:branch_covered_without_its_delay_slot", arch, brmn, shape),
                    json!({"input": input(&cpu0), "length": btr.length(), "branch_index": i, "lifted_instruction_addresses": btr.instructions().iter().map(|(a, _)| format!("0x{:x}", a)).collect::<Vec<_>>()}),
                );
                return;
            }
            Err(BlockStop::Outcome(_)) => {
                ctx.count("mips.block.ref_not_defined(skipped)");
                return;
            }
        };
        let mut st = IlState::new(big);
        for i in 0..32 {
            st.set(MIPS_REGS[i], Bv::from_u64(cpu0.gpr[i] as u64, 32));
        }
        st.set("$hi", Bv::from_u64(cpu0.hi as u64, 32));
        st.set("$lo", Bv::from_u64(cpu0.lo as u64, 32));
        st.mem = cpu0.mem.iter().map(|(a, b)| (*a as u64, *b)).collect();
        let end = run_block_until_branch(&btr, &mut st);
        let il_pc = match end {
            LiftEnd::Next(p) => p,
            other => {
                let kind = match &other {
                    LiftEnd::Intrinsic(_) => "intrinsic".to_string(),
                    LiftEnd::Fault(f) => f.kind().to_string(),
                    o => format!("{:?}", o).to_lowercase(),
                };
                ctx.violation(&format!("{}:block:{}:{}:il_{}", arch, brmn, shape, kind), json!({"input": input(&cpu0), "covered_words": n_cov, "il_end": format!("{:?}", other)}));
                return;
            }
        };
        let mut diffs: Vec<&str> = Vec::new();
        let mut detail: Vec<String> = Vec::new();
        for i in 1..32 {
            let got = st.get_u64(MIPS_REGS[i]).map(|v| v as u32);
            if got != Some(cpu.gpr[i]) {
                diffs.push(if i == 31 { "ra" } else { "gpr" });
                detail.push(format!("{}: expected 0x{:x} got {:?}", MIPS_REGS[i], cpu.gpr[i], got.map(|g| format!("0x{:x}", g))));
            }
        }
        let mul_seen = words[..n_cov].iter().any(|w| mipsref::mnemonic(*w) == Some("mul"));
        if !mul_seen && (st.get_u64("$hi").map(|v| v as u32) != Some(cpu.hi) || st.get_u64("$lo").map(|v| v as u32) != Some(cpu.lo)) {
            diffs.push("hilo");
        }
        let refmem: std::collections::BTreeMap<u64, u8> = cpu.mem.iter().map(|(a, b)| (*a as u64, *b)).collect();
        if st.mem != refmem {
            diffs.push("mem");
            let d: Vec<String> = refmem.iter().filter(|(a, b)| st.mem.get(*a) != Some(*b)).take(6).map(|(a, b)| format!("[{:x}] expected {:02x} got {:?}", a, b, st.mem.get(a))).collect();
            let extra: Vec<String> = st.mem.keys().filter(|a| !refmem.contains_key(*a)).take(6).map(|a| format!("{:x}", a)).collect();
            detail.push(format!("memory: {:?}; written only by the IL: {:?}", d, extra));
        }
        if il_pc != ref_pc as u64 {
            diffs.push("pc");
            detail.push(format!("next pc: expected 0x{:x} got 0x{:x}", ref_pc, il_pc));
        }
        diffs.sort();
        diffs.dedup();
        if !diffs.is_empty() {
            // a filler instruction that is wrong on its own is reported by the single-instruction cases
            for (i, w) in words[..n_cov].iter().enumerate() {
                if i == k || i == k + 1 {
                    continue;
                }
                let before = ctx.n_violations();
                let mut r2 = rng.clone();
                self.mips_case(ctx, &mut r2, big, *w, None, None, "slot_probe");
                if ctx.n_violations() != before {
                    ctx.count("mips.block_case_attributed_to_a_filler_instruction");
                    return;
                }
            }
            ctx.violation(&format!("{}:block:{}:{}:diff={}", arch, brmn, shape, diffs.join("+")), json!({"input": input(&cpu0), "covered_words": n_cov, "differences": detail}));
            return;
        }
        ctx.class(&format!("{}/block/{}/{}/cov{}", arch, brmn, shape, if n_cov > k { "branch" } else { "prefix" }));
        ctx.count("mips.block.compared");
        ctx.count(if n_cov > k { "mips.block.branch_covered" } else { "mips.block.ended_before_branch" });
    }
}

// ------------------------------------------------------------------ PPC

fn ppc_word(rng: &mut Rng) -> u32 {
    let r = |rng: &mut Rng| -> u32 {
        match rng.below(8) {
            0 => 0,
            1 => 1,
            _ => rng.below(32) as u32,
        }
    };
    let (rt, ra, rb) = (r(rng), r(rng), r(rng));
    let imm = match rng.below(4) {
        0 => (rng.below(16) * 4) as u32 & 0xffff,
        1 => (0x10000 - rng.below(16) * 4) as u32 & 0xffff,
        _ => rng.corner64(16) as u32,
    };
    let d = |op: u32| op << 26 | rt << 21 | ra << 16 | imm;
    let x = |xo: u32, rc: u32| 31 << 26 | rt << 21 | ra << 16 | rb << 11 | xo << 1 | rc;
    match rng.below(24) {
        0 => d(14),
        1 => d(15),
        2 => 14 << 26 | rt << 21 | imm,  // li
        3 => 15 << 26 | rt << 21 | imm,  // lis
        4 => 11 << 26 | (rng.below(8) as u32) << 23 | ra << 16 | imm, // cmpwi
        5 => 10 << 26 | (rng.below(8) as u32) << 23 | ra << 16 | imm, // cmplwi
        6 => d(34),
        7 => d(32),
        8 => d(33),
        9 => d(36),
        10 => d(37),
        11 => 47 << 26 | (24 + rng.below(8) as u32) << 21 | ra << 16 | imm, // stmw
        12 => 21 << 26 | rt << 21 | ra << 16 | (rng.u32() & 0xfffe) | rng.below(2) as u32, // rlwinm[.]
        13 => 24 << 26, // nop
        // XO/X-form arithmetic, plain and record (Rc = 1) forms alike
        14 => x(266, rng.below(2) as u32),
        15 => x(40, rng.below(2) as u32),
        16 => 31 << 26 | rt << 21 | ra << 16 | 202 << 1 | rng.below(2) as u32, // addze[.]
        17 => 31 << 26 | rt << 21 | ra << 16 | rt << 11 | 444 << 1 | rng.below(2) as u32, // mr[.] ra, rt
        18 => 31 << 26 | rt << 21 | ra << 16 | (rng.below(32) as u32) << 11 | 824 << 1 | rng.below(2) as u32, // srawi[.]
        19 => 31 << 26 | rt << 21 | (*rng.pick(&[0x100u32, 0x120])) << 11 | (*rng.pick(&[339u32, 467])) << 1, // mflr/mtlr/mfctr/mtctr  (spr field is split: LR=8 -> 0x100, CTR=9 -> 0x120)
        20 => 18 << 26 | (rng.u32() & 0x03ff_fffc) | rng.below(2) as u32, // b / bl
        21 => 16 << 26 | (rng.below(32) as u32) << 21 | (rng.below(32) as u32) << 16 | (rng.u32() & 0xfffc) | rng.below(2) as u32, // bc / bcl
        22 => 19 << 26 | (*rng.pick(&[20u32, 12, 4, 16, 18, 8])) << 21 | (rng.below(32) as u32) << 16 | 16 << 1 | rng.below(2) as u32, // bclr
        _ => 19 << 26 | (*rng.pick(&[20u32, 12, 4])) << 21 | (rng.below(32) as u32) << 16 | 528 << 1 | rng.below(2) as u32, // bcctr
    }
}

fn ppc_json(cpu: &PpcCpu, pc: u32, word: u32) -> Value {
    json!({
        "arch": "ppc", "pc": format!("0x{:x}", pc), "word": format!("0x{:08x} {}", word, ppcref::mnemonic(word).unwrap_or("?")),
        "gpr": cpu.gpr.iter().map(|v| format!("0x{:x}", v)).collect::<Vec<_>>(), "lr": format!("0x{:x}", cpu.lr), "ctr": format!("0x{:x}", cpu.ctr),
        "cr": format!("0x{:08x}", cpu.cr), "ca": cpu.xer_ca,
        "mem": cpu.mem.iter().map(|(a, b)| format!("{:x}:{:02x}", a, b)).collect::<Vec<_>>().join(" "),
    })
}

const CR_BITS: [&str; 4] = ["lt", "gt", "eq", "so"];

impl C02 {
    fn ppc_case(&self, ctx: &mut Ctx, rng: &mut Rng, word: u32, tag: &str) {
        let mn = match ppcref::mnemonic(word) {
            Some(m) => m,
            None => {
                ctx.count("ppc.ref_unmodelled");
                if rng.chance(1, 8) {
                    let bytes = word.to_be_bytes();
                    let tr = crate::c05::translator("ppc");
                    if let Ok(Ok(b)) = guard(|| tr.translate_block(&bytes, 0x40_0000, &Options::default())) {
                        if !b.instructions().is_empty() {
                            ctx.count(&format!("ppc.falcon_accepts_unmodelled:op{}_xo{}", word >> 26, if word >> 26 == 31 || word >> 26 == 19 { (word >> 1) & 0x3ff } else { 0 }));
                        }
                    }
                }
                return;
            }
        };
        if mn.starts_with("bc") {
            // BO encodings with non-zero 'z' bits are reserved; decoders disagree about them
            let bo = (word >> 21) & 31;
            let canonical = if bo & 0b10100 == 0b10100 {
                bo == 20
            } else if bo & 0b10000 != 0 {
                bo & 0b01000 == 0
            } else if bo & 0b00100 != 0 {
                bo & 0b00010 == 0
            } else {
                true
            };
            if !canonical {
                ctx.count("ppc.reserved_bo_encoding(skipped)");
                return;
            }
        }
        let pc: u32 = pick_pc32(rng);
        let mut cpu0 = PpcCpu { gpr: [0; 32], lr: 0, ctr: 0, cr: rng.u32() & 0xeeee_eeee, xer_so: false, xer_ov: false, xer_ca: rng.bool(), mem: Default::default() };
        for i in 0..32 {
            cpu0.gpr[i] = reg_value(rng);
        }
        cpu0.lr = reg_value(rng) & !3;
        cpu0.ctr = match rng.below(4) {
            0 => 1,
            1 => 0,
            2 => 2,
            _ => reg_value(rng),
        };
        {
            let mut probe = cpu0.clone();
            if let PpcOutcome::MemFault(a) = ppcref::step(&mut probe, pc, word) {
                for k in 0..64u32 {
                    cpu0.mem.insert(a.wrapping_sub(16).wrapping_add(k), rng.u64() as u8);
                }
                // stmw may touch up to 128 bytes
                if mn == "stmw" || mn == "lmw" {
                    for k in 0..160u32 {
                        cpu0.mem.entry(a.wrapping_sub(16).wrapping_add(k)).or_insert(rng.u64() as u8);
                    }
                }
            }
        }
        if cpu0.mem.keys().any(|a| *a >= 0xffff_ff00) {
            ctx.count("ppc.access_wraps_address_space(skipped)");
            return;
        }
        ctx.trace(|| format!("ppc {}", ppc_json(&cpu0, pc, word)));
        let bytes = word.to_be_bytes();
        let lifted = guard(|| Ppc::new().translate_block(&bytes, pc as u64, &Options::default()));
        let btr = match lifted {
            Err(p) => {
                ctx.panic_violation(&format!("ppc:lift:{}", mn), &p, ppc_json(&cpu0, pc, word));
                return;
            }
            Ok(Err(_)) => {
                ctx.count("ppc.falcon_rejected");
                return;
            }
            Ok(Ok(b)) => b,
        };
        let mut cpu = cpu0.clone();
        let out = ppcref::step(&mut cpu, pc, word);
        let mut st = IlState::new(true);
        for i in 0..32 {
            st.set(&format!("r{}", i), Bv::from_u64(cpu0.gpr[i] as u64, 32));
        }
        st.set("lr", Bv::from_u64(cpu0.lr as u64, 32));
        st.set("ctr", Bv::from_u64(cpu0.ctr as u64, 32));
        st.set("carry", Bv::bit1(cpu0.xer_ca));
        for f in 0..8 {
            for b in 0..4 {
                let bit = (cpu0.cr >> (31 - (4 * f + b))) & 1;
                st.set(&format!("cr{}-{}", f, CR_BITS[b]), Bv::from_u64(bit as u64, 1));
            }
        }
        st.mem = cpu0.mem.iter().map(|(a, b)| (*a as u64, *b)).collect();
        let end = run_block(&btr, &mut st);
        ctx.eval();
        let ref_pc = match out {
            PpcOutcome::Next { pc: npc } => {
                if (mn.starts_with('b')) && (npc as i64 - pc as i64).abs() > 0x4000_0000 && !mn.contains("lr") && !mn.contains("ctr") {
                    ctx.count("ppc.branch_target_wraps_address_space(skipped)");
                    return;
                }
                npc
            }
            PpcOutcome::Trap(kind) => {
                if !matches!(end, LiftEnd::Intrinsic(_)) {
                    ctx.violation(&format!("ppc:{}:trap_{}_not_signalled", mn, kind), json!({"input": ppc_json(&cpu0, pc, word), "il_end": format!("{:?}", end)}));
                }
                return;
            }
            PpcOutcome::MemFault(_) | PpcOutcome::Invalid(_) | PpcOutcome::Unmodelled => {
                ctx.count(&format!("ppc.ref_{}", match out { PpcOutcome::MemFault(_) => "memfault", PpcOutcome::Invalid(_) => "invalid_form", _ => "unmodelled" }));
                return;
            }
        };
        let il_pc = match end {
            LiftEnd::Next(p) => p,
            other => {
                let kind = match &other {
                    LiftEnd::Intrinsic(_) => "intrinsic".to_string(),
                    LiftEnd::Fault(f) => f.kind().to_string(),
                    o => format!("{:?}", o).to_lowercase(),
                };
                ctx.violation(&format!("ppc:{}:il_{}", mn, kind), json!({"input": ppc_json(&cpu0, pc, word), "il_end": format!("{:?}", other)}));
                return;
            }
        };
        let mut diffs: Vec<String> = Vec::new();
        let mut detail: Vec<String> = Vec::new();
        for i in 0..32 {
            let got = st.get_u64(&format!("r{}", i)).map(|v| v as u32);
            if got != Some(cpu.gpr[i]) {
                diffs.push("gpr".into());
                detail.push(format!("r{}: expected 0x{:x} got {:?}", i, cpu.gpr[i], st.get(&format!("r{}", i)).map(|b| b.hex())));
            }
        }
        if st.get_u64("lr").map(|v| v as u32) != Some(cpu.lr) {
            diffs.push("lr".into());
            detail.push(format!("lr: expected 0x{:x} got {:?}", cpu.lr, st.get("lr").map(|b| b.hex())));
        }
        if st.get_u64("ctr").map(|v| v as u32) != Some(cpu.ctr) {
            diffs.push("ctr".into());
            detail.push(format!("ctr: expected 0x{:x} got {:?}", cpu.ctr, st.get("ctr").map(|b| b.hex())));
        }
        if st.get("carry").map(|b| b.is_one()) != Some(cpu.xer_ca) {
            diffs.push("carry".into());
            detail.push(format!("carry: expected {} got {:?}", cpu.xer_ca, st.get("carry").map(|b| b.hex())));
        }
        for f in 0..8 {
            for b in 0..4 {
                let bit = (cpu.cr >> (31 - (4 * f + b))) & 1;
                let name = format!("cr{}-{}", f, CR_BITS[b]);
                let got = st.get(&name);
                if got.map(|g| g.bits == 1 && g.to_u64() == Some(bit as u64)) != Some(true) {
                    diffs.push("cr".to_string());
                    detail.push(format!("{}: expected {} got {:?}", name, bit, got.map(|b| b.hex())));
                }
            }
        }
        let refmem: std::collections::BTreeMap<u64, u8> = cpu.mem.iter().map(|(a, b)| (*a as u64, *b)).collect();
        if st.mem != refmem {
            diffs.push("mem".into());
            let d: Vec<String> = refmem.iter().filter(|(a, b)| st.mem.get(*a) != Some(*b)).take(6).map(|(a, b)| format!("[{:x}] expected {:02x} got {:?}", a, b, st.mem.get(a))).collect();
            detail.push(format!("memory: {:?}", d));
        }
        if il_pc != ref_pc as u64 {
            diffs.push("pc".into());
            detail.push(format!("next pc: expected 0x{:x} got 0x{:x}", ref_pc, il_pc));
        }
        diffs.sort();
        diffs.dedup();
        if !diffs.is_empty() {
            ctx.violation(&format!("ppc:{}:diff={}", mn, diffs.join("+")), json!({"input": ppc_json(&cpu0, pc, word), "differences": detail, "tag": tag}));
            return;
        }
        let changed = cpu.gpr != cpu0.gpr || cpu.lr != cpu0.lr || cpu.ctr != cpu0.ctr || cpu.cr != cpu0.cr || cpu.xer_ca != cpu0.xer_ca || cpu.mem != cpu0.mem || ref_pc != pc.wrapping_add(4);
        if changed {
            ctx.class(&format!("ppc/{}", mn));
        }
        ctx.count("ppc.compared");
    }
}

// ------------------------------------------------------------------ PPC: multi-instruction blocks

fn ppc_il_state(cpu0: &PpcCpu) -> IlState {
    let mut st = IlState::new(true);
    for i in 0..32 {
        st.set(&format!("r{}", i), Bv::from_u64(cpu0.gpr[i] as u64, 32));
    }
    st.set("lr", Bv::from_u64(cpu0.lr as u64, 32));
    st.set("ctr", Bv::from_u64(cpu0.ctr as u64, 32));
    st.set("carry", Bv::bit1(cpu0.xer_ca));
    for f in 0..8 {
        for b in 0..4 {
            let bit = (cpu0.cr >> (31 - (4 * f + b))) & 1;
            st.set(&format!("cr{}-{}", f, CR_BITS[b]), Bv::from_u64(bit as u64, 1));
        }
    }
    st.mem = cpu0.mem.iter().map(|(a, b)| (*a as u64, *b)).collect();
    st
}

fn ppc_compare(st: &IlState, cpu: &PpcCpu, il_pc: u64, ref_pc: u32) -> (Vec<String>, Vec<String>) {
    let mut diffs: Vec<String> = Vec::new();
    let mut detail: Vec<String> = Vec::new();
    for i in 0..32 {
        if st.get_u64(&format!("r{}", i)).map(|v| v as u32) != Some(cpu.gpr[i]) {
            diffs.push("gpr".into());
            detail.push(format!("r{}: expected 0x{:x} got {:?}", i, cpu.gpr[i], st.get(&format!("r{}", i)).map(|b| b.hex())));
        }
    }
    if st.get_u64("lr").map(|v| v as u32) != Some(cpu.lr) {
        diffs.push("lr".into());
        detail.push(format!("lr: expected 0x{:x} got {:?}", cpu.lr, st.get("lr").map(|b| b.hex())));
    }
    if st.get_u64("ctr").map(|v| v as u32) != Some(cpu.ctr) {
        diffs.push("ctr".into());
        detail.push(format!("ctr: expected 0x{:x} got {:?}", cpu.ctr, st.get("ctr").map(|b| b.hex())));
    }
    if st.get("carry").map(|b| b.is_one()) != Some(cpu.xer_ca) {
        diffs.push("carry".into());
    }
    for f in 0..8 {
        for b in 0..4 {
            let bit = (cpu.cr >> (31 - (4 * f + b))) & 1;
            let name = format!("cr{}-{}", f, CR_BITS[b]);
            let got = st.get(&name);
            if got.map(|g| g.bits == 1 && g.to_u64() == Some(bit as u64)) != Some(true) {
                diffs.push("cr".to_string());
                detail.push(format!("{}: expected {} got {:?}", name, bit, got.map(|b| b.hex())));
            }
        }
    }
    let refmem: std::collections::BTreeMap<u64, u8> = cpu.mem.iter().map(|(a, b)| (*a as u64, *b)).collect();
    if st.mem != refmem {
        diffs.push("mem".into());
        let d: Vec<String> = refmem.iter().filter(|(a, b)| st.mem.get(*a) != Some(*b)).take(6).map(|(a, b)| format!("[{:x}] expected {:02x} got {:?}", a, b, st.mem.get(a))).collect();
        detail.push(format!("memory: {:?}", d));
    }
    if il_pc != ref_pc as u64 {
        diffs.push("pc".into());
        detail.push(format!("next pc: expected 0x{:x} got 0x{:x}", ref_pc, il_pc));
    }
    diffs.sort();
    diffs.dedup();
    (diffs, detail)
}

fn ppc_is_branch(w: u32) -> bool {
    matches!(w >> 26, 16 | 18) || (w >> 26 == 19 && matches!((w >> 1) & 0x3ff, 16 | 528))
}

/// Execute words[0..n_cov] one instruction at a time the way a lifted block is executed: a direct branch without
/// link ends the block whether taken or not; a linking or register branch ends it only when taken.
fn ppc_ref_block(cpu: &mut PpcCpu, pc0: u32, words: &[u32], n_cov: usize) -> Result<u32, PpcOutcome> {
    let mut i = 0usize;
    loop {
        let a = pc0.wrapping_add(4 * i as u32);
        if i >= n_cov {
            return Ok(a);
        }
        let w = words[i];
        match ppcref::step(cpu, a, w) {
            PpcOutcome::Next { pc } => {
                if ppc_is_branch(w) {
                    let direct_no_link = matches!(w >> 26, 16 | 18) && w & 1 == 0;
                    if direct_no_link || pc != a.wrapping_add(4) {
                        return Ok(pc);
                    }
                } else if pc != a.wrapping_add(4) {
                    return Err(PpcOutcome::Unmodelled);
                }
                i += 1;
            }
            o => return Err(o),
        }
    }
}

impl C02 {
    /// Straight-line PPC code followed by a branch and a little more, lifted as one block; the words the block
    /// covers are executed by ppcref one at a time and everything is compared.
    fn ppc_block_case(&self, ctx: &mut Ctx, rng: &mut Rng) {
        let k = rng.below(7) as usize;
        let pc: u32 = pick_pc32(rng);
        let mut cpu0 = PpcCpu { gpr: [0; 32], lr: 0, ctr: 0, cr: rng.u32() & 0xeeee_eeee, xer_so: false, xer_ov: false, xer_ca: rng.bool(), mem: Default::default() };
        for i in 0..32 {
            cpu0.gpr[i] = reg_value(rng);
        }
        cpu0.lr = reg_value(rng) & !3;
        cpu0.ctr = match rng.below(4) {
            0 => 1,
            1 => 0,
            2 => 2,
            _ => reg_value(rng),
        };
        let accepts = |w: u32| matches!(guard(|| Ppc::new().translate_block(&w.to_be_bytes(), 0x40_0000, &Options::default())), Ok(Ok(ref b)) if !b.instructions().is_empty());
        // straight-line part: instructions falcon lifts and the reference defines in the state reached so far
        let mut words: Vec<u32> = Vec::new();
        let mut run = cpu0.clone();
        let mut tries = 0;
        while words.len() < k && tries < 200 {
            tries += 1;
            let w = ppc_word(rng);
            if ppcref::mnemonic(w).is_none() || ppc_is_branch(w) || !accepts(w) {
                continue;
            }
            let a = pc.wrapping_add(4 * words.len() as u32);
            for _ in 0..3 {
                let mut t = run.clone();
                match ppcref::step(&mut t, a, w) {
                    PpcOutcome::Next { pc: n } if n == a.wrapping_add(4) => {
                        run = t;
                        words.push(w);
                        break;
                    }
                    PpcOutcome::MemFault(f) if f < 0xffff_fd00 && f >= 0x100 => {
                        for j in 0..192u32 {
                            let addr = f.wrapping_sub(16).wrapping_add(j);
                            if !cpu0.mem.contains_key(&addr) {
                                let v = rng.u64() as u8;
                                cpu0.mem.insert(addr, v);
                                run.mem.insert(addr, v);
                            }
                        }
                    }
                    _ => break,
                }
            }
        }
        let k = words.len();
        let mut br = 0u32;
        for _ in 0..50 {
            let w = ppc_word(rng);
            if ppc_is_branch(w) && ppcref::mnemonic(w).is_some() && accepts(w) {
                br = w;
                break;
            }
        }
        if br == 0 {
            return;
        }
        let brmn = ppcref::mnemonic(br).unwrap_or("?");
        if br >> 26 == 16 {
            let bo = (br >> 21) & 31;
            let canonical = if bo & 0b10100 == 0b10100 { bo == 20 } else if bo & 0b10000 != 0 { bo & 0b01000 == 0 } else if bo & 0b00100 != 0 { bo & 0b00010 == 0 } else { true };
            if !canonical || br & 1 == 1 {
                // reserved BO encodings; bcl forms are the recorded finding C02-K2 (single-instruction cases own it)
                return;
            }
        }
        // a displacement of +4 would make "taken" and "not taken" indistinguishable for the reference
        if (br >> 26 == 18 && br & 0x03ff_fffc == 4) || (br >> 26 == 16 && br & 0xfffc == 4) {
            br ^= 8;
        }
        words.push(br);
        for _ in 0..rng.below(3) {
            let w = ppc_word(rng);
            if ppcref::mnemonic(w).is_some() && !ppc_is_branch(w) && accepts(w) {
                words.push(w);
            }
        }
        let br_at = pc + 4 * (words.iter().position(|w| *w == br).unwrap_or(0) as u32);
        if cpu0.lr == br_at + 4 || cpu0.ctr & !3 == br_at + 4 {
            return;
        }
        let input = |cpu: &PpcCpu| {
            let mut j = ppc_json(cpu, pc, words[0]);
            j["words"] = json!(words.iter().map(|w| format!("0x{:08x} {}", w, ppcref::mnemonic(*w).unwrap_or("?"))).collect::<Vec<_>>());
            j
        };
        let mut bytes = Vec::new();
        for w in &words {
            bytes.extend_from_slice(&w.to_be_bytes());
        }
        ctx.trace(|| format!("ppc block {}", input(&cpu0)));
        let btr = match guard(|| Ppc::new().translate_block(&bytes, pc as u64, &Options::default())) {
            Err(p) => {
                ctx.panic_violation(&format!("ppc:lift_block:{}", brmn), &p, input(&cpu0));
                return;
            }
            Ok(Err(_)) => {
                ctx.count("ppc.block.falcon_rejected");
                return;
            }
            Ok(Ok(b)) => b,
        };
        ctx.eval();
        let mut addrs: Vec<u64> = btr.instructions().iter().map(|(a, _)| *a).collect();
        addrs.sort();
        addrs.dedup();
        let n_cov = addrs.len();
        if addrs.iter().enumerate().any(|(i, a)| *a != pc as u64 + 4 * i as u64) || n_cov > words.len() {
            ctx.violation(&format!("ppc:block:{}:instructions_not_a_prefix_of_the_bytes", brmn), json!({"input": input(&cpu0), "addresses": addrs.iter().map(|a| format!("0x{:x}", a)).collect::<Vec<_>>()}));
            return;
        }
        for _ in 0..8 {
            let mut probe = cpu0.clone();
            match ppc_ref_block(&mut probe, pc, &words, n_cov) {
                Err(PpcOutcome::MemFault(a)) => {
                    for j in 0..192u32 {
                        cpu0.mem.entry(a.wrapping_sub(16).wrapping_add(j)).or_insert(rng.u64() as u8);
                    }
                }
                _ => break,
            }
        }
        if cpu0.mem.keys().any(|a| *a >= 0xffff_fe00) {
            ctx.count("ppc.access_wraps_address_space(skipped)");
            return;
        }
        let mut cpu = cpu0.clone();
        let ref_pc = match ppc_ref_block(&mut cpu, pc, &words, n_cov) {
            Ok(p) => p,
            Err(_) => {
                ctx.count("ppc.block.ref_not_defined(skipped)");
                return;
            }
        };
        if (ref_pc as i64 - pc as i64).abs() > 0x4000_0000 && !brmn.contains("lr") && !brmn.contains("ctr") {
            ctx.count("ppc.branch_target_wraps_address_space(skipped)");
            return;
        }
        let mut st = ppc_il_state(&cpu0);
        let il_pc = match run_block_until_branch(&btr, &mut st) {
            LiftEnd::Next(p) => p,
            other => {
                let kind = match &other {
                    LiftEnd::Intrinsic(_) => "intrinsic".to_string(),
                    LiftEnd::Fault(f) => f.kind().to_string(),
                    o => format!("{:?}", o).to_lowercase(),
                };
                ctx.violation(&format!("ppc:block:{}:il_{}", brmn, kind), json!({"input": input(&cpu0), "covered_words": n_cov, "il_end": format!("{:?}", other)}));
                return;
            }
        };
        let (diffs, detail) = ppc_compare(&st, &cpu, il_pc, ref_pc);
        if !diffs.is_empty() {
            // an instruction that is wrong on its own is reported by the single-instruction cases
            for w in &words[..n_cov] {
                let before = ctx.n_violations();
                let mut r2 = rng.clone();
                self.ppc_case(ctx, &mut r2, *w, "block_probe");
                if ctx.n_violations() != before {
                    ctx.count("ppc.block_case_attributed_to_one_instruction");
                    return;
                }
            }
            ctx.violation(&format!("ppc:block:{}:diff={}", brmn, diffs.join("+")), json!({"input": input(&cpu0), "covered_words": n_cov, "differences": detail}));
            return;
        }
        ctx.class(&format!("ppc/block/{}/cov{}", brmn, if n_cov > k { "branch" } else { "prefix" }));
        ctx.count("ppc.block.compared");
    }
}

impl Check for C02 {
    fn directed(&self) -> u64 {
        2
    }
    fn run(&mut self, ctx: &mut Ctx, rng: &mut Rng, case: u64) {
        match case {
            0 => {
                // delay-slot ordering: jr $t0 with a slot that overwrites $t0; jal with a slot reading/writing $ra
                let jr_t0 = 8u32 << 21 | 8;
                let jalr_t0 = 8u32 << 21 | 31 << 11 | 9;
                let addiu_t0 = 9u32 << 26 | 8 << 21 | 8 << 16 | 0x10; // addiu $t0,$t0,16
                let move_v0_ra = 31u32 << 21 | 2 << 11 | 0x25; // or $v0,$ra,$zero
                let addiu_ra = 9u32 << 26 | 31 << 21 | 31 << 16 | 4;
                let jal = 3u32 << 26 | 0x40;
                for big in [true, false] {
                    for (w, s) in [(jr_t0, addiu_t0), (jalr_t0, addiu_t0), (jalr_t0, move_v0_ra), (jal, move_v0_ra), (jal, addiu_ra)] {
                        self.mips_case(ctx, rng, big, w, Some(s), None, "directed");
                    }
                }
            }
            1 => {
                // lwl/lwr/swl/swr at all four offsets, both endiannesses
                for big in [true, false] {
                    for op in [0x22u32, 0x26, 0x2a, 0x2e] {
                        for off in 0..4u32 {
                            let w = op << 26 | 4 << 21 | 5 << 16 | off;
                            let mut c = MipsCpu::new(big);
                            c.gpr[4] = CENTER;
                            c.gpr[5] = 0xaabbccdd;
                            self.mips_case(ctx, rng, big, w, None, Some(c), "directed");
                        }
                    }
                }
                // ppc: mtlr / blr / cmpwi
                for w in [0x7c0803a6u32, 0x4e800020, 0x2c03ffff, 0x28030001, 0x7c6802a6] {
                    for _ in 0..8 {
                        self.ppc_case(ctx, rng, w, "directed");
                    }
                }
            }
            _ => {
                for _ in 0..12 {
                    match rng.below(7) {
                        5 => {
                            let big = rng.bool();
                            self.mips_block_case(ctx, rng, big);
                        }
                        6 => self.ppc_block_case(ctx, rng),
                        0 | 1 => {
                            let big = rng.bool();
                            let w = mips_plain(rng);
                            self.mips_case(ctx, rng, big, w, None, None, "rnd");
                        }
                        2 => {
                            let big = rng.bool();
                            let w = mips_branch(rng);
                            let mut s = mips_plain(rng);
                            // aim the slot at the branch's registers now and then
                            if rng.chance(1, 3) {
                                let target = if rng.bool() { (w >> 21) & 31 } else { 31 };
                                s = (s & !(31 << 16)) | target << 16;
                            }
                            self.mips_case(ctx, rng, big, w, Some(s), None, "rnd");
                        }
                        3 => {
                            // uniformly random words (both ISAs)
                            let w = rng.u32();
                            if rng.bool() {
                                let big = rng.bool();
                                let s = mips_plain(rng);
                                self.mips_case(ctx, rng, big, w, Some(s), None, "random_word");
                            } else {
                                self.ppc_case(ctx, rng, w, "random_word");
                            }
                        }
                        _ => {
                            let w = ppc_word(rng);
                            self.ppc_case(ctx, rng, w, "rnd");
                        }
                    }
                }
            }
        }
    }
}
