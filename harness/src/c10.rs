//! C10 — SSA transformation yields valid SSA that preserves behaviour.
//!
//! Structural monitors (same skeleton, single assignment, definitions dominate
//! uses by the brute-force dominance oracle, phi inputs = predecessors) plus
//! differential execution of the original and the SSA form in the reference
//! interpreter (phi nodes select by incoming edge).

use crate::c12::init_machine;
use crate::fw::*;
use crate::graphref::G;
use crate::ilgen::{self, GenOpts};
use crate::locgraph::loc_str;
use crate::refinterp::{Event, StepOut};
use falcon::il::{Expression, Function, Operation, Scalar};
use falcon::transformation::ssa_transformation;
use serde_json::json;
use std::collections::{BTreeMap, BTreeSet};

pub struct C10 {}
impl C10 {
    pub fn new(_t: Tier) -> C10 {
        C10 {}
    }
}

fn strip_expr(e: &Expression) -> Expression {
    let mut e = e.clone();
    for s in e.scalars_mut() {
        s.set_ssa(None);
    }
    e
}

fn strip_op(o: &Operation) -> Operation {
    let mut o = o.clone();
    if let Some(v) = o.scalars_read_mut() {
        for s in v {
            s.set_ssa(None);
        }
    }
    if let Some(v) = o.scalars_written_mut() {
        for s in v {
            s.set_ssa(None);
        }
    }
    o
}

fn structure_diff(f: &Function, s: &Function) -> Option<String> {
    let fb: Vec<usize> = f.blocks().iter().map(|b| b.index()).collect();
    let sb: Vec<usize> = s.blocks().iter().map(|b| b.index()).collect();
    if fb != sb {
        return Some(format!("blocks differ {:?} vs {:?}", fb, sb));
    }
    if f.control_flow_graph().entry() != s.control_flow_graph().entry() || f.control_flow_graph().exit() != s.control_flow_graph().exit() {
        return Some("entry/exit differ".into());
    }
    let fe: Vec<(usize, usize, Option<Expression>)> = f.edges().iter().map(|e| (e.head(), e.tail(), e.condition().cloned())).collect();
    let se: Vec<(usize, usize, Option<Expression>)> = s.edges().iter().map(|e| (e.head(), e.tail(), e.condition().map(strip_expr))).collect();
    if fe != se {
        return Some("edges (with versions stripped) differ".into());
    }
    for (a, b) in f.blocks().iter().zip(s.blocks().iter()) {
        if a.instructions().len() != b.instructions().len() {
            return Some(format!("block {}: instruction count differs", a.index()));
        }
        for (i, j) in a.instructions().iter().zip(b.instructions().iter()) {
            if i.index() != j.index() || i.address() != j.address() {
                return Some(format!("block {}: instruction index/address differs", a.index()));
            }
            if *i.operation() != strip_op(j.operation()) {
                return Some(format!("block {} instruction {}: operation differs after stripping versions: {} vs {}", a.index(), i.index(), i.operation(), j.operation()));
            }
        }
    }
    None
}

impl C10 {
    fn check(&self, ctx: &mut Ctx, rng: &mut Rng, g: &ilgen::Gen, tag: &str) {
        let f = &g.f;
        let fj = || ilgen::describe(f);
        ctx.trace(|| format!("function {}", fj()));
        let r = guard(|| ssa_transformation(f));
        ctx.eval();
        let s = match r {
            Err(p) => {
                ctx.panic_violation(&format!("ssa:{}", tag), &p, fj());
                return;
            }
            Ok(Err(e)) => {
                ctx.violation(&format!("ssa:error:{}", tag), json!({"function": fj(), "error": format!("{:?}", e)}));
                return;
            }
            Ok(Ok(s)) => s,
        };
        let sj = || ilgen::describe(&s);
        if let Some(why) = structure_diff(f, &s) {
            ctx.violation(&format!("structure:{}", tag), json!({"function": fj(), "ssa": sj(), "why": why}));
            return;
        }
        // block graph and brute-force dominance
        let entry = f.control_flow_graph().entry().unwrap();
        let mut bg = G::new();
        for b in f.blocks() {
            bg.v.insert(b.index());
        }
        for e in f.edges() {
            bg.e.insert((e.head(), e.tail()));
        }
        let reach = bg.reach(entry);
        let dom = bg.dominators(entry);
        // ---- (iii) single assignment; collect definition sites: version -> (block, position) ; position -1 = phi
        let mut defs: BTreeMap<(String, usize), (usize, i64)> = BTreeMap::new();
        let mut problems: Vec<String> = Vec::new();
        let mut n_phi = 0;
        for b in s.blocks() {
            if !reach.contains(&b.index()) {
                continue;
            }
            for phi in b.phi_nodes() {
                n_phi += 1;
                match phi.out().ssa() {
                    Some(v) => {
                        if defs.insert((phi.out().name().to_string(), v), (b.index(), -1)).is_some() {
                            problems.push(format!("version {} assigned more than once (phi in block {})", phi.out(), b.index()));
                        }
                    }
                    None => problems.push(format!("phi output {} in block {} has no version", phi.out(), b.index())),
                }
            }
            for (pos, i) in b.instructions().iter().enumerate() {
                for w in i.scalars_written().unwrap_or_default() {
                    match w.ssa() {
                        Some(v) => {
                            if defs.insert((w.name().to_string(), v), (b.index(), pos as i64)).is_some() {
                                problems.push(format!("version {} assigned more than once (block {} instruction {})", w, b.index(), i.index()));
                            }
                        }
                        None => problems.push(format!("write of {} in reachable block {} has no version", w, b.index())),
                    }
                }
            }
        }
        if !problems.is_empty() {
            ctx.violation(&format!("single_assignment:{}", tag), json!({"function": fj(), "ssa": sj(), "problems": problems}));
            return;
        }
        // ---- (iv) definitions dominate uses
        let dominates = |def: &(usize, i64), ublock: usize, upos: i64| -> bool {
            if def.0 == ublock {
                def.1 < upos
            } else {
                dom.get(&ublock).map(|d| d.contains(&def.0)).unwrap_or(false)
            }
        };
        let mut check_use = |sc: &Scalar, ublock: usize, upos: i64, what: String, problems: &mut Vec<String>| {
            if let Some(v) = sc.ssa() {
                match defs.get(&(sc.name().to_string(), v)) {
                    None => problems.push(format!("{} uses {} which is never defined", what, sc)),
                    Some(d) => {
                        if !dominates(d, ublock, upos) {
                            problems.push(format!("{} uses {} whose definition (block {}, pos {}) does not dominate it", what, sc, d.0, d.1));
                        }
                    }
                }
            }
        };
        for b in s.blocks() {
            if !reach.contains(&b.index()) {
                continue;
            }
            for (pos, i) in b.instructions().iter().enumerate() {
                for r in crate::refeval::op_reads(i.operation()).iter() {
                    check_use(r, b.index(), pos as i64, format!("block {} instruction {}", b.index(), i.index()), &mut problems);
                }
            }
            let end = b.instructions().len() as i64;
            for e in s.edges() {
                if e.head() == b.index() {
                    if let Some(c) = e.condition() {
                        let mut rs = Vec::new();
                        crate::refeval::expr_scalars(c, &mut rs);
                        for r in rs.iter() {
                            check_use(r, b.index(), end, format!("guard of edge {}->{}", e.head(), e.tail()), &mut problems);
                        }
                    }
                }
            }
        }
        // ---- (v) phi nodes: one input per predecessor, entry input only in the entry block
        for b in s.blocks() {
            if !reach.contains(&b.index()) {
                continue;
            }
            let preds: BTreeSet<usize> = bg.preds(b.index()).into_iter().collect();
            for phi in b.phi_nodes() {
                for p in &preds {
                    match phi.incoming_scalar(*p) {
                        None => problems.push(format!("phi {} in block {} has no input for predecessor {}", phi.out(), b.index(), p)),
                        Some(sc) => {
                            if sc.name() != phi.out().name() || sc.bits() != phi.out().bits() {
                                problems.push(format!("phi {} in block {} takes a different scalar {} from predecessor {}", phi.out(), b.index(), sc, p));
                            }
                            if reach.contains(p) {
                                let end = s.block(*p).unwrap().instructions().len() as i64;
                                check_use(sc, *p, end, format!("phi {} input from block {}", phi.out(), p), &mut problems);
                            }
                        }
                    }
                }
                // no inputs from non-predecessors
                for q in s.blocks().iter().map(|x| x.index()) {
                    if !preds.contains(&q) && phi.incoming_scalar(q).is_some() {
                        problems.push(format!("phi {} in block {} has an input for non-predecessor {}", phi.out(), b.index(), q));
                    }
                }
                if phi.entry_scalar().is_some() != (b.index() == entry) {
                    problems.push(format!("phi {} in block {}: entry input present = {}", phi.out(), b.index(), phi.entry_scalar().is_some()));
                }
            }
        }
        ctx.eval();
        if !problems.is_empty() {
            let kind = if problems.iter().any(|p| p.contains("does not dominate")) {
                "use_not_dominated"
            } else if problems.iter().any(|p| p.contains("never defined")) {
                "use_of_undefined_version"
            } else {
                "phi_shape"
            };
            ctx.violation(&format!("validity:{}:{}", kind, tag), json!({"function": fj(), "ssa": sj(), "problems": problems}));
            return;
        }
        // ---- (vi) differential execution
        let gs = ilgen::Gen { f: s.clone(), pool: g.pool.clone(), addr_base: g.addr_base };
        let mut guard_only = false;
        for _run in 0..6 {
            let r0 = rng.clone();
            let mut ma = match init_machine(rng, g, false) {
                Some(m) => m,
                None => return,
            };
            let mut r2 = r0;
            let mut mb = init_machine(&mut r2, &gs, true).unwrap();
            if let Err(e) = mb.enter(&s) {
                ctx.violation(&format!("exec:phi_at_entry_fault:{}", tag), json!({"function": fj(), "ssa": sj(), "fault": format!("{:?}", e)}));
                return;
            }
            let mut trail: Vec<String> = Vec::new();
            for stepno in 0..200 {
                let (la, lb) = (ma.loc.clone(), mb.loc.clone());
                trail.push(loc_str(&la));
                if trail.len() > 12 {
                    trail.remove(0);
                }
                ctx.eval();
                let detail = |what: String| json!({"function": fj(), "ssa": sj(), "step": stepno, "trail": trail, "what": what});
                if la != lb {
                    ctx.violation(&format!("exec:path_differs:{}", tag), detail(format!("original at {}, ssa at {}", loc_str(&la), loc_str(&lb))));
                    return;
                }
                let (ea, eb) = (ma.events.len(), mb.events.len());
                let oa = ma.step(f);
                let ob = mb.step(&s);
                let na: Vec<&Event> = ma.events[ea..].iter().collect();
                let nb: Vec<&Event> = mb.events[eb..].iter().collect();
                if na != nb {
                    ctx.violation(&format!("exec:events_differ:{}", tag), detail(format!("original {:?} ssa {:?}", na, nb)));
                    return;
                }
                // the value written by the instruction
                match (&ma.last_write, &mb.last_write) {
                    (None, None) => {}
                    (Some((ka, va)), Some((kb, vb))) if ka.0 == kb.0 && va == vb => {}
                    (a, b) => {
                        if !matches!((&oa, &ob), (StepOut::Fault(_), StepOut::Fault(_))) {
                            ctx.violation(&format!("exec:written_value_differs:{}", tag), detail(format!("original wrote {:?}, ssa wrote {:?}", a.as_ref().map(|x| (&x.0 .0, x.1.hex())), b.as_ref().map(|x| (&x.0, x.1.hex())))));
                            return;
                        }
                    }
                }
                match (&oa, &ob) {
                    (StepOut::Moved, StepOut::Moved) => {}
                    (StepOut::Terminal, StepOut::Terminal) => break,
                    (StepOut::Branched(x), StepOut::Branched(y)) if x == y => break,
                    (StepOut::Fault(x), StepOut::Fault(y)) if x.kind() == y.kind() => break,
                    (a, b) => {
                        ctx.violation(&format!("exec:outcome_differs:{}", tag), detail(format!("original {:?}, ssa {:?}", a, b)));
                        return;
                    }
                }
            }
        }
        // classification
        {
            // a scalar read by some edge guard but by no instruction
            let mut instr_reads: BTreeSet<String> = BTreeSet::new();
            let mut guard_reads: BTreeSet<String> = BTreeSet::new();
            for b in f.blocks() {
                for i in b.instructions() {
                    for r in i.scalars_read().unwrap_or_default() {
                        instr_reads.insert(r.name().to_string());
                    }
                }
            }
            for e in f.edges() {
                if let Some(c) = e.condition() {
                    for r in c.scalars() {
                        guard_reads.insert(r.name().to_string());
                    }
                }
            }
            if guard_reads.difference(&instr_reads).next().is_some() {
                guard_only = true;
            }
        }
        let entry_in_loop = !bg.preds(entry).is_empty();
        ctx.class(&format!(
            "b{}/phi{}{}{}{}",
            f.blocks().len().min(8),
            n_phi.min(6),
            if entry_in_loop {"/entry_in_loop"} else {""},
            if reach.len() != bg.v.len() {"/unreachable"} else {""},
            if guard_only {"/guard_only_scalar"} else {""}
        ));
        if n_phi > 0 && ctx.want_sample() {
            ctx.sample(json!({"function": fj(), "ssa": sj()}));
        }
    }
}

impl Check for C10 {
    fn directed(&self) -> u64 {
        1
    }
    fn run(&mut self, ctx: &mut Ctx, rng: &mut Rng, case: u64) {
        use falcon::il;
        if case == 0 {
            // x assigned on both branches, read only by a later edge guard
            let mut cfg = il::ControlFlowGraph::new();
            cfg.new_block().unwrap().nop();
            cfg.new_block().unwrap().assign(il::scalar("s0", 1), il::expr_const(1, 1));
            cfg.new_block().unwrap().assign(il::scalar("s0", 1), il::expr_const(0, 1));
            cfg.new_block().unwrap().nop();
            cfg.new_block().unwrap().assign(il::scalar("s1", 8), il::expr_const(1, 8));
            cfg.new_block().unwrap().assign(il::scalar("s1", 8), il::expr_const(2, 8));
            let c = il::expr_scalar("s2", 1);
            cfg.conditional_edge(0, 1, c.clone()).unwrap();
            cfg.conditional_edge(0, 2, ilgen::not1(&c)).unwrap();
            cfg.unconditional_edge(1, 3).unwrap();
            cfg.unconditional_edge(2, 3).unwrap();
            let d = il::expr_scalar("s0", 1);
            cfg.conditional_edge(3, 4, d.clone()).unwrap();
            cfg.conditional_edge(3, 5, ilgen::not1(&d)).unwrap();
            cfg.set_entry(0).unwrap();
            cfg.set_exit(5).unwrap();
            let g = ilgen::Gen { f: Function::new(0x1000, cfg), pool: vec![il::scalar("s0", 1), il::scalar("s1", 8), il::scalar("s2", 1)], addr_base: 0x1000 };
            for _ in 0..3 {
                self.check(ctx, rng, &g, "directed");
            }
            return;
        }
        let all_reachable = !rng.chance(1, 5);
        let o = GenOpts {
            max_blocks: 8,
            max_instrs: 4,
            all_reachable,
            intrinsics: rng.chance(1, 3),
            indirect_branches: rng.chance(1, 5),
            memory: true,
            expr_depth: 2,
            ..GenOpts::default()
        };
        let g = ilgen::generate(rng, &o);
        self.check(ctx, rng, &g, if all_reachable { "rnd" } else { "with_unreachable_blocks" });
    }
}
