//! C13 — Constant propagation never reports a value an execution contradicts.
//!
//! Monitor: executions in the reference interpreter with an "assigned by this
//! function" shadow; before each executed location every reported constant of an
//! assigned scalar must equal the concrete value, and Constants::eval of operand
//! and random expressions must decline or give the concrete value.

use crate::c12::init_machine;
use crate::fw::*;
use crate::ilgen::{self, GenOpts};
use crate::locgraph::loc_str;
use crate::refeval::Bv;
use crate::refinterp::StepOut;
use falcon::analysis::constants::{constants, Constants};
use falcon::il::{Expression, Function, FunctionLocation as Loc, Operation, ProgramLocation};
use serde_json::json;
use std::collections::BTreeMap;

pub struct C13 {}
impl C13 {
    pub fn new(_t: Tier) -> C13 {
        C13 {}
    }
}

fn operand_exprs(f: &Function, l: &Loc) -> Vec<Expression> {
    match l {
        Loc::Instruction(b, i) => match f.block(*b).unwrap().instruction(*i).unwrap().operation() {
            Operation::Assign { src, .. } => vec![src.clone()],
            Operation::Load { index, .. } => vec![index.clone()],
            Operation::Store { index, src } => vec![index.clone(), src.clone()],
            Operation::Branch { target } => vec![target.clone()],
            _ => vec![],
        },
        Loc::Edge(h, t) => f.edge(*h, *t).ok().and_then(|e| e.condition().cloned()).into_iter().collect(),
        Loc::EmptyBlock(_) => vec![],
    }
}

impl C13 {
    fn check(&self, ctx: &mut Ctx, rng: &mut Rng, g: &ilgen::Gen, must_complete: bool, tag: &str) {
        let f = &g.f;
        let fj = || ilgen::describe(f);
        ctx.trace(|| format!("function {}", fj()));
        let r = guard(|| constants(f));
        ctx.eval();
        let cs: BTreeMap<Loc, Constants> = match r {
            Err(p) => {
                ctx.panic_violation(&format!("constants:{}", tag), &p, fj());
                return;
            }
            Ok(Err(e)) => {
                if must_complete {
                    ctx.violation(&format!("constants:error_on_def_before_use_function:{}", tag), json!({"function": fj(), "error": format!("{:?}", e)}));
                } else {
                    ctx.count(&format!("constants_declined.{}", format!("{:?}", e).split('(').next().unwrap()));
                }
                return;
            }
            Ok(Ok(m)) => m.into_iter().map(|(k, v): (ProgramLocation, Constants)| (k.function_location().clone(), v)).collect(),
        };
        let mut reported = 0u64;
        let mut derived = 0u64;
        let mut calls_returned = 0u64;
        for _run in 0..6 {
            let mut m = match init_machine(rng, g, false) {
                Some(m) => m,
                None => return,
            };
            let mut trail: Vec<String> = Vec::new();
            for _ in 0..150 {
                let l = m.loc.clone();
                trail.push(loc_str(&l));
                if trail.len() > 12 {
                    trail.remove(0);
                }
                let c = match cs.get(&l) {
                    Some(c) => c,
                    None => {
                        ctx.violation(&format!("constants:no_entry_for_executed_location:{}", tag), json!({"function": fj(), "at": loc_str(&l)}));
                        return;
                    }
                };
                for s in &g.pool {
                    if let Some(k) = c.scalar(s) {
                        let key = (s.name().to_string(), None);
                        if !m.assigned.contains(&key) {
                            ctx.count("constant_for_unassigned_scalar(not judged)");
                            continue;
                        }
                        ctx.eval();
                        reported += 1;
                        let v = m.get(s.name()).unwrap();
                        if v.bits != k.bits() || &v.v != k.value() {
                            ctx.violation(
                                &format!("scalar:contradicted:{}", tag),
                                json!({"function": fj(), "at": loc_str(&l), "scalar": format!("{}", s), "reported": format!("{}", k), "concrete": v.hex(), "trail": trail}),
                            );
                            return;
                        }
                    }
                }
                // expressions: operands here plus a few random ones
                let mut exprs = operand_exprs(f, &l);
                if rng.chance(1, 4) {
                    let w = g.pool[rng.usize(g.pool.len())].bits();
                    exprs.push(ilgen::gen_expr(rng, w, 2, &g.pool, false));
                }
                for e in exprs {
                    if !e.scalars().iter().all(|s| m.assigned.contains(&(s.name().to_string(), None))) {
                        continue;
                    }
                    let concrete = match m.eval(&e) {
                        Ok(v) => v,
                        Err(_) => continue,
                    };
                    let got = guard(|| c.eval(&e));
                    ctx.eval();
                    match got {
                        Err(p) => {
                            ctx.panic_violation("Constants::eval", &p, json!({"function": fj(), "expression": format!("{}", e)}));
                            return;
                        }
                        Ok(None) => {}
                        Ok(Some(k)) => {
                            derived += 1;
                            if k.bits() != concrete.bits || k.value() != &concrete.v {
                                ctx.violation(
                                    &format!("eval:contradicted:{}", tag),
                                    json!({"function": fj(), "at": loc_str(&l), "expression": format!("{}", e), "reported": format!("{}", k), "concrete": concrete.hex(), "trail": trail}),
                                );
                                return;
                            }
                        }
                    }
                }
                match m.step(f) {
                    StepOut::Moved => {}
                    StepOut::Branched(_) => {
                        // a Branch with more of its block behind it is a call: the callee changes whatever it likes
                        // (here: up to three scalars of the pool, values only - what "this function has assigned" stays
                        // as it was) and returns to the next instruction
                        let next = match &l {
                            Loc::Instruction(b, i) => f.block(*b).ok().and_then(|blk| {
                                let pos = blk.instructions().iter().position(|x| x.index() == *i)?;
                                blk.instructions().get(pos + 1).map(|n| Loc::Instruction(*b, n.index()))
                            }),
                            _ => None,
                        };
                        match next {
                            Some(n) => {
                                for _ in 0..rng.below(4) {
                                    let s = &g.pool[rng.usize(g.pool.len())];
                                    m.scalars.insert((s.name().to_string(), None), Bv::new(rng.corner_big(s.bits()), s.bits()));
                                }
                                m.continue_at(n);
                                calls_returned += 1;
                            }
                            None => break,
                        }
                    }
                    _ => break,
                }
            }
        }
        let has_loop = f.edges().iter().any(|e| e.tail() <= e.head());
        ctx.class(&format!(
            "{}/b{}/{}{}{}",
            tag,
            f.blocks().len().min(8),
            if has_loop {"backedge"} else {"forward_only"},
            if reported > 0 {"/reported"} else {""},
            if derived > 0 {"/derived"} else {""}
        ));
        ctx.count_n("reported_constants_checked", reported);
        ctx.count_n("derived_constants_checked", derived);
        ctx.count_n("calls_returned_from", calls_returned);
        if reported > 0 && ctx.want_sample() {
            ctx.sample(fj());
        }
    }
}

impl Check for C13 {
    fn directed(&self) -> u64 {
        1
    }
    fn run(&mut self, ctx: &mut Ctx, rng: &mut Rng, case: u64) {
        use falcon::il;
        if case == 0 {
            // x = 5 on one path, untouched on the other; z = x + 1 after the join
            let mut cfg = il::ControlFlowGraph::new();
            cfg.new_block().unwrap().assign(il::scalar("s1", 32), il::expr_const(0, 32));
            cfg.new_block().unwrap().assign(il::scalar("s0", 32), il::expr_const(5, 32));
            cfg.new_block().unwrap().nop();
            cfg.new_block().unwrap().assign(il::scalar("s1", 32), il::Expression::add(il::expr_scalar("s0", 32), il::expr_const(1, 32)).unwrap());
            let c = il::expr_scalar("s2", 1);
            cfg.conditional_edge(0, 1, c.clone()).unwrap();
            cfg.conditional_edge(0, 2, ilgen::not1(&c)).unwrap();
            cfg.unconditional_edge(1, 3).unwrap();
            cfg.unconditional_edge(2, 3).unwrap();
            cfg.new_block().unwrap().nop();
            cfg.unconditional_edge(3, 4).unwrap();
            cfg.set_entry(0).unwrap();
            cfg.set_exit(4).unwrap();
            let g = ilgen::Gen { f: Function::new(0x1000, cfg), pool: vec![il::scalar("s0", 32), il::scalar("s1", 32), il::scalar("s2", 1)], addr_base: 0x1000 };
            for _ in 0..4 {
                self.check(ctx, rng, &g, false, "directed");
            }
            return;
        }
        let def_before_use = rng.bool();
        let all_reachable = !rng.chance(1, 8);
        let o = GenOpts {
            max_blocks: 7,
            max_instrs: 4,
            all_reachable,
            def_before_use,
            intrinsics: rng.bool(),
            indirect_branches: rng.chance(1, 4),
            calls: rng.chance(1, 3),
            // divisions whose divisor may be a known zero: the analysis must still complete
            divisions: rng.bool(),
            memory: true,
            expr_depth: 2,
            ..GenOpts::default()
        };
        let g = ilgen::generate(rng, &o);
        let tag = match (def_before_use, all_reachable) {
            (true, true) => "def_before_use",
            (true, false) => "def_before_use+unreachable_blocks",
            (false, true) => "unrestricted",
            (false, false) => "unrestricted+unreachable_blocks",
        };
        self.check(ctx, rng, &g, def_before_use, tag);
    }
}
