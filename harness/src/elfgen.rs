//! `elfgen` -- writes well-formed ELF files from a declarative description
//! (the inverse of an ELF parser).  std-only.
//!
//! # File layout produced by [`build`]
//!
//! ```text
//!   ELF header
//!   program header table        (PT_INTERP?, PT_LOAD per caller segment, PT_LOAD(meta)?, PT_DYNAMIC?)
//!   caller segment 0 file bytes  (p_offset chosen so that p_offset == p_vaddr mod p_align)
//!   caller segment 1 file bytes
//!   (one extra PT_LOAD, "meta")  .interp .hash .dynsym .dynstr .rel[a].dyn .rel[a].plt .dynamic
//!   .symtab .strtab .shstrtab    (not loaded)
//!   section header table
//! ```
//!
//! # Documented behaviour / limitations
//!
//! * `.symtab` is **stably reordered** so that all `STB_LOCAL` symbols precede
//!   all non-local ones (`sh_info` = 1 + number of locals).  Use
//!   [`symtab_order`] to obtain the emitted order.  `.dynsym` is **never**
//!   reordered (because `RelocSpec::sym` indexes into it); its `sh_info` is the
//!   index of the first non-local entry.
//! * An empty `symtab` omits `.symtab` and `.strtab` completely (a stripped
//!   binary).
//! * The metadata segment exists iff any of dynsyms / needed / soname /
//!   dyn_relocs / plt_relocs / extra_dynamic / interp is non-empty.  If *only*
//!   `interp` is set, the metadata segment holds just `.interp` and there is
//!   no `.dynamic` / PT_DYNAMIC.  Otherwise `.hash .dynsym .dynstr .dynamic`
//!   are always present (`.dynsym` then has at least the null symbol), and each
//!   of `.rel[a].dyn` / `.rel[a].plt` is present iff its reloc list is non-empty.
//! * In ELFCLASS32 all 64-bit quantities are truncated to 32 bits; REL/RELA
//!   `r_info` is `sym << 8 | (rtype & 0xff)`; addends are truncated to i32.
//!   In ELFCLASS64 `r_info` is `sym << 32 | rtype` (no MIPS64 packing).
//! * `defined && !abs` symbols get `st_shndx` = index of the first
//!   SHT_PROGBITS `.segN` section; if there is none, the first `.segN`
//!   section (NOBITS); if there are no segments at all, `SHN_ABS`.
//! * Names must not contain NUL bytes.  Identical strings are shared inside a
//!   string table; the empty name maps to offset 0.
//! * `e_flags` is always 0, `EI_OSABI` is 0, `st_other` is 0.
//! * No PT_PHDR, PT_GNU_STACK, PT_NOTE.

use std::collections::HashMap;

#[derive(Clone, Debug, PartialEq, Eq)]
pub struct SegSpec {
    pub vaddr: u64,
    /// p_filesz bytes
    pub data: Vec<u8>,
    /// >= data.len()
    pub memsz: u64,
    pub r: bool,
    pub w: bool,
    pub x: bool,
}

#[derive(Clone, Debug, PartialEq, Eq)]
pub struct SymSpec {
    pub name: String,
    pub value: u64,
    pub size: u64,
    pub stype: u8,
    pub bind: u8,
    pub defined: bool,
    pub abs: bool,
}

#[derive(Clone, Debug, PartialEq, Eq)]
pub struct RelocSpec {
    pub offset: u64,
    /// index into the final .dynsym INCLUDING the null symbol at 0
    pub sym: u32,
    pub rtype: u32,
    /// only written for RELA
    pub addend: i64,
}

#[derive(Clone, Debug, PartialEq, Eq)]
pub struct ElfSpec {
    pub class64: bool,
    pub big_endian: bool,
    pub machine: u16,
    pub etype: u16,
    pub entry: u64,
    pub segments: Vec<SegSpec>,
    pub symtab: Vec<SymSpec>,
    pub dynsyms: Vec<SymSpec>,
    pub needed: Vec<String>,
    pub soname: Option<String>,
    pub interp: Option<String>,
    pub dyn_relocs: Vec<RelocSpec>,
    pub plt_relocs: Vec<RelocSpec>,
    pub use_rela: bool,
    pub extra_dynamic: Vec<(u64, u64)>,
    pub meta_vaddr: u64,
}

#[derive(Clone, Debug, PartialEq, Eq)]
pub struct BuiltElf {
    pub bytes: Vec<u8>,
    /// (vaddr, file bytes, memsz, r, w, x) of every PT_LOAD in program-header order
    pub loads: Vec<(u64, Vec<u8>, u64, bool, bool, bool)>,
    pub dynamic_vaddr: u64,
    pub dynsym_vaddr: u64,
    pub dynstr_vaddr: u64,
    pub reldyn_vaddr: u64,
    pub relplt_vaddr: u64,
}

/// Layout options for [`build_with`].
#[derive(Clone, Debug, PartialEq, Eq)]
pub struct BuildOpts {
    /// `true` (default of [`build`]): every PT_LOAD has `p_align = 0x1000` and
    /// `p_offset == p_vaddr (mod 0x1000)` like a real linker would produce.
    /// `false`: segments are packed tightly, `p_align = 16` and
    /// `p_offset == p_vaddr (mod 16)` -- much smaller files.
    pub page_congruent: bool,
    /// added to p_vaddr to give the p_paddr of every PT_LOAD (0: the usual p_paddr == p_vaddr). The physical address
    /// is 'unspecified' for System V and means a load address on firmware images; a loader maps at p_vaddr.
    pub paddr_delta: u64,
}

// ---- constants -----------------------------------------------------------
pub const PT_LOAD: u32 = 1;
pub const PT_DYNAMIC: u32 = 2;
pub const PT_INTERP: u32 = 3;
pub const PF_X: u32 = 1;
pub const PF_W: u32 = 2;
pub const PF_R: u32 = 4;

pub const SHT_PROGBITS: u32 = 1;
pub const SHT_SYMTAB: u32 = 2;
pub const SHT_STRTAB: u32 = 3;
pub const SHT_RELA: u32 = 4;
pub const SHT_HASH: u32 = 5;
pub const SHT_DYNAMIC: u32 = 6;
pub const SHT_NOBITS: u32 = 8;
pub const SHT_REL: u32 = 9;
pub const SHT_DYNSYM: u32 = 11;
pub const SHF_WRITE: u64 = 1;
pub const SHF_ALLOC: u64 = 2;
pub const SHF_EXECINSTR: u64 = 4;
pub const SHN_ABS: u16 = 0xfff1;
pub const STB_LOCAL: u8 = 0;

pub const DT_NULL: u64 = 0;
pub const DT_NEEDED: u64 = 1;
pub const DT_PLTRELSZ: u64 = 2;
pub const DT_HASH: u64 = 4;
pub const DT_STRTAB: u64 = 5;
pub const DT_SYMTAB: u64 = 6;
pub const DT_RELA: u64 = 7;
pub const DT_RELASZ: u64 = 8;
pub const DT_RELAENT: u64 = 9;
pub const DT_STRSZ: u64 = 10;
pub const DT_SYMENT: u64 = 11;
pub const DT_SONAME: u64 = 14;
pub const DT_REL: u64 = 17;
pub const DT_RELSZ: u64 = 18;
pub const DT_RELENT: u64 = 19;
pub const DT_PLTREL: u64 = 20;
pub const DT_JMPREL: u64 = 23;

// ---- little writer -------------------------------------------------------
struct W {
    be: bool,
    c64: bool,
    buf: Vec<u8>,
}

impl W {
    fn new(be: bool, c64: bool) -> W {
        W { be, c64, buf: Vec::new() }
    }
    fn len(&self) -> u64 {
        self.buf.len() as u64
    }
    fn u8(&mut self, v: u8) {
        self.buf.push(v);
    }
    fn u16(&mut self, v: u16) {
        if self.be { self.buf.extend_from_slice(&v.to_be_bytes()) } else { self.buf.extend_from_slice(&v.to_le_bytes()) }
    }
    fn u32(&mut self, v: u32) {
        if self.be { self.buf.extend_from_slice(&v.to_be_bytes()) } else { self.buf.extend_from_slice(&v.to_le_bytes()) }
    }
    fn u64(&mut self, v: u64) {
        if self.be { self.buf.extend_from_slice(&v.to_be_bytes()) } else { self.buf.extend_from_slice(&v.to_le_bytes()) }
    }
    /// address-sized word (truncating in 32-bit class)
    fn word(&mut self, v: u64) {
        if self.c64 { self.u64(v) } else { self.u32(v as u32) }
    }
    fn bytes(&mut self, b: &[u8]) {
        self.buf.extend_from_slice(b);
    }
    fn pad_to(&mut self, off: u64) {
        assert!(off >= self.len(), "elfgen internal: pad_to going backwards");
        self.buf.resize(off as usize, 0);
    }
}

/// string table builder (shares identical strings, "" -> 0)
struct StrTab {
    bytes: Vec<u8>,
    seen: HashMap<String, u32>,
}

impl StrTab {
    fn new() -> StrTab {
        StrTab { bytes: vec![0], seen: HashMap::new() }
    }
    fn add(&mut self, s: &str) -> u32 {
        if s.is_empty() {
            return 0;
        }
        assert!(!s.as_bytes().contains(&0), "elfgen: NUL byte in name");
        if let Some(&o) = self.seen.get(s) {
            return o;
        }
        let o = self.bytes.len() as u32;
        self.bytes.extend_from_slice(s.as_bytes());
        self.bytes.push(0);
        self.seen.insert(s.to_string(), o);
        o
    }
}

/// The classic SysV ELF hash function.
pub fn sysv_hash(name: &[u8]) -> u32 {
    let mut h: u32 = 0;
    for &c in name {
        h = (h << 4).wrapping_add(c as u32);
        let g = h & 0xf000_0000;
        if g != 0 {
            h ^= g >> 24;
        }
        h &= !g;
    }
    h
}

/// Indices into `syms` in the order in which they are emitted to `.symtab`
/// (after the null symbol): all STB_LOCAL first, then the rest, both stable.
pub fn symtab_order(syms: &[SymSpec]) -> Vec<usize> {
    let mut v: Vec<usize> = (0..syms.len()).filter(|&i| syms[i].bind == STB_LOCAL).collect();
    v.extend((0..syms.len()).filter(|&i| syms[i].bind != STB_LOCAL));
    v
}

/// smallest `off >= cur` with `off == vaddr (mod modulus)`; modulus is a power of two
fn place(cur: u64, vaddr: u64, modulus: u64) -> u64 {
    let want = vaddr & (modulus - 1);
    let have = cur & (modulus - 1);
    cur + (want.wrapping_sub(have) & (modulus - 1))
}

fn align_up(v: u64, a: u64) -> u64 {
    (v + (a - 1)) & !(a - 1)
}

struct Shdr {
    name: String,
    stype: u32,
    flags: u64,
    addr: u64,
    offset: u64,
    size: u64,
    link: u32,
    info: u32,
    addralign: u64,
    entsize: u64,
}

struct Phdr {
    ptype: u32,
    flags: u32,
    offset: u64,
    vaddr: u64,
    filesz: u64,
    memsz: u64,
    align: u64,
}

fn write_sym(w: &mut W, name: u32, s: &SymSpec, shndx: u16) {
    let info = (s.bind << 4) | (s.stype & 0xf);
    if w.c64 {
        w.u32(name);
        w.u8(info);
        w.u8(0);
        w.u16(shndx);
        w.u64(s.value);
        w.u64(s.size);
    } else {
        w.u32(name);
        w.u32(s.value as u32);
        w.u32(s.size as u32);
        w.u8(info);
        w.u8(0);
        w.u16(shndx);
    }
}

fn write_null_sym(w: &mut W) {
    let n = if w.c64 { 24 } else { 16 };
    for _ in 0..n {
        w.u8(0);
    }
}

fn write_relocs(w: &mut W, rels: &[RelocSpec], rela: bool) {
    for r in rels {
        w.word(r.offset);
        if w.c64 {
            w.u64(((r.sym as u64) << 32) | r.rtype as u64);
            if rela {
                w.u64(r.addend as u64);
            }
        } else {
            w.u32((r.sym << 8) | (r.rtype & 0xff));
            if rela {
                w.u32(r.addend as i32 as u32);
            }
        }
    }
}

pub fn build(spec: &ElfSpec) -> BuiltElf {
    build_with(spec, &BuildOpts { page_congruent: true, paddr_delta: 0 })
}

pub fn build_with(spec: &ElfSpec, opts: &BuildOpts) -> BuiltElf {
    let c64 = spec.class64;
    let be = spec.big_endian;
    let word: u64 = if c64 { 8 } else { 4 };
    let ehsize: u64 = if c64 { 64 } else { 52 };
    let phentsize: u64 = if c64 { 56 } else { 32 };
    let shentsize: u64 = if c64 { 64 } else { 40 };
    let symsize: u64 = if c64 { 24 } else { 16 };
    let relsize: u64 = match (c64, spec.use_rela) {
        (true, true) => 24,
        (true, false) => 16,
        (false, true) => 12,
        (false, false) => 8,
    };
    let dynsize: u64 = 2 * word;
    let modulus: u64 = if opts.page_congruent { 0x1000 } else { 16 };

    for s in &spec.segments {
        assert!(s.memsz >= s.data.len() as u64, "elfgen: memsz < filesz");
    }

    let has_dynamic = !spec.dynsyms.is_empty()
        || !spec.needed.is_empty()
        || spec.soname.is_some()
        || !spec.dyn_relocs.is_empty()
        || !spec.plt_relocs.is_empty()
        || !spec.extra_dynamic.is_empty();
    let has_meta = has_dynamic || spec.interp.is_some();

    // ---- section index plan ---------------------------------------------
    // 0 null, 1..=nseg .segN, then the meta sections, then symtab/strtab/shstrtab
    let nseg = spec.segments.len();
    let mut next_idx = 1 + nseg as u32;
    let mut take = |present: bool| -> u32 {
        if present {
            next_idx += 1;
            next_idx - 1
        } else {
            0
        }
    };
    let _interp_idx = take(spec.interp.is_some());
    let _hash_idx = take(has_dynamic);
    let dynsym_idx = take(has_dynamic);
    let dynstr_idx = take(has_dynamic);
    let _reldyn_idx = take(has_dynamic && !spec.dyn_relocs.is_empty());
    let _relplt_idx = take(has_dynamic && !spec.plt_relocs.is_empty());
    let _dynamic_idx = take(has_dynamic);
    let _symtab_idx = take(!spec.symtab.is_empty());
    let strtab_idx = take(!spec.symtab.is_empty());
    let shstrtab_idx = take(true);
    let shnum = next_idx;

    let def_shndx: u16 = {
        let first_progbits = spec.segments.iter().position(|s| !s.data.is_empty());
        match first_progbits {
            Some(i) => (i + 1) as u16,
            None if nseg > 0 => 1,
            None => SHN_ABS,
        }
    };
    let shndx_of = |s: &SymSpec| -> u16 {
        if !s.defined {
            0
        } else if s.abs {
            SHN_ABS
        } else {
            def_shndx
        }
    };

    // ---- program header plan --------------------------------------------
    let phnum = (spec.interp.is_some() as u64) + nseg as u64 + (has_meta as u64) + (has_dynamic as u64);
    let phoff = if phnum > 0 { ehsize } else { 0 };
    let mut cur = ehsize + phnum * phentsize;

    let mut phdrs: Vec<Phdr> = Vec::new();
    let mut shdrs: Vec<Shdr> = Vec::new();
    shdrs.push(Shdr { name: String::new(), stype: 0, flags: 0, addr: 0, offset: 0, size: 0, link: 0, info: 0, addralign: 0, entsize: 0 });

    // ---- caller segments ------------------------------------------------
    let mut seg_offsets = Vec::new();
    let mut load_phdrs: Vec<Phdr> = Vec::new();
    let mut loads = Vec::new();
    for (i, s) in spec.segments.iter().enumerate() {
        let off = place(cur, s.vaddr, modulus);
        seg_offsets.push(off);
        cur = off + s.data.len() as u64;
        let flags = (s.r as u32) * PF_R | (s.w as u32) * PF_W | (s.x as u32) * PF_X;
        load_phdrs.push(Phdr { ptype: PT_LOAD, flags, offset: off, vaddr: s.vaddr, filesz: s.data.len() as u64, memsz: s.memsz, align: modulus });
        loads.push((s.vaddr, s.data.clone(), s.memsz, s.r, s.w, s.x));
        let nobits = s.data.is_empty();
        shdrs.push(Shdr {
            name: format!(".seg{}", i),
            stype: if nobits { SHT_NOBITS } else { SHT_PROGBITS },
            flags: SHF_ALLOC | if s.w { SHF_WRITE } else { 0 } | if s.x { SHF_EXECINSTR } else { 0 },
            addr: s.vaddr,
            offset: off,
            size: if nobits { s.memsz } else { s.data.len() as u64 },
            link: 0,
            info: 0,
            addralign: 1,
            entsize: 0,
        });
    }

    // ---- metadata segment -----------------------------------------------
    let mut meta = W::new(be, c64); // contents; meta.buf[0] lives at meta_vaddr
    let mv = spec.meta_vaddr;
    let mut meta_off = 0u64;
    let mut interp_ph: Option<Phdr> = None;
    let mut dynamic_ph: Option<Phdr> = None;
    let (mut dynamic_vaddr, mut dynsym_vaddr, mut dynstr_vaddr, mut reldyn_vaddr, mut relplt_vaddr) = (0u64, 0u64, 0u64, 0u64, 0u64);
    if has_meta {
        meta_off = place(cur, mv, modulus);
        // pad so that (mv + rel) is `a`-aligned; modulus >= 16 >= a keeps the file offset aligned too
        fn pad_align(meta: &mut W, mv: u64, a: u64) {
            let rel = meta.len();
            let target = align_up(mv.wrapping_add(rel), a).wrapping_sub(mv);
            // on wrap-around (absurd meta_vaddr) fall back to no padding
            if target >= rel && target - rel < a {
                meta.pad_to(target);
            }
        }

        if let Some(interp) = &spec.interp {
            assert!(!interp.as_bytes().contains(&0), "elfgen: NUL byte in interp");
            let rel = meta.len();
            meta.bytes(interp.as_bytes());
            meta.u8(0);
            let size = meta.len() - rel;
            interp_ph = Some(Phdr { ptype: PT_INTERP, flags: PF_R, offset: meta_off + rel, vaddr: mv.wrapping_add(rel), filesz: size, memsz: size, align: 1 });
            shdrs.push(Shdr { name: ".interp".into(), stype: SHT_PROGBITS, flags: SHF_ALLOC, addr: mv.wrapping_add(rel), offset: meta_off + rel, size, link: 0, info: 0, addralign: 1, entsize: 0 });
        }

        if has_dynamic {
            // string table first (in memory), emitted later
            let mut dynstr = StrTab::new();
            let sym_names: Vec<u32> = spec.dynsyms.iter().map(|s| dynstr.add(&s.name)).collect();
            let needed_offs: Vec<u32> = spec.needed.iter().map(|s| dynstr.add(s)).collect();
            let soname_off = spec.soname.as_ref().map(|s| dynstr.add(s));

            // .hash
            pad_align(&mut meta, mv, word);
            let hash_rel = meta.len();
            let nchain = spec.dynsyms.len() as u32 + 1;
            let nbucket = std::cmp::max(1, nchain / 2);
            let mut buckets = vec![0u32; nbucket as usize];
            let mut chains = vec![0u32; nchain as usize];
            for (i, s) in spec.dynsyms.iter().enumerate() {
                let idx = i as u32 + 1;
                let b = (sysv_hash(s.name.as_bytes()) % nbucket) as usize;
                chains[idx as usize] = buckets[b];
                buckets[b] = idx;
            }
            meta.u32(nbucket);
            meta.u32(nchain);
            for b in &buckets {
                meta.u32(*b);
            }
            for c in &chains {
                meta.u32(*c);
            }
            let hash_size = meta.len() - hash_rel;
            shdrs.push(Shdr { name: ".hash".into(), stype: SHT_HASH, flags: SHF_ALLOC, addr: mv.wrapping_add(hash_rel), offset: meta_off + hash_rel, size: hash_size, link: dynsym_idx, info: 0, addralign: word, entsize: 4 });

            // .dynsym
            pad_align(&mut meta, mv, word);
            let dynsym_rel = meta.len();
            write_null_sym(&mut meta);
            for (s, n) in spec.dynsyms.iter().zip(&sym_names) {
                write_sym(&mut meta, *n, s, shndx_of(s));
            }
            let first_nonlocal = 1 + spec.dynsyms.iter().take_while(|s| s.bind == STB_LOCAL).count() as u32;
            dynsym_vaddr = mv.wrapping_add(dynsym_rel);
            shdrs.push(Shdr { name: ".dynsym".into(), stype: SHT_DYNSYM, flags: SHF_ALLOC, addr: dynsym_vaddr, offset: meta_off + dynsym_rel, size: meta.len() - dynsym_rel, link: dynstr_idx, info: first_nonlocal, addralign: word, entsize: symsize });

            // .dynstr
            let dynstr_rel = meta.len();
            meta.bytes(&dynstr.bytes);
            let dynstr_size = dynstr.bytes.len() as u64;
            dynstr_vaddr = mv.wrapping_add(dynstr_rel);
            shdrs.push(Shdr { name: ".dynstr".into(), stype: SHT_STRTAB, flags: SHF_ALLOC, addr: dynstr_vaddr, offset: meta_off + dynstr_rel, size: dynstr_size, link: 0, info: 0, addralign: 1, entsize: 0 });

            // .rel[a].dyn / .rel[a].plt
            let rel_type = if spec.use_rela { SHT_RELA } else { SHT_REL };
            let mut reldyn_size = 0;
            if !spec.dyn_relocs.is_empty() {
                pad_align(&mut meta, mv, word);
                let rel = meta.len();
                write_relocs(&mut meta, &spec.dyn_relocs, spec.use_rela);
                reldyn_size = meta.len() - rel;
                reldyn_vaddr = mv.wrapping_add(rel);
                shdrs.push(Shdr { name: if spec.use_rela { ".rela.dyn" } else { ".rel.dyn" }.into(), stype: rel_type, flags: SHF_ALLOC, addr: reldyn_vaddr, offset: meta_off + rel, size: reldyn_size, link: dynsym_idx, info: 0, addralign: word, entsize: relsize });
            }
            let mut relplt_size = 0;
            if !spec.plt_relocs.is_empty() {
                pad_align(&mut meta, mv, word);
                let rel = meta.len();
                write_relocs(&mut meta, &spec.plt_relocs, spec.use_rela);
                relplt_size = meta.len() - rel;
                relplt_vaddr = mv.wrapping_add(rel);
                shdrs.push(Shdr { name: if spec.use_rela { ".rela.plt" } else { ".rel.plt" }.into(), stype: rel_type, flags: SHF_ALLOC, addr: relplt_vaddr, offset: meta_off + rel, size: relplt_size, link: dynsym_idx, info: 0, addralign: word, entsize: relsize });
            }

            // .dynamic
            pad_align(&mut meta, mv, word);
            let dyn_rel = meta.len();
            let mut dyns: Vec<(u64, u64)> = Vec::new();
            for o in &needed_offs {
                dyns.push((DT_NEEDED, *o as u64));
            }
            if let Some(o) = soname_off {
                dyns.push((DT_SONAME, o as u64));
            }
            dyns.push((DT_HASH, mv.wrapping_add(hash_rel)));
            dyns.push((DT_STRTAB, dynstr_vaddr));
            dyns.push((DT_STRSZ, dynstr_size));
            dyns.push((DT_SYMTAB, dynsym_vaddr));
            dyns.push((DT_SYMENT, symsize));
            if !spec.dyn_relocs.is_empty() {
                if spec.use_rela {
                    dyns.push((DT_RELA, reldyn_vaddr));
                    dyns.push((DT_RELASZ, reldyn_size));
                    dyns.push((DT_RELAENT, relsize));
                } else {
                    dyns.push((DT_REL, reldyn_vaddr));
                    dyns.push((DT_RELSZ, reldyn_size));
                    dyns.push((DT_RELENT, relsize));
                }
            }
            if !spec.plt_relocs.is_empty() {
                dyns.push((DT_PLTREL, if spec.use_rela { DT_RELA } else { DT_REL }));
                dyns.push((DT_JMPREL, relplt_vaddr));
                dyns.push((DT_PLTRELSZ, relplt_size));
            }
            dyns.extend(spec.extra_dynamic.iter().cloned());
            dyns.push((DT_NULL, 0));
            for (t, v) in &dyns {
                meta.word(*t);
                meta.word(*v);
            }
            let dyn_size = meta.len() - dyn_rel;
            dynamic_vaddr = mv.wrapping_add(dyn_rel);
            shdrs.push(Shdr { name: ".dynamic".into(), stype: SHT_DYNAMIC, flags: SHF_ALLOC, addr: dynamic_vaddr, offset: meta_off + dyn_rel, size: dyn_size, link: dynstr_idx, info: 0, addralign: word, entsize: dynsize });
            dynamic_ph = Some(Phdr { ptype: PT_DYNAMIC, flags: PF_R, offset: meta_off + dyn_rel, vaddr: dynamic_vaddr, filesz: dyn_size, memsz: dyn_size, align: word });
        }

        let msz = meta.len();
        load_phdrs.push(Phdr { ptype: PT_LOAD, flags: PF_R, offset: meta_off, vaddr: mv, filesz: msz, memsz: msz, align: modulus });
        loads.push((mv, meta.buf.clone(), msz, true, false, false));
        cur = meta_off + msz;
    }

    if let Some(p) = interp_ph {
        phdrs.push(p);
    }
    phdrs.extend(load_phdrs);
    if let Some(p) = dynamic_ph {
        phdrs.push(p);
    }
    assert_eq!(phdrs.len() as u64, phnum);

    // ---- non-loaded tables ----------------------------------------------
    let mut tail = W::new(be, c64); // starts at file offset tail_off
    let tail_off = align_up(cur, 8);
    if !spec.symtab.is_empty() {
        let mut strtab = StrTab::new();
        let order = symtab_order(&spec.symtab);
        let nlocal = spec.symtab.iter().filter(|s| s.bind == STB_LOCAL).count() as u32;
        write_null_sym(&mut tail);
        for &i in &order {
            let s = &spec.symtab[i];
            let n = strtab.add(&s.name);
            write_sym(&mut tail, n, s, shndx_of(s));
        }
        let symtab_size = tail.len();
        shdrs.push(Shdr { name: ".symtab".into(), stype: SHT_SYMTAB, flags: 0, addr: 0, offset: tail_off, size: symtab_size, link: strtab_idx, info: 1 + nlocal, addralign: word, entsize: symsize });
        let so = tail.len();
        tail.bytes(&strtab.bytes);
        shdrs.push(Shdr { name: ".strtab".into(), stype: SHT_STRTAB, flags: 0, addr: 0, offset: tail_off + so, size: strtab.bytes.len() as u64, link: 0, info: 0, addralign: 1, entsize: 0 });
    }
    // .shstrtab
    let mut shstr = StrTab::new();
    let mut name_offs: Vec<u32> = shdrs.iter().map(|s| shstr.add(&s.name)).collect();
    name_offs.push(shstr.add(".shstrtab"));
    let so = tail.len();
    tail.bytes(&shstr.bytes);
    shdrs.push(Shdr { name: ".shstrtab".into(), stype: SHT_STRTAB, flags: 0, addr: 0, offset: tail_off + so, size: shstr.bytes.len() as u64, link: 0, info: 0, addralign: 1, entsize: 0 });
    assert_eq!(shdrs.len() as u32, shnum);
    let shoff = align_up(tail_off + tail.len(), 8);

    // ---- emit -----------------------------------------------------------
    let mut w = W::new(be, c64);
    w.bytes(&[0x7f, b'E', b'L', b'F', if c64 { 2 } else { 1 }, if be { 2 } else { 1 }, 1, 0]);
    w.bytes(&[0u8; 8]);
    w.u16(spec.etype);
    w.u16(spec.machine);
    w.u32(1);
    w.word(spec.entry);
    w.word(phoff);
    w.word(shoff);
    w.u32(0); // e_flags
    w.u16(ehsize as u16);
    w.u16(phentsize as u16);
    w.u16(phnum as u16);
    w.u16(shentsize as u16);
    w.u16(shnum as u16);
    w.u16(shstrtab_idx as u16);
    assert_eq!(w.len(), ehsize);

    for p in &phdrs {
        if c64 {
            w.u32(p.ptype);
            w.u32(p.flags);
            w.u64(p.offset);
            w.u64(p.vaddr);
            w.u64(if p.ptype == PT_LOAD { p.vaddr.wrapping_add(opts.paddr_delta) } else { p.vaddr });
            w.u64(p.filesz);
            w.u64(p.memsz);
            w.u64(p.align);
        } else {
            w.u32(p.ptype);
            w.u32(p.offset as u32);
            w.u32(p.vaddr as u32);
            w.u32(if p.ptype == PT_LOAD { p.vaddr.wrapping_add(opts.paddr_delta) as u32 } else { p.vaddr as u32 });
            w.u32(p.filesz as u32);
            w.u32(p.memsz as u32);
            w.u32(p.flags);
            w.u32(p.align as u32);
        }
    }
    for (s, off) in spec.segments.iter().zip(&seg_offsets) {
        w.pad_to(*off);
        w.bytes(&s.data);
    }
    if has_meta {
        w.pad_to(meta_off);
        w.bytes(&meta.buf);
    }
    w.pad_to(tail_off);
    w.bytes(&tail.buf);
    w.pad_to(shoff);
    for (s, n) in shdrs.iter().zip(&name_offs) {
        w.u32(*n);
        w.u32(s.stype);
        w.word(s.flags);
        w.word(s.addr);
        w.word(s.offset);
        w.word(s.size);
        w.u32(s.link);
        w.u32(s.info);
        w.word(s.addralign);
        w.word(s.entsize);
    }

    BuiltElf { bytes: w.buf, loads, dynamic_vaddr, dynsym_vaddr, dynstr_vaddr, reldyn_vaddr, relplt_vaddr }
}

#[cfg(test)]
mod tests {
    use super::*;
    use goblin::container::Endian;
    use goblin::elf::Elf;

    const EM_386: u16 = 3;
    const EM_MIPS: u16 = 8;
    const EM_PPC: u16 = 20;
    const EM_X86_64: u16 = 62;
    const EM_AARCH64: u16 = 183;

    fn trunc(spec: &ElfSpec, v: u64) -> u64 {
        if spec.class64 { v } else { v as u32 as u64 }
    }

    fn sym(name: &str, value: u64, size: u64, stype: u8, bind: u8, defined: bool, abs: bool) -> SymSpec {
        SymSpec { name: name.into(), value, size, stype, bind, defined, abs }
    }

    fn has_dynamic(spec: &ElfSpec) -> bool {
        !spec.dynsyms.is_empty()
            || !spec.needed.is_empty()
            || spec.soname.is_some()
            || !spec.dyn_relocs.is_empty()
            || !spec.plt_relocs.is_empty()
            || !spec.extra_dynamic.is_empty()
    }

    fn dt(elf: &Elf, tag: u64) -> Option<u64> {
        elf.dynamic.as_ref()?.dyns.iter().find(|d| d.d_tag == tag).map(|d| d.d_val)
    }

    fn check_sym(spec: &ElfSpec, got: &goblin::elf::Sym, name: Option<&str>, want: &SymSpec) {
        assert_eq!(name, Some(want.name.as_str()));
        assert_eq!(got.st_value, trunc(spec, want.value));
        assert_eq!(got.st_size, trunc(spec, want.size));
        assert_eq!(got.st_type(), want.stype);
        assert_eq!(got.st_bind(), want.bind);
        assert_eq!(got.st_other, 0);
        assert_eq!(got.st_shndx == 0, !want.defined, "shndx zero-ness for {}", want.name);
        if want.defined && want.abs {
            assert_eq!(got.st_shndx, SHN_ABS as usize);
        }
    }

    fn check_relocs(spec: &ElfSpec, got: &goblin::elf::RelocSection, want: &[RelocSpec]) {
        assert_eq!(got.len(), want.len());
        for (g, w) in got.iter().zip(want) {
            assert_eq!(g.r_offset, trunc(spec, w.offset));
            assert_eq!(g.r_sym, w.sym as usize);
            if spec.class64 {
                assert_eq!(g.r_type, w.rtype);
            } else {
                assert_eq!(g.r_type, w.rtype & 0xff);
            }
            if spec.use_rela {
                let a = if spec.class64 { w.addend } else { w.addend as i32 as i64 };
                assert_eq!(g.r_addend, Some(a));
            } else {
                assert_eq!(g.r_addend, None);
            }
        }
    }

    /// SysV hash lookup over raw `.hash` bytes, as a dynamic linker would do it.
    fn hash_lookup(elf: &Elf, hash: &[u8], be: bool, name: &str) -> Option<usize> {
        let rd = |i: usize| -> u32 {
            let b = [hash[4 * i], hash[4 * i + 1], hash[4 * i + 2], hash[4 * i + 3]];
            if be { u32::from_be_bytes(b) } else { u32::from_le_bytes(b) }
        };
        let nbucket = rd(0) as usize;
        let nchain = rd(1) as usize;
        assert_eq!(hash.len(), 4 * (2 + nbucket + nchain));
        let mut i = rd(2 + sysv_hash(name.as_bytes()) as usize % nbucket) as usize;
        let mut steps = 0;
        while i != 0 {
            let s = elf.dynsyms.get(i).unwrap();
            if elf.dynstrtab.get_at(s.st_name) == Some(name) {
                return Some(i);
            }
            i = rd(2 + nbucket + i) as usize;
            steps += 1;
            assert!(steps <= nchain, "cycle in hash chain");
        }
        None
    }

    /// Parses `b.bytes` with goblin and checks everything against `spec`.
    fn verify(spec: &ElfSpec, b: &BuiltElf) {
        let elf = Elf::parse(&b.bytes).expect("goblin parse");
        // header
        assert_eq!(elf.is_64, spec.class64);
        assert_eq!(elf.header.e_ident[4], if spec.class64 { 2 } else { 1 });
        assert_eq!(elf.header.endianness().unwrap(), if spec.big_endian { Endian::Big } else { Endian::Little });
        assert_eq!(elf.little_endian, !spec.big_endian);
        assert_eq!(elf.header.e_machine, spec.machine);
        assert_eq!(elf.header.e_type, spec.etype);
        assert_eq!(elf.header.e_entry, trunc(spec, spec.entry));
        assert_eq!(elf.entry, trunc(spec, spec.entry));
        assert_eq!(elf.header.e_version, 1);
        assert_eq!(elf.header.e_phnum as usize, elf.program_headers.len());
        assert_eq!(elf.header.e_shnum as usize, elf.section_headers.len());

        // PT_LOADs
        let pl: Vec<_> = elf.program_headers.iter().filter(|p| p.p_type == PT_LOAD).collect();
        assert_eq!(pl.len(), b.loads.len());
        let hd = has_dynamic(spec);
        let has_meta = hd || spec.interp.is_some();
        assert_eq!(b.loads.len(), spec.segments.len() + has_meta as usize);
        for (p, (vaddr, data, memsz, r, w, x)) in pl.iter().zip(&b.loads) {
            assert_eq!(p.p_vaddr, trunc(spec, *vaddr));
            assert_eq!(p.p_paddr, trunc(spec, *vaddr));
            assert_eq!(p.p_filesz, data.len() as u64);
            assert_eq!(p.p_memsz, *memsz);
            assert_eq!(p.is_read(), *r);
            assert_eq!(p.is_write(), *w);
            assert_eq!(p.is_executable(), *x);
            assert_eq!(p.p_flags & !7, 0);
            assert_eq!(&b.bytes[p.p_offset as usize..(p.p_offset + p.p_filesz) as usize], &data[..]);
            assert!(p.p_align.is_power_of_two());
            assert_eq!(p.p_offset % p.p_align, p.p_vaddr % p.p_align);
        }
        for (s, l) in spec.segments.iter().zip(&b.loads) {
            assert_eq!((s.vaddr, &s.data, s.memsz, s.r, s.w, s.x), (l.0, &l.1, l.2, l.3, l.4, l.5));
        }
        // PT_LOAD file ranges must not overlap headers or each other
        let mut ranges: Vec<(u64, u64)> = pl.iter().filter(|p| p.p_filesz > 0).map(|p| (p.p_offset, p.p_offset + p.p_filesz)).collect();
        ranges.push((0, elf.header.e_ehsize as u64 + elf.header.e_phnum as u64 * elf.header.e_phentsize as u64));
        ranges.push((elf.header.e_shoff, b.bytes.len() as u64));
        ranges.sort();
        for w in ranges.windows(2) {
            assert!(w[0].1 <= w[1].0, "overlapping file ranges {:x?}", ranges);
        }
        assert_eq!(elf.header.e_shoff + elf.header.e_shnum as u64 * elf.header.e_shentsize as u64, b.bytes.len() as u64);

        // sections for segments
        for (i, s) in spec.segments.iter().enumerate() {
            let sh = &elf.section_headers[i + 1];
            assert_eq!(elf.shdr_strtab.get_at(sh.sh_name), Some(format!(".seg{}", i).as_str()));
            assert_eq!(sh.sh_addr, trunc(spec, s.vaddr));
            assert_eq!(sh.sh_type, if s.data.is_empty() { SHT_NOBITS } else { SHT_PROGBITS });
            assert_eq!(sh.sh_flags & SHF_ALLOC, SHF_ALLOC);
            assert_eq!(sh.sh_flags & SHF_WRITE != 0, s.w);
            assert_eq!(sh.sh_flags & SHF_EXECINSTR != 0, s.x);
            if !s.data.is_empty() {
                assert_eq!(sh.sh_size, s.data.len() as u64);
                assert_eq!(&b.bytes[sh.sh_offset as usize..(sh.sh_offset + sh.sh_size) as usize], &s.data[..]);
            }
        }
        let last = elf.section_headers.last().unwrap();
        assert_eq!(elf.shdr_strtab.get_at(last.sh_name), Some(".shstrtab"));
        for sh in &elf.section_headers {
            assert!(elf.shdr_strtab.get_at(sh.sh_name).is_some());
            sh.check_size(b.bytes.len()).unwrap();
        }

        // .symtab
        if spec.symtab.is_empty() {
            assert_eq!(elf.syms.len(), 0);
            assert!(!elf.section_headers.iter().any(|s| s.sh_type == SHT_SYMTAB));
        } else {
            assert_eq!(elf.syms.len(), spec.symtab.len() + 1);
            let null = elf.syms.get(0).unwrap();
            assert_eq!((null.st_name, null.st_info, null.st_shndx, null.st_value, null.st_size), (0, 0, 0, 0, 0));
            let order = symtab_order(&spec.symtab);
            for (k, &i) in order.iter().enumerate() {
                let g = elf.syms.get(k + 1).unwrap();
                check_sym(spec, &g, elf.strtab.get_at(g.st_name), &spec.symtab[i]);
                if g.st_shndx != 0 && g.st_shndx != SHN_ABS as usize {
                    assert!(g.st_shndx < elf.section_headers.len());
                    assert!(g.st_shndx <= spec.segments.len());
                }
            }
            let sh = elf.section_headers.iter().find(|s| s.sh_type == SHT_SYMTAB).unwrap();
            let info = sh.sh_info as usize;
            for k in 1..elf.syms.len() {
                assert_eq!(elf.syms.get(k).unwrap().st_bind() == STB_LOCAL, k < info, "locals precede globals");
            }
            assert_eq!(elf.section_headers[sh.sh_link as usize].sh_type, SHT_STRTAB);
        }

        assert_eq!(elf.interpreter, spec.interp.as_deref());
        if let Some(i) = &spec.interp {
            let sh = elf.section_headers.iter().find(|s| elf.shdr_strtab.get_at(s.sh_name) == Some(".interp")).unwrap();
            assert_eq!(sh.sh_size as usize, i.len() + 1);
            let ph = elf.program_headers.iter().find(|p| p.p_type == PT_INTERP).unwrap();
            assert_eq!((ph.p_offset, ph.p_vaddr, ph.p_filesz), (sh.sh_offset, sh.sh_addr, sh.sh_size));
        }

        if !hd {
            assert!(elf.dynamic.is_none());
            assert_eq!(elf.dynsyms.len(), 0);
            assert!(elf.libraries.is_empty());
            assert_eq!((b.dynamic_vaddr, b.dynsym_vaddr, b.dynstr_vaddr, b.reldyn_vaddr, b.relplt_vaddr), (0, 0, 0, 0, 0));
            return;
        }

        // dynamic
        let dynamic = elf.dynamic.as_ref().expect("dynamic");
        assert_eq!(dynamic.dyns.last().unwrap().d_tag, DT_NULL);
        assert_eq!(dynamic.dyns.iter().filter(|d| d.d_tag == DT_NULL).count(), 1);
        let symsize = if spec.class64 { 24 } else { 16 };
        assert_eq!(dt(&elf, DT_SYMENT), Some(symsize));
        assert_eq!(dt(&elf, DT_SYMTAB), Some(trunc(spec, b.dynsym_vaddr)));
        assert_eq!(dt(&elf, DT_STRTAB), Some(trunc(spec, b.dynstr_vaddr)));
        assert!(dt(&elf, DT_HASH).is_some());
        assert!(dt(&elf, DT_STRSZ).is_some());
        let relsize: u64 = match (spec.class64, spec.use_rela) { (true, true) => 24, (true, false) => 16, (false, true) => 12, (false, false) => 8 };
        let (t_rel, t_sz, t_ent) = if spec.use_rela { (DT_RELA, DT_RELASZ, DT_RELAENT) } else { (DT_REL, DT_RELSZ, DT_RELENT) };
        let (o_rel, o_sz, o_ent) = if !spec.use_rela { (DT_RELA, DT_RELASZ, DT_RELAENT) } else { (DT_REL, DT_RELSZ, DT_RELENT) };
        let user_has = |t: u64| spec.extra_dynamic.iter().any(|e| e.0 == t);
        for t in [o_rel, o_sz, o_ent] {
            if !user_has(t) { assert_eq!(dt(&elf, t), None); }
        }
        if spec.dyn_relocs.is_empty() {
            for t in [t_rel, t_sz, t_ent] {
                if !user_has(t) { assert_eq!(dt(&elf, t), None); }
            }
            assert_eq!(b.reldyn_vaddr, 0);
        } else {
            assert_eq!(dt(&elf, t_rel), Some(trunc(spec, b.reldyn_vaddr)));
            assert_eq!(dt(&elf, t_sz), Some(relsize * spec.dyn_relocs.len() as u64));
            assert_eq!(dt(&elf, t_ent), Some(relsize));
        }
        if spec.plt_relocs.is_empty() {
            assert_eq!(b.relplt_vaddr, 0);
            assert_eq!(dt(&elf, DT_JMPREL), None);
        } else {
            assert_eq!(dt(&elf, DT_PLTREL), Some(if spec.use_rela { 7 } else { 17 }));
            assert_eq!(dt(&elf, DT_JMPREL), Some(trunc(spec, b.relplt_vaddr)));
            assert_eq!(dt(&elf, DT_PLTRELSZ), Some(relsize * spec.plt_relocs.len() as u64));
        }
        // order: NEEDED* first, extra verbatim right before DT_NULL
        let n = dynamic.dyns.len();
        for (k, _) in spec.needed.iter().enumerate() {
            assert_eq!(dynamic.dyns[k].d_tag, DT_NEEDED);
        }
        assert_eq!(dynamic.dyns.iter().filter(|d| d.d_tag == DT_NEEDED).count(), spec.needed.len());
        let ne = spec.extra_dynamic.len();
        for (d, e) in dynamic.dyns[n - 1 - ne..n - 1].iter().zip(&spec.extra_dynamic) {
            assert_eq!((d.d_tag, d.d_val), (trunc(spec, e.0), trunc(spec, e.1)));
        }
        // PT_DYNAMIC == .dynamic section
        let ph = elf.program_headers.iter().find(|p| p.p_type == PT_DYNAMIC).unwrap();
        assert_eq!(ph.p_vaddr, trunc(spec, b.dynamic_vaddr));
        let sh = elf.section_headers.iter().find(|s| s.sh_type == SHT_DYNAMIC).unwrap();
        assert_eq!((sh.sh_addr, sh.sh_offset, sh.sh_size), (ph.p_vaddr, ph.p_offset, ph.p_filesz));
        assert_eq!(sh.sh_size, n as u64 * if spec.class64 { 16 } else { 8 });

        // dynsyms
        assert_eq!(elf.dynsyms.len(), spec.dynsyms.len() + 1);
        let null = elf.dynsyms.get(0).unwrap();
        assert_eq!((null.st_name, null.st_info, null.st_shndx, null.st_value, null.st_size), (0, 0, 0, 0, 0));
        for (k, want) in spec.dynsyms.iter().enumerate() {
            let g = elf.dynsyms.get(k + 1).unwrap();
            check_sym(spec, &g, elf.dynstrtab.get_at(g.st_name), want);
        }
        let libs: Vec<&str> = spec.needed.iter().map(|s| s.as_str()).collect();
        assert_eq!(elf.libraries, libs);
        assert_eq!(elf.soname, spec.soname.as_deref());
        if spec.soname.is_none() {
            assert_eq!(dt(&elf, DT_SONAME), None);
        }

        // relocs
        if spec.use_rela {
            check_relocs(spec, &elf.dynrelas, &spec.dyn_relocs);
            assert_eq!(elf.dynrels.len(), 0);
        } else {
            check_relocs(spec, &elf.dynrels, &spec.dyn_relocs);
            assert_eq!(elf.dynrelas.len(), 0);
        }
        check_relocs(spec, &elf.pltrelocs, &spec.plt_relocs);
        // the same tables are visible through the section headers
        let want_rel_sections = !spec.dyn_relocs.is_empty() as usize + !spec.plt_relocs.is_empty() as usize;
        assert_eq!(elf.shdr_relocs.len(), want_rel_sections);
        for (idx, rs) in &elf.shdr_relocs {
            let sh = &elf.section_headers[*idx];
            let name = elf.shdr_strtab.get_at(sh.sh_name).unwrap();
            assert_eq!(sh.sh_type, if spec.use_rela { SHT_RELA } else { SHT_REL });
            assert_eq!(sh.sh_entsize, relsize);
            let pre = if spec.use_rela { ".rela" } else { ".rel" };
            if name == format!("{}.dyn", pre) {
                assert_eq!(sh.sh_addr, trunc(spec, b.reldyn_vaddr));
                check_relocs(spec, rs, &spec.dyn_relocs);
            } else {
                assert_eq!(name, format!("{}.plt", pre));
                assert_eq!(sh.sh_addr, trunc(spec, b.relplt_vaddr));
                check_relocs(spec, rs, &spec.plt_relocs);
            }
            assert_eq!(elf.section_headers[sh.sh_link as usize].sh_type, SHT_DYNSYM);
        }

        // a section covers DT_STRTAB and holds the dynstr bytes
        let strtab = dt(&elf, DT_STRTAB).unwrap();
        let strsz = dt(&elf, DT_STRSZ).unwrap();
        let sh = elf
            .section_headers
            .iter()
            .find(|s| s.sh_addr > 0 && s.sh_addr <= strtab && strtab < s.sh_addr + s.sh_size)
            .expect("section covering DT_STRTAB");
        assert_eq!(elf.shdr_strtab.get_at(sh.sh_name), Some(".dynstr"));
        assert_eq!(sh.sh_type, SHT_STRTAB);
        assert_eq!((sh.sh_addr, sh.sh_size), (strtab, strsz));
        let raw = &b.bytes[sh.sh_offset as usize..(sh.sh_offset + sh.sh_size) as usize];
        assert_eq!(raw[0], 0);
        assert_eq!(*raw.last().unwrap(), 0);
        for s in spec.needed.iter().chain(spec.soname.iter()).chain(spec.dynsyms.iter().map(|s| &s.name)) {
            let mut pat = s.as_bytes().to_vec();
            pat.push(0);
            assert!(raw.windows(pat.len()).any(|w| w == &pat[..]), "{} in dynstr", s);
        }
        // ... and it is inside the metadata PT_LOAD at the matching offset
        let meta = b.loads.last().unwrap();
        assert_eq!(meta.0, spec.meta_vaddr);
        let rel = (b.dynstr_vaddr - meta.0) as usize;
        assert_eq!(&meta.1[rel..rel + raw.len()], raw);
        // all alloc meta sections: sh_addr - meta_vaddr == sh_offset - meta p_offset
        let mph = pl.last().unwrap();
        for sh in elf.section_headers.iter().skip(1 + spec.segments.len()) {
            if sh.sh_flags & SHF_ALLOC != 0 {
                assert!(sh.sh_addr >= mph.p_vaddr && sh.sh_addr + sh.sh_size <= mph.p_vaddr + mph.p_filesz);
                assert_eq!(sh.sh_addr - mph.p_vaddr, sh.sh_offset - mph.p_offset);
                if sh.sh_addralign > 1 {
                    assert_eq!(sh.sh_addr % sh.sh_addralign, 0);
                    assert_eq!(sh.sh_offset % sh.sh_addralign, 0);
                }
            } else {
                assert_eq!(sh.sh_addr, 0);
            }
        }

        // .hash is a correct SysV hash table
        let hsh = elf.section_headers.iter().find(|s| s.sh_type == SHT_HASH).unwrap();
        assert_eq!(Some(hsh.sh_addr), dt(&elf, DT_HASH));
        assert_eq!(elf.section_headers[hsh.sh_link as usize].sh_type, SHT_DYNSYM);
        let hash = &b.bytes[hsh.sh_offset as usize..(hsh.sh_offset + hsh.sh_size) as usize];
        for s in &spec.dynsyms {
            let i = hash_lookup(&elf, hash, spec.big_endian, &s.name).expect("hash lookup");
            assert_eq!(spec.dynsyms[i - 1].name, s.name);
        }
        assert_eq!(hash_lookup(&elf, hash, spec.big_endian, "no_such_symbol_anywhere"), None);
        let dsh = elf.section_headers.iter().find(|s| s.sh_type == SHT_DYNSYM).unwrap();
        assert_eq!(dsh.sh_addr, trunc(spec, b.dynsym_vaddr));
        assert_eq!(dsh.sh_size, symsize * (spec.dynsyms.len() as u64 + 1));
        assert_eq!(elf.section_headers[dsh.sh_link as usize].sh_addr, strtab);
    }

    fn full_spec(class64: bool, big_endian: bool, machine: u16, use_rela: bool) -> ElfSpec {
        ElfSpec {
            class64,
            big_endian,
            machine,
            etype: 2,
            entry: 0x40_1004,
            segments: vec![
                SegSpec { vaddr: 0x40_1000, data: (0..0x123u32).map(|i| (i * 7) as u8).collect(), memsz: 0x123, r: true, w: false, x: true },
                SegSpec { vaddr: 0x40_3010, data: vec![0xaa; 0x40], memsz: 0x1040, r: true, w: true, x: false },
                SegSpec { vaddr: 0x40_6000, data: vec![], memsz: 0x2000, r: true, w: true, x: false },
            ],
            symtab: vec![
                sym("main", 0x40_1004, 0x20, 2, 1, true, false),
                sym("local_fn", 0x40_1040, 0x10, 2, 0, true, false),
                sym("g_obj", 0x40_3010, 8, 1, 1, true, false),
                sym("ext", 0, 0, 0, 1, false, false),
            ],
            dynsyms: vec![
                sym("exported_fn", 0x40_1010, 0x30, 2, 1, true, false),
                sym("weak_fn", 0x40_1050, 4, 2, 2, true, false),
                sym("puts", 0, 0, 2, 1, false, false),
                sym("zero_val", 0, 0, 0, 1, true, true),
                sym("data_obj", 0x40_3020, 16, 1, 1, true, false),
            ],
            needed: vec!["libc.so.6".into(), "libm.so.6".into()],
            soname: None,
            interp: Some("/lib/ld.so.1".into()),
            dyn_relocs: vec![
                RelocSpec { offset: 0x40_3010, sym: 0, rtype: 8, addend: 0x1234 },
                RelocSpec { offset: 0x40_3018, sym: 5, rtype: 1, addend: -8 },
                RelocSpec { offset: 0x40_3020, sym: 3, rtype: 6, addend: 0 },
            ],
            plt_relocs: vec![
                RelocSpec { offset: 0x40_3030, sym: 3, rtype: 7, addend: 0 },
                RelocSpec { offset: 0x40_3038, sym: 2, rtype: 7, addend: 4 },
            ],
            use_rela,
            extra_dynamic: vec![(3, 0x40_3030), (0x7000_000a, 2), (0x7000_0013, 1), (0x7000_0011, 6)],
            meta_vaddr: 0x40_9000,
        }
    }

    fn full_roundtrip(class64: bool, big_endian: bool, machine: u16, use_rela: bool) {
        let spec = full_spec(class64, big_endian, machine, use_rela);
        for pc in [true, false] {
            let b = build_with(&spec, &BuildOpts { page_congruent: pc, paddr_delta: 0 });
            if pc {
                assert_eq!(b, build(&spec));
            }
            verify(&spec, &b);
            // a few explicit spot checks on top of the generic verifier
            let elf = Elf::parse(&b.bytes).unwrap();
            assert_eq!(elf.program_headers.iter().filter(|p| p.p_type == PT_LOAD).count(), 4);
            assert_eq!(elf.libraries, vec!["libc.so.6", "libm.so.6"]);
            assert_eq!(elf.interpreter, Some("/lib/ld.so.1"));
            assert_eq!(elf.dynsyms.len(), 6);
            assert_eq!(elf.syms.len(), 5);
            // locals first: local_fn, then main, g_obj, ext
            let names: Vec<_> = elf.syms.iter().map(|s| elf.strtab.get_at(s.st_name).unwrap()).collect();
            assert_eq!(names, vec!["", "local_fn", "main", "g_obj", "ext"]);
            let dnames: Vec<_> = elf.dynsyms.iter().map(|s| elf.dynstrtab.get_at(s.st_name).unwrap()).collect();
            assert_eq!(dnames, vec!["", "exported_fn", "weak_fn", "puts", "zero_val", "data_obj"]);
            assert_eq!(elf.dynsyms.get(1).unwrap().st_shndx, 1);
            assert_eq!(elf.dynsyms.get(3).unwrap().st_shndx, 0);
            assert_eq!(elf.dynsyms.get(4).unwrap().st_shndx, 0xfff1);
            assert_eq!(elf.pltrelocs.len(), 2);
            assert_eq!(if use_rela { elf.dynrelas.len() } else { elf.dynrels.len() }, 3);
            assert_eq!(dt(&elf, 0x7000_0011), Some(6));
            assert_eq!(dt(&elf, 3), Some(0x40_3030));
        }
    }

    #[test]
    fn i386_le32() { full_roundtrip(false, false, EM_386, false); }
    #[test]
    fn x86_64_le64() { full_roundtrip(true, false, EM_X86_64, true); }
    #[test]
    fn mips_be32() { full_roundtrip(false, true, EM_MIPS, false); }
    #[test]
    fn mips_le32() { full_roundtrip(false, false, EM_MIPS, false); }
    #[test]
    fn ppc_be32() { full_roundtrip(false, true, EM_PPC, true); }
    #[test]
    fn aarch64_le64() { full_roundtrip(true, false, EM_AARCH64, true); }
    #[test]
    fn aarch64_be64() { full_roundtrip(true, true, EM_AARCH64, true); }
    #[test]
    fn rel64_and_rela32_variants() {
        full_roundtrip(true, false, EM_X86_64, false);
        full_roundtrip(false, false, EM_386, true);
    }

    fn strip_dynamic(spec: &mut ElfSpec) {
        spec.dynsyms.clear();
        spec.needed.clear();
        spec.soname = None;
        spec.interp = None;
        spec.dyn_relocs.clear();
        spec.plt_relocs.clear();
        spec.extra_dynamic.clear();
    }

    #[test]
    fn static_executable() {
        for (c64, be) in [(false, false), (false, true), (true, false), (true, true)] {
            let mut spec = full_spec(c64, be, if c64 { EM_X86_64 } else { EM_MIPS }, false);
            strip_dynamic(&mut spec);
            let b = build(&spec);
            verify(&spec, &b);
            let elf = Elf::parse(&b.bytes).unwrap();
            assert!(elf.dynamic.is_none());
            assert_eq!(elf.program_headers.len(), 3);
            assert!(elf.program_headers.iter().all(|p| p.p_type == PT_LOAD));
            assert_eq!(elf.syms.len(), 5);
            // null + 3 segs + symtab + strtab + shstrtab
            assert_eq!(elf.section_headers.len(), 7);
        }
    }

    #[test]
    fn empty_symtab() {
        for (c64, be) in [(false, false), (false, true), (true, false), (true, true)] {
            let mut spec = full_spec(c64, be, if c64 { EM_AARCH64 } else { EM_PPC }, c64);
            spec.symtab.clear();
            let b = build(&spec);
            verify(&spec, &b);
            let elf = Elf::parse(&b.bytes).unwrap();
            assert_eq!(elf.syms.len(), 0);
            assert_eq!(elf.dynsyms.len(), 6);
            // and fully empty: neither symtab nor dynamic nor segments
            strip_dynamic(&mut spec);
            spec.segments.clear();
            let b = build(&spec);
            verify(&spec, &b);
            let elf = Elf::parse(&b.bytes).unwrap();
            assert_eq!(elf.program_headers.len(), 0);
            assert_eq!(elf.section_headers.len(), 2);
        }
    }

    #[test]
    fn interp_only_and_soname_only() {
        let mut spec = full_spec(false, true, EM_MIPS, false);
        strip_dynamic(&mut spec);
        spec.interp = Some("/lib/ld-uClibc.so.0".into());
        let b = build(&spec);
        verify(&spec, &b);
        let elf = Elf::parse(&b.bytes).unwrap();
        assert!(elf.dynamic.is_none());
        assert_eq!(b.loads.len(), 4);
        assert_eq!(b.loads[3].1, b"/lib/ld-uClibc.so.0\0".to_vec());

        let mut spec = full_spec(true, false, EM_X86_64, true);
        strip_dynamic(&mut spec);
        spec.etype = 3;
        spec.soname = Some("libfoo.so.1".into());
        let b = build(&spec);
        verify(&spec, &b);
        let elf = Elf::parse(&b.bytes).unwrap();
        assert_eq!(elf.soname, Some("libfoo.so.1"));
        assert!(elf.is_lib);
        assert_eq!(elf.dynsyms.len(), 1);
        assert!(elf.interpreter.is_none());
    }

    #[test]
    fn defined_symbol_shndx_fallbacks() {
        // first segment is NOBITS -> defined symbols point at the first PROGBITS one (.seg1 = index 2)
        let mut spec = full_spec(false, false, EM_386, false);
        spec.segments.swap(0, 2);
        let b = build(&spec);
        verify(&spec, &b);
        let elf = Elf::parse(&b.bytes).unwrap();
        assert_eq!(elf.dynsyms.get(1).unwrap().st_shndx, 2);
        // only NOBITS segments -> index 1
        spec.segments.truncate(1);
        let b = build(&spec);
        verify(&spec, &b);
        assert_eq!(Elf::parse(&b.bytes).unwrap().dynsyms.get(1).unwrap().st_shndx, 1);
        // no segments -> SHN_ABS
        spec.segments.clear();
        let b = build(&spec);
        verify(&spec, &b);
        assert_eq!(Elf::parse(&b.bytes).unwrap().dynsyms.get(1).unwrap().st_shndx, 0xfff1);
    }

    #[test]
    fn sysv_hash_known_values() {
        assert_eq!(sysv_hash(b""), 0);
        assert_eq!(sysv_hash(b"printf"), 0x077905a6);
        assert_eq!(sysv_hash(b"exit"), 0x0006cf04);
    }

    struct Rng(u64);
    impl Rng {
        fn next(&mut self) -> u64 {
            let mut x = self.0;
            x ^= x << 13;
            x ^= x >> 7;
            x ^= x << 17;
            self.0 = x;
            x
        }
        fn below(&mut self, n: u64) -> u64 { self.next() % n }
        fn flag(&mut self) -> bool { self.next() & 1 == 1 }
        fn name(&mut self) -> String {
            const POOL: [&str; 8] = ["", "a", "foo", "bar", "memcpy", "_start", "__libc_start_main", "x"];
            if self.below(3) == 0 {
                POOL[self.below(8) as usize].to_string()
            } else {
                let n = 1 + self.below(12);
                (0..n).map(|_| (b'a' + self.below(26) as u8) as char).collect()
            }
        }
        fn syms(&mut self, n: u64) -> Vec<SymSpec> {
            (0..n)
                .map(|_| SymSpec {
                    name: self.name(),
                    value: if self.below(4) == 0 { 0 } else { self.next() >> self.below(64) },
                    size: self.below(0x1000),
                    stype: self.below(5) as u8,
                    bind: self.below(3) as u8,
                    defined: self.below(3) != 0,
                    abs: self.below(5) == 0,
                })
                .collect()
        }
        fn relocs(&mut self, n: u64, nsyms: u64, c64: bool) -> Vec<RelocSpec> {
            (0..n)
                .map(|_| RelocSpec {
                    offset: self.next() >> self.below(64),
                    sym: self.below(nsyms + 1) as u32,
                    rtype: if c64 { self.next() as u32 } else { self.below(256) as u32 },
                    addend: self.next() as i64 >> self.below(64),
                })
                .collect()
        }
    }

    fn random_spec(r: &mut Rng) -> ElfSpec {
        const MACHINES: [(u16, bool); 6] = [(EM_386, false), (EM_MIPS, false), (EM_PPC, false), (EM_X86_64, true), (EM_AARCH64, true), (EM_MIPS, false)];
        let (machine, class64) = MACHINES[r.below(6) as usize];
        let nseg = r.below(5);
        let mut base = 0x1_0000 + r.below(0x1000);
        let mut segments = Vec::new();
        for _ in 0..nseg {
            let len = if r.below(4) == 0 { 0 } else { r.below(600) };
            let data: Vec<u8> = (0..len).map(|_| r.next() as u8).collect();
            let memsz = len + if r.flag() { r.below(0x3000) } else { 0 };
            segments.push(SegSpec { vaddr: base, data, memsz, r: r.flag(), w: r.flag(), x: r.flag() });
            base += memsz + 1 + r.below(0x5000);
        }
        // shuffle: "any order"
        for i in (1..segments.len()).rev() {
            let j = r.below(i as u64 + 1) as usize;
            segments.swap(i, j);
        }
        let meta_vaddr = base + 0x1000 + r.below(0x2000);
        let dynamic = r.below(4) != 0;
        let ndyn = if dynamic { r.below(12) } else { 0 };
        let nsymtab = r.below(10);
        let symtab = r.syms(nsymtab);
        let dynsyms = r.syms(ndyn);
        let nneeded = r.below(4);
        let ndr = r.below(6);
        let npr = r.below(5);
        let nextra = r.below(4);
        ElfSpec {
            class64,
            big_endian: r.flag(),
            machine,
            etype: 2 + r.below(2) as u16,
            entry: r.next() >> r.below(64),
            segments,
            symtab,
            dynsyms,
            needed: if dynamic { (0..nneeded).map(|i| format!("lib{}{}.so", r.name(), i)).collect() } else { vec![] },
            soname: if dynamic && r.flag() { Some(format!("lib{}.so.1", r.name())) } else { None },
            interp: if r.flag() { Some(format!("/lib/ld-{}.so", r.name())) } else { None },
            dyn_relocs: if dynamic { r.relocs(ndr, ndyn, class64) } else { vec![] },
            plt_relocs: if dynamic { r.relocs(npr, ndyn, class64) } else { vec![] },
            use_rela: r.flag(),
            extra_dynamic: if dynamic {
                const TAGS: [u64; 6] = [3, 21, 30, 0x7000_000a, 0x7000_0013, 0x7000_0011];
                (0..nextra).map(|_| (TAGS[r.below(6) as usize], r.next() >> r.below(64))).collect()
            } else {
                vec![]
            },
            meta_vaddr,
        }
    }

    #[test]
    fn randomized_roundtrip() {
        let mut r = Rng(0x9e37_79b9_7f4a_7c15);
        let (mut n_dyn, mut n_static, mut n64, mut nbe) = (0, 0, 0, 0);
        for _ in 0..200 {
            let spec = random_spec(&mut r);
            let opts = BuildOpts { page_congruent: r.flag(), paddr_delta: 0 };
            let b = build_with(&spec, &opts);
            verify(&spec, &b);
            assert_eq!(b, build_with(&spec, &opts), "deterministic output");
            if has_dynamic(&spec) { n_dyn += 1 } else { n_static += 1 }
            n64 += spec.class64 as u32;
            nbe += spec.big_endian as u32;
        }
        // the generator of random specs itself must have exercised every corner
        assert!(n_dyn > 50 && n_static > 10 && n64 > 30 && n64 < 170 && nbe > 50 && nbe < 150, "{} {} {} {}", n_dyn, n_static, n64, nbe);
    }
}
