//! Host x86-64 CPU as a single-instruction oracle.
//!
//! A sacrificial child process is forked, `PTRACE_TRACEME`s itself, maps one
//! RWX code page at [`CODE_ADDR`] and an RW data arena at [`ARENA_ADDR`] and
//! stops.  For every test case the parent writes the instruction bytes and
//! the arena through `/proc/<pid>/mem`, loads the register file with
//! `PTRACE_SETREGS` / `PTRACE_SETFPREGS`, executes exactly one instruction
//! with `PTRACE_SINGLESTEP` and reads everything back.
//!
//! # Observed behaviour worth knowing (measured on Linux 6.18, AMD EPYC)
//!
//! * **`pushf` and TF.**  Single-stepping is implemented by the kernel by
//!   setting `RFLAGS.TF` in the tracee, and `pushf`/`pushfq` pushes the real
//!   flags register.  Measured: the flags image stored by `pushfq` has
//!   **TF (bit 8) = 1**, i.e. with all settable flags clear the tracee stores
//!   `0x302` instead of `0x202` (the value reported by `PTRACE_GETREGS` never
//!   shows the TF the kernel set itself).  Because that bit is an artefact of
//!   the measuring method and not of the instruction, [`Native::step`]
//!   clears it in the *returned* arena image when the instruction is a
//!   `pushf` (opcode `9C` after any prefixes) and [`Native::pushf_tf_fixup`]
//!   is `true` (the default).  Set the field to `false` to see the raw `0x302`.
//!   No other non-privileged instruction that `step` accepts exposes TF
//!   (`lahf` only reads bits 0..7, `syscall` is refused).
//! * **REP string instructions** trap after every iteration; `step` keeps
//!   stepping while `rip == CODE_ADDR` *and* the instruction really is a
//!   REP/REPNE-prefixed string instruction (so `jmp $`, encoding `EB FE`, is
//!   reported as a normal `Ok` with `rip == CODE_ADDR` rather than
//!   `TooManySteps`).  64 iterations are fine, the 65th gives
//!   [`StepResult::TooManySteps`].
//! * **`int3` / `icebp`.**  `int3` (`CC`) is reported as `Signal(5)` (the
//!   kernel's SIGTRAP has `si_code == SI_KERNEL`).  `icebp` (`F1`) raises #DB
//!   exactly like the single-step trap and is reported by the kernel with the
//!   same `si_code`, so it is indistinguishable and is returned as `Ok` (rip
//!   advanced by one, nothing else changed).
//! * **`mov ss, r/m`** inhibits the single-step trap for one instruction, so
//!   the `0xCC` padding behind the instruction executes as well and the
//!   result is `Signal(5)`.
//! * **`popf` / `iret`.**  For these two the kernel treats TF as the tracee's
//!   own, which (measured) makes *every later* step report rflags with TF set
//!   (`0x302` after a `nop`).  `step` repairs this transparently before the
//!   next test (see `Native::resync`), at the cost of one extra resume.  The
//!   result of the `popf` itself is truthful: TF is set in the returned
//!   rflags iff the popped image had it.
//! * **Non-canonical RSP.**  Loading a non-canonical `rsp` with
//!   PTRACE_SETREGS and resuming makes the guest kernel of this sandbox
//!   *oops* (`general protection fault` in `common_interrupt_return`, the
//!   tracee dies with SIGSEGV, the kernel gets tainted).  `step` therefore
//!   returns `Err` for such an input state without touching the tracee.  An
//!   instruction that itself loads a non-canonical value into rsp
//!   (`mov rsp, rbp` with rbp = 0x6666666666666666) does retire, but the
//!   single-step trap is not delivered; observed result: `Signal(4)`
//!   (SIGILL/ILL_ILLOPN at the following address).  No oops in that case and
//!   the tracee stays usable.
//! * **`si_code` of the step trap** is `TRAP_BRKPT` (1) in this VM, not
//!   `TRAP_TRACE` (2): the kernel does not see DR6.BS.  Both are accepted.
//! * **rflags on output** is the raw value from `PTRACE_GETREGS`: bit 1 and
//!   IF are set, and TF is clear unless the instruction itself (`popf`) set it.
//!   Compare under [`RFLAGS_SETTABLE`] unless you care about the other bits.
//! * Only the low 128 bits of the vector registers are loaded/read (FXSAVE
//!   image); the upper YMM halves are whatever a previous test left there.
//!   The x87 state is reset to `fninit` values and MXCSR to `0x1f80` before
//!   every step.
//!
//! # Threading
//!
//! ptrace requests are only accepted from the thread that is the tracer, so a
//! [`Native`] must be used (and dropped) on the thread that created it.  The
//! type is deliberately `!Send`/`!Sync`.

use std::marker::PhantomData;
use std::mem;

/// one RWX page (4096 bytes) for the instruction bytes
pub const CODE_ADDR: u64 = 0x0010_0000;
/// ARENA_SIZE bytes RW data arena (registers will be made to point into it)
pub const ARENA_ADDR: u64 = 0x0020_0000;
/// two pages: first 4 KiB "data", second 4 KiB "stack"
pub const ARENA_SIZE: usize = 8192;

/// The rflags bits that are taken from `X86State::rflags` on input:
/// CF(0) PF(2) AF(4) ZF(6) SF(7) DF(10) OF(11).
pub const RFLAGS_SETTABLE: u64 = 0x0cd5;

/// Maximum number of single-steps for one REP string instruction.
pub const MAX_STEPS: usize = 64;

/// Exit statuses of the child if its setup fails.
pub const EXIT_TRACEME_FAILED: i32 = 101;
pub const EXIT_CODE_MMAP_FAILED: i32 = 102;
pub const EXIT_ARENA_MMAP_FAILED: i32 = 103;

const CODE_SIZE: usize = 4096;
/// How many bytes are (re)written at CODE_ADDR for each test: the instruction
/// (<= 15 bytes) followed by 0xCC up to this length.  The rest of the page is
/// filled with 0xCC when the child is created.
const CODE_WRITE: usize = 32;
const RFLAGS_FIXED: u64 = 0x202; // bit 1 (always one) | IF
const RFLAGS_TF: u64 = 0x100;
/// `TASK_SIZE_MAX` on x86-64 with 4-level paging; the kernel rejects larger
/// fs_base/gs_base values in PTRACE_SETREGS with EIO.
const BASE_LIMIT: u64 = 0x0000_7fff_ffff_f000;
const TRAP_BRKPT: i32 = 1;
const TRAP_TRACE: i32 = 2;
const TRAP_HWBKPT: i32 = 4;

#[derive(Clone, Debug, PartialEq, Eq)]
pub struct X86State {
    /// rax, rcx, rdx, rbx, rsp, rbp, rsi, rdi, r8..r15  (x86 register-number order)
    pub gpr: [u64; 16],
    pub rip: u64,
    /// only CF(0) PF(2) AF(4) ZF(6) SF(7) DF(10) OF(11) are settable; the
    /// others are forced: bit 1 = 1, IF = 1, everything else 0.
    pub rflags: u64,
    pub fs_base: u64,
    pub gs_base: u64,
    pub xmm: [u128; 16],
    /// ARENA_SIZE bytes, contents of [ARENA_ADDR, ARENA_ADDR+ARENA_SIZE)
    pub arena: Vec<u8>,
}

impl X86State {
    /// All registers zero, rflags = 0x202, rip = CODE_ADDR, zero-filled arena.
    pub fn zeroed() -> X86State {
        X86State {
            gpr: [0; 16],
            rip: CODE_ADDR,
            rflags: RFLAGS_FIXED,
            fs_base: 0,
            gs_base: 0,
            xmm: [0; 16],
            arena: vec![0u8; ARENA_SIZE],
        }
    }
}

#[derive(Clone, Debug, PartialEq, Eq)]
pub enum StepResult {
    /// instruction retired; resulting state (rip = next instruction address)
    Ok(X86State),
    /// the step raised a signal (SIGSEGV=11, SIGFPE=8, SIGILL=4, SIGBUS=7;
    /// SIGTRAP=5 only if it was NOT the single-step trap, e.g. int3)
    Signal(i32),
    /// more than 64 single-steps without leaving the instruction
    TooManySteps,
}

pub struct Native {
    /// tracee pid, or -1 if there is currently no live child
    pid: libc::pid_t,
    /// O_RDWR fd of /proc/<pid>/mem, or -1
    mem_fd: libc::c_int,
    /// registers of the freshly stopped child (segment selectors are reused)
    template: libc::user_regs_struct,
    /// mxcr_mask etc. of the freshly stopped child
    fp_template: libc::user_fpregs_struct,
    /// Clear the TF bit in the flags image stored by `pushf` (see module docs).
    pub pushf_tf_fixup: bool,
    /// the kernel's TF bookkeeping has to be reset before the next step
    needs_resync: bool,
    /// number of children forked so far (1 after `new`); for diagnostics
    pub spawn_count: u64,
    _not_send: PhantomData<*mut ()>,
}

/// What one attempt to run a test case produced.
enum Attempt {
    Done(StepResult),
    /// An asynchronous signal (not caused by the instruction) was seen;
    /// the whole test case has to be repeated.
    Spurious(i32),
}

/// Result of scanning the prefix bytes of an instruction.
struct Prefixes {
    /// index of the first opcode byte
    op: usize,
    rep: bool,
}

fn scan_prefixes(code: &[u8]) -> Prefixes {
    let mut i = 0;
    let mut rep = false;
    while i < code.len() {
        match code[i] {
            0xf2 | 0xf3 => rep = true,
            0xf0 | 0x2e | 0x36 | 0x3e | 0x26 | 0x64 | 0x65 | 0x66 | 0x67 => {}
            0x40..=0x4f => {} // REX (64-bit mode only, which is all we have)
            _ => break,
        }
        i += 1;
    }
    Prefixes { op: i, rep }
}

/// REP/REPNE-prefixed MOVS/CMPS/STOS/LODS/SCAS/INS/OUTS.
fn is_rep_string(code: &[u8]) -> bool {
    let p = scan_prefixes(code);
    p.rep
        && matches!(
            code.get(p.op),
            Some(0xa4..=0xa7) | Some(0xaa..=0xaf) | Some(0x6c..=0x6f)
        )
}

fn is_pushf(code: &[u8]) -> bool {
    let p = scan_prefixes(code);
    code.get(p.op) == Some(&0x9c)
}

/// popf (9d) / iret (cf): the instructions for which the kernel's
/// `enable_single_step()` decides that TF belongs to the tracee
/// (`is_setting_trap_flag()`), which derails its TF bookkeeping for all
/// following steps; see [`Native::resync`].
fn is_popf_or_iret(code: &[u8]) -> bool {
    let p = scan_prefixes(code);
    matches!(code.get(p.op), Some(0x9d) | Some(0xcf))
}

/// syscall (0f 05), sysenter (0f 34), int imm8 (cd ib), with or without prefixes.
fn is_refused(code: &[u8]) -> bool {
    let p = scan_prefixes(code);
    match (code.get(p.op), code.get(p.op + 1)) {
        (Some(0xcd), _) => true,
        (Some(0x0f), Some(0x05)) | (Some(0x0f), Some(0x34)) => true,
        _ => false,
    }
}

/// 48-bit canonical (bits 63..47 all equal).
fn is_canonical(a: u64) -> bool {
    (((a as i64) << 16) >> 16) as u64 == a
}

fn errno() -> i32 {
    unsafe { *libc::__errno_location() }
}

fn os_err(what: &str) -> String {
    format!("{}: {}", what, std::io::Error::last_os_error())
}

/// Body of the forked child.  Only async-signal-safe calls: the parent may be
/// multi-threaded (e.g. the cargo test harness).
unsafe fn child_main() -> ! {
    // Die with the parent even before PTRACE_O_EXITKILL is in place.
    libc::prctl(libc::PR_SET_PDEATHSIG, libc::SIGKILL as libc::c_ulong);
    // Do not keep the parent's descriptors (other tracees' mem fds, ...) alive.
    libc::syscall(libc::SYS_close_range, 3u32, u32::MAX, 0u32);
    if libc::ptrace(
        libc::PTRACE_TRACEME,
        0 as libc::pid_t,
        0 as *mut libc::c_void,
        0 as *mut libc::c_void,
    ) != 0
    {
        libc::_exit(EXIT_TRACEME_FAILED);
    }
    // MAP_FIXED_NOREPLACE behaves like MAP_FIXED but fails with EEXIST if
    // anything is already mapped in the range, which is exactly the "nothing
    // else may live there" check we want.  (Kernels that do not know the flag
    // treat the address as a hint; the result check catches that too.)
    let flags = libc::MAP_FIXED_NOREPLACE | libc::MAP_PRIVATE | libc::MAP_ANONYMOUS;
    let p = libc::mmap(
        CODE_ADDR as *mut libc::c_void,
        CODE_SIZE,
        libc::PROT_READ | libc::PROT_WRITE | libc::PROT_EXEC,
        flags,
        -1,
        0,
    );
    if p as u64 != CODE_ADDR {
        libc::_exit(EXIT_CODE_MMAP_FAILED);
    }
    let p = libc::mmap(
        ARENA_ADDR as *mut libc::c_void,
        ARENA_SIZE,
        libc::PROT_READ | libc::PROT_WRITE,
        flags,
        -1,
        0,
    );
    if p as u64 != ARENA_ADDR {
        libc::_exit(EXIT_ARENA_MMAP_FAILED);
    }
    // Touch the pages so the first test does not pay for the page faults.
    std::ptr::write_bytes(CODE_ADDR as *mut u8, 0xcc, CODE_SIZE);
    std::ptr::write_bytes(ARENA_ADDR as *mut u8, 0, ARENA_SIZE);
    libc::raise(libc::SIGSTOP);
    // Never reached in practice: the tracer only ever resumes us at CODE_ADDR.
    loop {
        std::hint::spin_loop();
    }
}

/// waitpid that retries on EINTR.  Returns the raw status.
fn wait_for(pid: libc::pid_t) -> Result<libc::c_int, String> {
    let mut status: libc::c_int = 0;
    loop {
        let r = unsafe { libc::waitpid(pid, &mut status, libc::__WALL) };
        if r == pid {
            return Ok(status);
        }
        if r < 0 && errno() == libc::EINTR {
            continue;
        }
        return Err(os_err("waitpid"));
    }
}

impl Native {
    /// fork the tracee: child does PTRACE_TRACEME, mmaps CODE page (RWX) and
    /// ARENA (RW) at the fixed addresses, then raise(SIGSTOP); the parent
    /// waits for the stop.
    pub fn new() -> Result<Native, String> {
        let mut n = Native {
            pid: -1,
            mem_fd: -1,
            template: unsafe { mem::zeroed() },
            fp_template: unsafe { mem::zeroed() },
            pushf_tf_fixup: true,
            needs_resync: false,
            spawn_count: 0,
            _not_send: PhantomData,
        };
        n.spawn()?;
        Ok(n)
    }

    /// pid of the current tracee (changes when the child had to be replaced).
    pub fn pid(&self) -> i32 {
        self.pid
    }

    fn spawn(&mut self) -> Result<(), String> {
        debug_assert!(self.pid < 0 && self.mem_fd < 0);
        let pid = unsafe { libc::fork() };
        if pid < 0 {
            return Err(os_err("fork"));
        }
        if pid == 0 {
            unsafe { child_main() }
        }
        self.pid = pid;
        self.needs_resync = false;
        self.spawn_count += 1;
        let r = self.finish_spawn();
        if r.is_err() {
            self.kill_child();
        }
        r
    }

    fn finish_spawn(&mut self) -> Result<(), String> {
        let pid = self.pid;
        let status = wait_for(pid)?;
        if libc::WIFEXITED(status) {
            self.pid = -1; // already reaped
            let code = libc::WEXITSTATUS(status);
            let why = match code {
                EXIT_TRACEME_FAILED => "PTRACE_TRACEME failed",
                EXIT_CODE_MMAP_FAILED => "mmap of the code page at CODE_ADDR failed",
                EXIT_ARENA_MMAP_FAILED => "mmap of the arena at ARENA_ADDR failed",
                _ => "unexpected exit",
            };
            return Err(format!("tracee setup: exit status {} ({})", code, why));
        }
        if libc::WIFSIGNALED(status) {
            self.pid = -1;
            return Err(format!(
                "tracee setup: killed by signal {}",
                libc::WTERMSIG(status)
            ));
        }
        if !libc::WIFSTOPPED(status) || libc::WSTOPSIG(status) != libc::SIGSTOP {
            return Err(format!("tracee setup: unexpected wait status {:#x}", status));
        }
        self.ptrace(
            libc::PTRACE_SETOPTIONS,
            0,
            libc::PTRACE_O_EXITKILL as usize,
            "PTRACE_SETOPTIONS",
        )?;
        let path = format!("/proc/{}/mem\0", pid);
        let fd = unsafe {
            libc::open(
                path.as_ptr() as *const libc::c_char,
                libc::O_RDWR | libc::O_CLOEXEC,
            )
        };
        if fd < 0 {
            return Err(os_err("open /proc/pid/mem"));
        }
        self.mem_fd = fd;
        self.template = self.getregs()?;
        self.fp_template = self.getfpregs()?;
        Ok(())
    }

    /// Kill and reap the current child (if any) and close its mem fd.
    fn kill_child(&mut self) {
        if self.mem_fd >= 0 {
            unsafe { libc::close(self.mem_fd) };
            self.mem_fd = -1;
        }
        if self.pid > 0 {
            let pid = self.pid;
            self.pid = -1;
            unsafe { libc::kill(pid, libc::SIGKILL) };
            let mut status: libc::c_int = 0;
            loop {
                let r = unsafe { libc::waitpid(pid, &mut status, libc::__WALL) };
                if r == pid {
                    if libc::WIFEXITED(status) || libc::WIFSIGNALED(status) {
                        break;
                    }
                    continue; // some stop that was queued before the kill
                }
                if r < 0 && errno() == libc::EINTR {
                    continue;
                }
                break; // ECHILD: somebody already reaped it
            }
        }
    }

    /// The child was seen to terminate in waitpid: it is already reaped.
    fn child_is_gone(&mut self) {
        self.pid = -1;
        if self.mem_fd >= 0 {
            unsafe { libc::close(self.mem_fd) };
            self.mem_fd = -1;
        }
    }

    fn ptrace(
        &self,
        req: libc::c_uint,
        addr: usize,
        data: usize,
        what: &str,
    ) -> Result<(), String> {
        let r = unsafe {
            libc::ptrace(
                req,
                self.pid,
                addr as *mut libc::c_void,
                data as *mut libc::c_void,
            )
        };
        if r < 0 {
            Err(os_err(what))
        } else {
            Ok(())
        }
    }

    fn getregs(&self) -> Result<libc::user_regs_struct, String> {
        let mut regs: libc::user_regs_struct = unsafe { mem::zeroed() };
        self.ptrace(
            libc::PTRACE_GETREGS,
            0,
            &mut regs as *mut _ as usize,
            "PTRACE_GETREGS",
        )?;
        Ok(regs)
    }

    fn getfpregs(&self) -> Result<libc::user_fpregs_struct, String> {
        let mut fp: libc::user_fpregs_struct = unsafe { mem::zeroed() };
        self.ptrace(
            libc::PTRACE_GETFPREGS,
            0,
            &mut fp as *mut _ as usize,
            "PTRACE_GETFPREGS",
        )?;
        Ok(fp)
    }

    fn write_mem(&self, addr: u64, buf: &[u8]) -> Result<(), String> {
        let mut done = 0usize;
        while done < buf.len() {
            let r = unsafe {
                libc::pwrite(
                    self.mem_fd,
                    buf[done..].as_ptr() as *const libc::c_void,
                    buf.len() - done,
                    (addr + done as u64) as libc::off_t,
                )
            };
            if r < 0 && errno() == libc::EINTR {
                continue;
            }
            if r <= 0 {
                return Err(format!(
                    "pwrite /proc/{}/mem at {:#x}: {}",
                    self.pid,
                    addr + done as u64,
                    std::io::Error::last_os_error()
                ));
            }
            done += r as usize;
        }
        Ok(())
    }

    fn read_mem(&self, addr: u64, buf: &mut [u8]) -> Result<(), String> {
        let mut done = 0usize;
        while done < buf.len() {
            let r = unsafe {
                libc::pread(
                    self.mem_fd,
                    buf[done..].as_mut_ptr() as *mut libc::c_void,
                    buf.len() - done,
                    (addr + done as u64) as libc::off_t,
                )
            };
            if r < 0 && errno() == libc::EINTR {
                continue;
            }
            if r <= 0 {
                return Err(format!(
                    "pread /proc/{}/mem at {:#x}: {}",
                    self.pid,
                    addr + done as u64,
                    std::io::Error::last_os_error()
                ));
            }
            done += r as usize;
        }
        Ok(())
    }

    /// Execute exactly one instruction.
    ///
    /// `code` (1..=15 bytes, padded with 0xCC by the implementation) is
    /// written at CODE_ADDR, `state.arena` to the arena, the registers are
    /// loaded (rip is forced to CODE_ADDR; `state.rip` is ignored on input,
    /// rflags as described on [`X86State::rflags`], MXCSR = 0x1f80, x87 reset),
    /// one instruction is single-stepped (REP string instructions are
    /// stepped until they leave CODE_ADDR, at most [`MAX_STEPS`] times) and
    /// the complete state is read back.
    ///
    /// `Err` is returned for invalid arguments (`code` empty or longer than
    /// 15 bytes, `arena.len() != ARENA_SIZE`, fs_base/gs_base not a user
    /// address, non-canonical rsp, code that is `syscall`/`sysenter`/`int n`) and if the tracee
    /// cannot be made to work even after being replaced.  A dead or unusable
    /// child is killed, reaped and replaced transparently.
    pub fn step(&mut self, code: &[u8], state: &X86State) -> Result<StepResult, String> {
        if code.is_empty() || code.len() > 15 {
            return Err(format!("code length {} not in 1..=15", code.len()));
        }
        if state.arena.len() != ARENA_SIZE {
            return Err(format!(
                "arena length {} != ARENA_SIZE {}",
                state.arena.len(),
                ARENA_SIZE
            ));
        }
        if is_refused(code) {
            return Err(format!(
                "refusing to execute a system call instruction: {:02x?}",
                code
            ));
        }
        if !is_canonical(state.gpr[4]) {
            // See the module docs: this oopses the guest kernel in this sandbox.
            return Err(format!(
                "refusing to load non-canonical rsp {:#x}",
                state.gpr[4]
            ));
        }
        if state.fs_base >= BASE_LIMIT || state.gs_base >= BASE_LIMIT {
            return Err(format!(
                "fs_base {:#x} / gs_base {:#x} is not a user-space address",
                state.fs_base, state.gs_base
            ));
        }
        let mut last_err = String::new();
        for _attempt in 0..4 {
            if self.pid < 0 {
                self.spawn()?;
            }
            match self.step_once(code, state) {
                Ok(Attempt::Done(r)) => return Ok(r),
                Ok(Attempt::Spurious(sig)) => {
                    // Somebody sent the tracee a signal.  It is suppressed by
                    // the next resume; just run the test case again.
                    last_err = format!("tracee received asynchronous signal {}", sig);
                }
                Err(e) => {
                    // ESRCH, dead child, ...: replace the child and retry.
                    self.kill_child();
                    last_err = e;
                }
            }
        }
        Err(format!("step failed repeatedly, last error: {}", last_err))
    }

    /// Reset the kernel's single-step bookkeeping after a `popf`/`iret`.
    ///
    /// When the instruction to be stepped is `popf` or `iret` the kernel does
    /// not mark TF as "set by the debugger" (TIF_FORCED_TF).  From then on it
    /// believes the tracee set TF itself: every later PTRACE_SINGLESTEP
    /// re-asserts TF as tracee state and PTRACE_GETREGS reports it, so all
    /// following results would show rflags bit 8 set (measured: 0x302 after a
    /// `nop`).  Only a resume that is *not* a single-step clears that state, so
    /// run the tracee with PTRACE_CONT into an `int3`.
    fn resync(&mut self) -> Result<(), String> {
        self.write_mem(CODE_ADDR, &[0xcc])?;
        let mut r = self.template;
        r.rip = CODE_ADDR;
        r.eflags = RFLAGS_FIXED; // no TF: clears it, TIF_FORCED_TF is not set
        r.orig_rax = u64::MAX;
        self.ptrace(
            libc::PTRACE_SETREGS,
            0,
            &r as *const _ as usize,
            "PTRACE_SETREGS (resync)",
        )?;
        self.ptrace(libc::PTRACE_CONT, 0, 0, "PTRACE_CONT (resync)")?;
        let status = wait_for(self.pid)?;
        if libc::WIFEXITED(status) || libc::WIFSIGNALED(status) {
            self.child_is_gone();
            return Err(format!("tracee died in resync, wait status {:#x}", status));
        }
        if !libc::WIFSTOPPED(status) || libc::WSTOPSIG(status) != libc::SIGTRAP {
            return Err(format!("resync: unexpected wait status {:#x}", status));
        }
        self.needs_resync = false;
        Ok(())
    }

    fn step_once(&mut self, code: &[u8], state: &X86State) -> Result<Attempt, String> {
        if self.needs_resync {
            self.resync()?;
        }
        // --- memory -------------------------------------------------------
        let mut cbuf = [0xccu8; CODE_WRITE];
        cbuf[..code.len()].copy_from_slice(code);
        self.write_mem(CODE_ADDR, &cbuf)?;
        self.write_mem(ARENA_ADDR, &state.arena)?;

        // --- registers ----------------------------------------------------
        let mut r = self.template; // keeps cs/ss/ds/es/fs/gs selectors
        let g = &state.gpr;
        r.rax = g[0];
        r.rcx = g[1];
        r.rdx = g[2];
        r.rbx = g[3];
        r.rsp = g[4];
        r.rbp = g[5];
        r.rsi = g[6];
        r.rdi = g[7];
        r.r8 = g[8];
        r.r9 = g[9];
        r.r10 = g[10];
        r.r11 = g[11];
        r.r12 = g[12];
        r.r13 = g[13];
        r.r14 = g[14];
        r.r15 = g[15];
        r.rip = CODE_ADDR;
        r.eflags = (state.rflags & RFLAGS_SETTABLE) | RFLAGS_FIXED;
        r.fs_base = state.fs_base;
        r.gs_base = state.gs_base;
        // The child is (initially) stopped inside a system call; -1 makes the
        // kernel skip its syscall-restart logic, which would otherwise be free
        // to adjust rax/rip after we set them.
        r.orig_rax = u64::MAX;
        self.ptrace(
            libc::PTRACE_SETREGS,
            0,
            &r as *const _ as usize,
            "PTRACE_SETREGS",
        )?;

        let mut fp: libc::user_fpregs_struct = unsafe { mem::zeroed() };
        fp.cwd = 0x037f;
        fp.mxcsr = 0x1f80;
        fp.mxcr_mask = self.fp_template.mxcr_mask;
        for (i, x) in state.xmm.iter().enumerate() {
            for j in 0..4 {
                fp.xmm_space[i * 4 + j] = (x >> (32 * j)) as u32;
            }
        }
        self.ptrace(
            libc::PTRACE_SETFPREGS,
            0,
            &fp as *const _ as usize,
            "PTRACE_SETFPREGS",
        )?;

        // --- run ----------------------------------------------------------
        let rep = is_rep_string(code);
        if is_popf_or_iret(code) {
            self.needs_resync = true;
        }
        for _ in 0..MAX_STEPS {
            // data = 0: whatever signal the tracee is stopped with is dropped.
            self.ptrace(libc::PTRACE_SINGLESTEP, 0, 0, "PTRACE_SINGLESTEP")?;
            let status = wait_for(self.pid)?;
            if libc::WIFEXITED(status) || libc::WIFSIGNALED(status) {
                self.child_is_gone();
                return Err(format!("tracee died, wait status {:#x}", status));
            }
            if !libc::WIFSTOPPED(status) {
                return Err(format!("unexpected wait status {:#x}", status));
            }
            if (status >> 16) != 0 {
                return Err(format!("unexpected ptrace event stop {:#x}", status));
            }
            let sig = libc::WSTOPSIG(status);
            match sig {
                libc::SIGTRAP => {
                    let mut si: libc::siginfo_t = unsafe { mem::zeroed() };
                    self.ptrace(
                        libc::PTRACE_GETSIGINFO,
                        0,
                        &mut si as *mut _ as usize,
                        "PTRACE_GETSIGINFO",
                    )?;
                    // #DB (single-step trap, also icebp) is reported with
                    // TRAP_TRACE when the kernel sees DR6.BS and with
                    // TRAP_BRKPT when it does not; in this VM it is always
                    // TRAP_BRKPT.  #BP (int3) is reported with SI_KERNEL.
                    match si.si_code {
                        TRAP_TRACE | TRAP_BRKPT | TRAP_HWBKPT => {}
                        c if c <= 0 => {
                            // SI_USER / SI_TKILL / SI_QUEUE: kill() from outside
                            return Ok(Attempt::Spurious(sig));
                        }
                        _ => return Ok(Attempt::Done(StepResult::Signal(sig))),
                    }
                }
                libc::SIGSEGV | libc::SIGFPE | libc::SIGILL | libc::SIGBUS => {
                    return Ok(Attempt::Done(StepResult::Signal(sig)));
                }
                _ => return Ok(Attempt::Spurious(sig)),
            }

            // --- single-step trap: read back ------------------------------
            let o = self.getregs()?;
            if o.eflags & RFLAGS_TF != 0 {
                // TF visible to the tracer means the kernel thinks it is the
                // tracee's own (only possible after popf/iret).
                self.needs_resync = true;
            }
            if rep && o.rip == CODE_ADDR {
                continue; // REP iteration finished, instruction not yet
            }
            let ofp = self.getfpregs()?;
            let mut arena = vec![0u8; ARENA_SIZE];
            self.read_mem(ARENA_ADDR, &mut arena)?;
            if self.pushf_tf_fixup && is_pushf(code) {
                // flags image is at the new rsp; TF is bit 0 of its second byte
                let a = o.rsp.wrapping_add(1);
                if a >= ARENA_ADDR && a < ARENA_ADDR + ARENA_SIZE as u64 {
                    arena[(a - ARENA_ADDR) as usize] &= !1;
                }
            }
            let mut xmm = [0u128; 16];
            for (i, x) in xmm.iter_mut().enumerate() {
                for j in 0..4 {
                    *x |= (ofp.xmm_space[i * 4 + j] as u128) << (32 * j);
                }
            }
            return Ok(Attempt::Done(StepResult::Ok(X86State {
                gpr: [
                    o.rax, o.rcx, o.rdx, o.rbx, o.rsp, o.rbp, o.rsi, o.rdi, o.r8, o.r9, o.r10,
                    o.r11, o.r12, o.r13, o.r14, o.r15,
                ],
                rip: o.rip,
                rflags: o.eflags,
                fs_base: o.fs_base,
                gs_base: o.gs_base,
                xmm,
                arena,
            })));
        }
        Ok(Attempt::Done(StepResult::TooManySteps))
    }
}

impl Drop for Native {
    fn drop(&mut self) {
        self.kill_child();
    }
}

#[cfg(test)]
mod tests {
    use super::*;

    const CF: u64 = 1 << 0;
    const PF: u64 = 1 << 2;
    const AF: u64 = 1 << 4;
    const ZF: u64 = 1 << 6;
    const SF: u64 = 1 << 7;
    const DF: u64 = 1 << 10;
    const OF: u64 = 1 << 11;

    const RAX: usize = 0;
    const RCX: usize = 1;
    const RDX: usize = 2;
    const RBX: usize = 3;
    const RSP: usize = 4;
    const RSI: usize = 6;
    const RDI: usize = 7;

    const STACK_TOP: u64 = ARENA_ADDR + ARENA_SIZE as u64 - 0x100;

    /// A state with recognisable register values, rsp in the stack half.
    fn base() -> X86State {
        let mut s = X86State::zeroed();
        for (i, g) in s.gpr.iter_mut().enumerate() {
            *g = 0x1111_1111_1111_1111u64.wrapping_mul(i as u64 + 1);
        }
        s.gpr[RSP] = STACK_TOP;
        for (i, x) in s.xmm.iter_mut().enumerate() {
            *x = 0x0101_0101_0101_0101_0101_0101_0101_0101u128 * (i as u128 + 1);
        }
        for (i, b) in s.arena.iter_mut().enumerate() {
            *b = (i as u8) ^ ((i >> 8) as u8);
        }
        s
    }

    fn ok(n: &mut Native, code: &[u8], s: &X86State) -> X86State {
        match n.step(code, s).expect("step") {
            StepResult::Ok(o) => o,
            other => panic!("{:02x?}: expected Ok, got {:?}", code, other),
        }
    }

    fn flags(s: &X86State) -> u64 {
        s.rflags & RFLAGS_SETTABLE
    }

    /// `o` must equal `i` except for the listed changes (applied by `f`) and rip.
    fn expect(i: &X86State, o: &X86State, len: u64, f: impl FnOnce(&mut X86State)) {
        let mut e = i.clone();
        e.rip = CODE_ADDR + len;
        e.rflags = (i.rflags & RFLAGS_SETTABLE) | 0x202;
        f(&mut e);
        if &e != o {
            for r in 0..16 {
                assert_eq!(e.gpr[r], o.gpr[r], "gpr {}", r);
                assert_eq!(e.xmm[r], o.xmm[r], "xmm {}", r);
            }
            assert_eq!(e.rip, o.rip, "rip");
            assert_eq!(e.rflags, o.rflags, "rflags {:#x} vs {:#x}", e.rflags, o.rflags);
            assert_eq!(e.fs_base, o.fs_base);
            assert_eq!(e.gs_base, o.gs_base);
            for k in 0..ARENA_SIZE {
                assert_eq!(e.arena[k], o.arena[k], "arena byte {:#x}", k);
            }
            unreachable!();
        }
    }

    #[test]
    fn nop_preserves_everything() {
        let mut n = Native::new().unwrap();
        let mut s = base();
        s.rflags = CF | PF | AF | ZF | SF | OF;
        s.fs_base = ARENA_ADDR + 0x100;
        s.gs_base = ARENA_ADDR + 0x200;
        let o = ok(&mut n, &[0x90], &s);
        expect(&s, &o, 1, |_| {});
        // non-settable input bits are ignored / forced
        s.rflags = !0;
        let o = ok(&mut n, &[0x90], &s);
        assert_eq!(o.rflags, RFLAGS_SETTABLE | 0x202);
        s.rflags = 0;
        let o = ok(&mut n, &[0x90], &s);
        assert_eq!(o.rflags, 0x202);
    }

    #[test]
    fn add_rax_rbx_flags() {
        let mut n = Native::new().unwrap();
        let mut s = base();
        s.gpr[RAX] = u64::MAX;
        s.gpr[RBX] = 1;
        let o = ok(&mut n, &[0x48, 0x01, 0xd8], &s);
        expect(&s, &o, 3, |e| {
            e.gpr[RAX] = 0;
            e.rflags |= CF | ZF | AF | PF;
        });
        // signed overflow
        s.gpr[RAX] = 0x7fff_ffff_ffff_ffff;
        s.gpr[RBX] = 1;
        s.rflags = CF | ZF; // must be overwritten
        let o = ok(&mut n, &[0x48, 0x01, 0xd8], &s);
        assert_eq!(o.gpr[RAX], 0x8000_0000_0000_0000);
        assert_eq!(flags(&o), OF | SF | AF | PF);
    }

    #[test]
    fn adc_uses_carry_in() {
        let mut n = Native::new().unwrap();
        let mut s = base();
        s.gpr[RAX] = 10;
        s.gpr[RBX] = 20;
        s.rflags = CF;
        let o = ok(&mut n, &[0x48, 0x11, 0xd8], &s); // adc rax, rbx
        assert_eq!(o.gpr[RAX], 31);
        assert_eq!(flags(&o), 0); // 31 = 0b11111: odd parity
        s.rflags = 0;
        let o = ok(&mut n, &[0x48, 0x11, 0xd8], &s);
        assert_eq!(o.gpr[RAX], 30);
        assert_eq!(flags(&o), PF);
        s.gpr[RAX] = u64::MAX;
        s.gpr[RBX] = 0;
        s.rflags = CF;
        let o = ok(&mut n, &[0x48, 0x11, 0xd8], &s);
        assert_eq!(o.gpr[RAX], 0);
        assert_eq!(flags(&o), CF | ZF | AF | PF);
    }

    #[test]
    fn mov_store_to_arena() {
        let mut n = Native::new().unwrap();
        let mut s = base();
        s.gpr[RAX] = 0xaabb_ccdd_1234_5678;
        s.gpr[RDI] = ARENA_ADDR + 0x123;
        let o = ok(&mut n, &[0x89, 0x07], &s); // mov [rdi], eax
        expect(&s, &o, 2, |e| {
            e.arena[0x123..0x127].copy_from_slice(&[0x78, 0x56, 0x34, 0x12]);
        });
        // load back: mov rbx, [rdi]
        let o2 = ok(&mut n, &[0x48, 0x8b, 0x1f], &o);
        assert_eq!(
            o2.gpr[RBX],
            u64::from_le_bytes(o.arena[0x123..0x12b].try_into().unwrap())
        );
    }

    #[test]
    fn push_pop() {
        let mut n = Native::new().unwrap();
        let mut s = base();
        s.gpr[RAX] = 0x0123_4567_89ab_cdef;
        let o = ok(&mut n, &[0x50], &s); // push rax
        let off = (STACK_TOP - 8 - ARENA_ADDR) as usize;
        assert!(off >= 4096, "rsp must be in the stack half");
        expect(&s, &o, 1, |e| {
            e.gpr[RSP] = STACK_TOP - 8;
            e.arena[off..off + 8].copy_from_slice(&0x0123_4567_89ab_cdefu64.to_le_bytes());
        });
        let o2 = ok(&mut n, &[0x5b], &o); // pop rbx
        expect(&o, &o2, 1, |e| {
            e.gpr[RSP] = STACK_TOP;
            e.gpr[RBX] = 0x0123_4567_89ab_cdef;
        });
    }

    #[test]
    fn call_and_ret() {
        let mut n = Native::new().unwrap();
        let s = base();
        // call +0x100
        let o = ok(&mut n, &[0xe8, 0x00, 0x01, 0x00, 0x00], &s);
        let off = (STACK_TOP - 8 - ARENA_ADDR) as usize;
        expect(&s, &o, 5, |e| {
            e.rip = CODE_ADDR + 5 + 0x100;
            e.gpr[RSP] = STACK_TOP - 8;
            e.arena[off..off + 8].copy_from_slice(&(CODE_ADDR + 5).to_le_bytes());
        });
        // ret to an arbitrary (even unmapped) address: only rip is read back
        let mut s2 = o.clone();
        s2.arena[off..off + 8].copy_from_slice(&0x1234_5678_9abcu64.to_le_bytes());
        let o2 = ok(&mut n, &[0xc3], &s2);
        assert_eq!(o2.rip, 0x1234_5678_9abc);
        assert_eq!(o2.gpr[RSP], STACK_TOP);
    }

    #[test]
    fn rep_stosb() {
        let mut n = Native::new().unwrap();
        let mut s = base();
        s.gpr[RAX] = 0xab;
        s.gpr[RCX] = 5;
        s.gpr[RDI] = ARENA_ADDR + 0x40;
        let o = ok(&mut n, &[0xf3, 0xaa], &s);
        expect(&s, &o, 2, |e| {
            e.gpr[RCX] = 0;
            e.gpr[RDI] = ARENA_ADDR + 0x45;
            e.arena[0x40..0x45].fill(0xab);
        });
        // DF = 1: downwards
        s.rflags = DF;
        let o = ok(&mut n, &[0xf3, 0xaa], &s);
        expect(&s, &o, 2, |e| {
            e.gpr[RCX] = 0;
            e.gpr[RDI] = ARENA_ADDR + 0x3b;
            e.arena[0x3c..0x41].fill(0xab);
        });
        // DF from the previous test must not leak: rcx = 0 is a no-op
        s.rflags = 0;
        s.gpr[RCX] = 0;
        let o = ok(&mut n, &[0xf3, 0xaa], &s);
        expect(&s, &o, 2, |_| {});
    }

    #[test]
    fn rep_step_cap() {
        let mut n = Native::new().unwrap();
        let mut s = base();
        s.gpr[RAX] = 0x5a;
        s.gpr[RDI] = ARENA_ADDR + 0x100;
        s.gpr[RCX] = MAX_STEPS as u64;
        let o = ok(&mut n, &[0xf3, 0xaa], &s);
        expect(&s, &o, 2, |e| {
            e.gpr[RCX] = 0;
            e.gpr[RDI] = ARENA_ADDR + 0x100 + MAX_STEPS as u64;
            e.arena[0x100..0x100 + MAX_STEPS].fill(0x5a);
        });
        s.gpr[RCX] = MAX_STEPS as u64 + 1;
        assert_eq!(n.step(&[0xf3, 0xaa], &s).unwrap(), StepResult::TooManySteps);
        // and the tracee is still usable
        s.gpr[RCX] = 1;
        let o = ok(&mut n, &[0xf3, 0xaa], &s);
        assert_eq!(o.gpr[RCX], 0);
        assert_eq!(o.rip, CODE_ADDR + 2);
        // repe cmpsb stopping early on a mismatch
        let mut s = base();
        s.arena[0..4].copy_from_slice(b"abcd");
        s.arena[16..20].copy_from_slice(b"abXd");
        s.gpr[RSI] = ARENA_ADDR;
        s.gpr[RDI] = ARENA_ADDR + 16;
        s.gpr[RCX] = 4;
        let o = ok(&mut n, &[0xf3, 0xa6], &s);
        assert_eq!(o.gpr[RCX], 1);
        assert_eq!(o.gpr[RSI], ARENA_ADDR + 3);
        assert_eq!(o.rip, CODE_ADDR + 2);
        assert_eq!(flags(&o) & ZF, 0);
    }

    #[test]
    fn jmp_to_self_is_not_a_rep() {
        let mut n = Native::new().unwrap();
        let s = base();
        let o = ok(&mut n, &[0xeb, 0xfe], &s);
        expect(&s, &o, 2, |e| e.rip = CODE_ADDR);
    }

    #[test]
    fn div_by_zero_is_sigfpe() {
        let mut n = Native::new().unwrap();
        let mut s = base();
        s.gpr[RCX] = 0;
        assert_eq!(
            n.step(&[0x48, 0xf7, 0xf1], &s).unwrap(),
            StepResult::Signal(libc::SIGFPE)
        );
        assert_eq!(libc::SIGFPE, 8);
        // quotient overflow is #DE as well
        s.gpr[RCX] = 1;
        s.gpr[RDX] = 5;
        assert_eq!(n.step(&[0x48, 0xf7, 0xf1], &s).unwrap(), StepResult::Signal(8));
        // a proper division afterwards
        s.gpr[RDX] = 0;
        s.gpr[RAX] = 100;
        s.gpr[RCX] = 7;
        let o = ok(&mut n, &[0x48, 0xf7, 0xf1], &s);
        assert_eq!((o.gpr[RAX], o.gpr[RDX]), (14, 2));
        assert_eq!(n.spawn_count, 1);
    }

    #[test]
    fn ud2_is_sigill() {
        let mut n = Native::new().unwrap();
        let s = base();
        assert_eq!(n.step(&[0x0f, 0x0b], &s).unwrap(), StepResult::Signal(4));
        let o = ok(&mut n, &[0x90], &s);
        expect(&s, &o, 1, |_| {});
    }

    #[test]
    fn int3_is_sigtrap_icebp_is_not() {
        let mut n = Native::new().unwrap();
        let s = base();
        assert_eq!(n.step(&[0xcc], &s).unwrap(), StepResult::Signal(5));
        let o = ok(&mut n, &[0x90], &s);
        expect(&s, &o, 1, |_| {});
        // icebp: #DB, indistinguishable from the step trap (see module docs)
        let o = ok(&mut n, &[0xf1], &s);
        expect(&s, &o, 1, |_| {});
    }

    #[test]
    fn unmapped_access_is_sigsegv_and_next_step_works() {
        let mut n = Native::new().unwrap();
        let mut s = base();
        s.gpr[RBX] = 0xdead_0000;
        assert_eq!(
            n.step(&[0x48, 0x8b, 0x03], &s).unwrap(), // mov rax, [rbx]
            StepResult::Signal(11)
        );
        // store just past the arena
        s.gpr[RDI] = ARENA_ADDR + ARENA_SIZE as u64;
        assert_eq!(n.step(&[0x89, 0x07], &s).unwrap(), StepResult::Signal(11));
        // non-canonical address: #GP, also SIGSEGV
        s.gpr[RBX] = 0x8000_0000_0000_0000;
        assert_eq!(n.step(&[0x48, 0x8b, 0x03], &s).unwrap(), StepResult::Signal(11));
        // jump to an unmapped address retires; *fetching* there is never done
        s.gpr[RBX] = ARENA_ADDR + 8;
        let o = ok(&mut n, &[0x48, 0x8b, 0x03], &s);
        expect(&s, &o, 3, |e| {
            e.gpr[RAX] = u64::from_le_bytes(s.arena[8..16].try_into().unwrap());
        });
        assert_eq!(n.spawn_count, 1, "no respawn needed for plain faults");
    }

    #[test]
    fn jmp_rax() {
        let mut n = Native::new().unwrap();
        let mut s = base();
        s.gpr[RAX] = 0x0000_7654_3210_0000;
        let o = ok(&mut n, &[0xff, 0xe0], &s);
        expect(&s, &o, 2, |e| e.rip = 0x0000_7654_3210_0000);
    }

    #[test]
    fn jz_taken_and_not_taken() {
        let mut n = Native::new().unwrap();
        let mut s = base();
        s.rflags = ZF;
        let o = ok(&mut n, &[0x74, 0x05], &s);
        expect(&s, &o, 2, |e| e.rip = CODE_ADDR + 7);
        s.rflags = CF | SF | OF | PF | AF;
        let o = ok(&mut n, &[0x74, 0x05], &s);
        expect(&s, &o, 2, |_| {});
    }

    #[test]
    fn paddb() {
        let mut n = Native::new().unwrap();
        let mut s = base();
        s.xmm[0] = 0x00ff_80_7f_10_01_fe_02_00ff_80_7f_10_01_fe_02;
        s.xmm[1] = 0x0101_80_01_f0_ff_02_03_0101_80_01_f0_ff_02_03;
        let o = ok(&mut n, &[0x66, 0x0f, 0xfc, 0xc1], &s); // paddb xmm0, xmm1
        expect(&s, &o, 4, |e| {
            let a = s.xmm[0].to_le_bytes();
            let b = s.xmm[1].to_le_bytes();
            let mut r = [0u8; 16];
            for k in 0..16 {
                r[k] = a[k].wrapping_add(b[k]);
            }
            e.xmm[0] = u128::from_le_bytes(r);
        });
        // high registers: paddb xmm15, xmm8  (66 45 0f fc f8)
        let o = ok(&mut n, &[0x66, 0x45, 0x0f, 0xfc, 0xf8], &s);
        expect(&s, &o, 5, |e| {
            let a = s.xmm[15].to_le_bytes();
            let b = s.xmm[8].to_le_bytes();
            let mut r = [0u8; 16];
            for k in 0..16 {
                r[k] = a[k].wrapping_add(b[k]);
            }
            e.xmm[15] = u128::from_le_bytes(r);
        });
    }

    #[test]
    fn movaps_store() {
        let mut n = Native::new().unwrap();
        let mut s = base();
        s.xmm[2] = 0x0f0e0d0c_0b0a0908_07060504_03020100;
        s.gpr[RDI] = ARENA_ADDR + 0x200;
        let o = ok(&mut n, &[0x0f, 0x29, 0x17], &s); // movaps [rdi], xmm2
        expect(&s, &o, 3, |e| {
            for k in 0..16 {
                e.arena[0x200 + k] = k as u8;
            }
        });
        // misaligned: #GP -> SIGSEGV
        s.gpr[RDI] = ARENA_ADDR + 0x201;
        assert_eq!(n.step(&[0x0f, 0x29, 0x17], &s).unwrap(), StepResult::Signal(11));
        // movups is fine with it
        let o = ok(&mut n, &[0x0f, 0x11, 0x17], &s);
        assert_eq!(&o.arena[0x201..0x211], &s.xmm[2].to_le_bytes());
    }

    #[test]
    fn mxcsr_is_reset_each_step() {
        let mut n = Native::new().unwrap();
        let mut s = base();
        // ldmxcsr [rdi] with round-to-zero | all masked
        s.gpr[RDI] = ARENA_ADDR;
        s.arena[0..4].copy_from_slice(&0x7f80u32.to_le_bytes());
        ok(&mut n, &[0x0f, 0xae, 0x17], &s);
        // stmxcsr [rdi] in the next step must see the default again
        let o = ok(&mut n, &[0x0f, 0xae, 0x1f], &s);
        assert_eq!(&o.arena[0..4], &0x1f80u32.to_le_bytes());
    }

    #[test]
    fn fs_and_gs_relative_loads() {
        let mut n = Native::new().unwrap();
        let mut s = base();
        s.fs_base = ARENA_ADDR;
        s.gs_base = ARENA_ADDR + 0x1000;
        s.arena[0..8].copy_from_slice(&0x1122_3344_5566_7788u64.to_le_bytes());
        s.arena[0x1010..0x1018].copy_from_slice(&0x99aa_bbcc_ddee_ff00u64.to_le_bytes());
        // mov rax, fs:[0]
        let o = ok(
            &mut n,
            &[0x64, 0x48, 0x8b, 0x04, 0x25, 0, 0, 0, 0],
            &s,
        );
        expect(&s, &o, 9, |e| e.gpr[RAX] = 0x1122_3344_5566_7788);
        // mov rax, gs:[0x10]
        let o = ok(
            &mut n,
            &[0x65, 0x48, 0x8b, 0x04, 0x25, 0x10, 0, 0, 0],
            &s,
        );
        expect(&s, &o, 9, |e| e.gpr[RAX] = 0x99aa_bbcc_ddee_ff00);
        // fs_base = 0: fs:[0] is address 0 -> SIGSEGV
        s.fs_base = 0;
        assert_eq!(
            n.step(&[0x64, 0x48, 0x8b, 0x04, 0x25, 0, 0, 0, 0], &s).unwrap(),
            StepResult::Signal(11)
        );
        // kernel-space base is rejected up front, tracee untouched
        s.fs_base = 0xffff_8000_0000_0000;
        assert!(n.step(&[0x90], &s).is_err());
        assert_eq!(n.spawn_count, 1);
    }

    #[test]
    fn pushfq_behaviour() {
        let mut n = Native::new().unwrap();
        let mut s = base();
        s.rflags = CF | ZF | OF;
        let off = (STACK_TOP - 8 - ARENA_ADDR) as usize;
        // default: TF artefact removed from the pushed image
        assert!(n.pushf_tf_fixup);
        let o = ok(&mut n, &[0x9c], &s);
        expect(&s, &o, 1, |e| {
            e.gpr[RSP] = STACK_TOP - 8;
            e.arena[off..off + 8].copy_from_slice(&(0x202u64 | CF | ZF | OF).to_le_bytes());
        });
        // raw: the CPU really pushes TF=1 while being single-stepped
        n.pushf_tf_fixup = false;
        let o = ok(&mut n, &[0x9c], &s);
        expect(&s, &o, 1, |e| {
            e.gpr[RSP] = STACK_TOP - 8;
            e.arena[off..off + 8].copy_from_slice(&(0x302u64 | CF | ZF | OF).to_le_bytes());
        });
        assert_eq!(o.rflags & 0x100, 0, "GETREGS hides the debugger's TF");
        // 16-bit pushf (66 9c)
        n.pushf_tf_fixup = true;
        let o = ok(&mut n, &[0x66, 0x9c], &s);
        expect(&s, &o, 2, |e| {
            e.gpr[RSP] = STACK_TOP - 2;
            e.arena[off + 6..off + 8]
                .copy_from_slice(&((0x202u64 | CF | ZF | OF) as u16).to_le_bytes());
        });
    }

    #[test]
    fn popfq_does_not_poison_later_steps() {
        let mut n = Native::new().unwrap();
        let mut s = base();
        let off = (STACK_TOP - ARENA_ADDR) as usize;
        // image without TF
        s.arena[off..off + 8].copy_from_slice(&(0x202u64 | CF | SF | DF).to_le_bytes());
        let o = ok(&mut n, &[0x9d], &s);
        expect(&s, &o, 1, |e| {
            e.gpr[RSP] = STACK_TOP + 8;
            e.rflags = 0x202 | CF | SF | DF;
        });
        let o = ok(&mut n, &[0x90], &s);
        expect(&s, &o, 1, |_| {});
        // image with TF: visible in the result of the popf itself only
        s.arena[off..off + 8].copy_from_slice(&(0x302u64 | ZF).to_le_bytes());
        let o = ok(&mut n, &[0x9d], &s);
        assert_eq!(o.rflags, 0x302 | ZF);
        for _ in 0..3 {
            let o = ok(&mut n, &[0x90], &s);
            expect(&s, &o, 1, |_| {});
        }
        assert_eq!(n.spawn_count, 1);
    }

    #[test]
    fn lahf_sahf() {
        let mut n = Native::new().unwrap();
        let mut s = base();
        s.rflags = CF | AF | SF | OF;
        s.gpr[RAX] = 0xffff_ffff_ffff_00ff;
        let o = ok(&mut n, &[0x9f], &s); // lahf
        expect(&s, &o, 1, |e| {
            e.gpr[RAX] = 0xffff_ffff_ffff_00ff | ((0x02 | CF | AF | SF) << 8);
        });
        // sahf: ah = ZF|PF, OF must be preserved
        s.gpr[RAX] = (ZF | PF) << 8;
        let o = ok(&mut n, &[0x9e], &s);
        expect(&s, &o, 1, |e| e.rflags = 0x202 | ZF | PF | OF);
    }

    #[test]
    fn cmpxchg() {
        let mut n = Native::new().unwrap();
        let mut s = base();
        s.gpr[RDI] = ARENA_ADDR + 0x80;
        s.gpr[RBX] = 0xdddd_dddd_dddd_dddd;
        s.arena[0x80..0x88].copy_from_slice(&0x1234u64.to_le_bytes());
        // equal: store rbx, ZF = 1
        s.gpr[RAX] = 0x1234;
        let o = ok(&mut n, &[0x48, 0x0f, 0xb1, 0x1f], &s); // cmpxchg [rdi], rbx
        expect(&s, &o, 4, |e| {
            e.arena[0x80..0x88].copy_from_slice(&0xdddd_dddd_dddd_ddddu64.to_le_bytes());
            e.rflags |= ZF | PF;
        });
        // not equal: rax <- [rdi], ZF = 0, flags as cmp 0x1235, 0x1234
        s.gpr[RAX] = 0x1235;
        let o = ok(&mut n, &[0xf0, 0x48, 0x0f, 0xb1, 0x1f], &s); // with lock
        expect(&s, &o, 5, |e| {
            e.gpr[RAX] = 0x1234;
        });
    }

    #[test]
    fn bsf_zero_source() {
        let mut n = Native::new().unwrap();
        let mut s = base();
        s.gpr[RBX] = 0;
        s.gpr[RAX] = 0x5555;
        let o = ok(&mut n, &[0x48, 0x0f, 0xbc, 0xc3], &s); // bsf rax, rbx
        assert_eq!(flags(&o) & ZF, ZF);
        assert_eq!(o.rip, CODE_ADDR + 4);
        // AMD documents (and Intel implements) "destination unchanged"
        assert_eq!(o.gpr[RAX], 0x5555);
        s.gpr[RBX] = 0x50;
        let o = ok(&mut n, &[0x48, 0x0f, 0xbc, 0xc3], &s);
        assert_eq!(o.gpr[RAX], 4);
        assert_eq!(flags(&o) & ZF, 0);
    }

    #[test]
    fn shl_rax_cl() {
        let mut n = Native::new().unwrap();
        let mut s = base();
        s.gpr[RAX] = 0xc000_0000_0000_0001;
        s.gpr[RCX] = 1;
        let o = ok(&mut n, &[0x48, 0xd3, 0xe0], &s);
        assert_eq!(o.gpr[RAX], 0x8000_0000_0000_0002);
        assert_eq!(flags(&o) & (CF | OF | SF | ZF), CF | SF); // OF = msb ^ CF = 0
        // count 0 (masked: 64 & 63): nothing changes, not even flags
        s.gpr[RCX] = 64;
        s.rflags = CF | ZF | OF | AF;
        let o = ok(&mut n, &[0x48, 0xd3, 0xe0], &s);
        expect(&s, &o, 3, |_| {});
        s.gpr[RCX] = 63;
        s.gpr[RAX] = 3;
        let o = ok(&mut n, &[0x48, 0xd3, 0xe0], &s);
        assert_eq!(o.gpr[RAX], 0x8000_0000_0000_0000);
        assert_eq!(flags(&o) & (CF | SF | ZF), CF | SF);
    }

    #[test]
    fn all_sixteen_gprs_round_trip() {
        let mut n = Native::new().unwrap();
        let s = base();
        // xchg r8, r15 (4d 87 c7)
        let o = ok(&mut n, &[0x4d, 0x87, 0xc7], &s);
        expect(&s, &o, 3, |e| e.gpr.swap(8, 15));
        // mov rsp, rbp / lea r12, [rip+0x10]
        let mut s = s;
        s.gpr[5] = 0xffff_8000_1234_5678; // canonical, see non_canonical_rsp
        let o = ok(&mut n, &[0x48, 0x89, 0xec], &s);
        expect(&s, &o, 3, |e| e.gpr[4] = s.gpr[5]);
        let o = ok(&mut n, &[0x4c, 0x8d, 0x25, 0x10, 0, 0, 0], &s);
        expect(&s, &o, 7, |e| e.gpr[12] = CODE_ADDR + 7 + 0x10);
    }

    #[test]
    fn non_canonical_rsp() {
        let mut n = Native::new().unwrap();
        let mut s = base();
        // as input: refused (it would oops the sandbox kernel)
        s.gpr[RSP] = 0x6666_6666_6666_6666;
        assert!(n.step(&[0x90], &s).is_err());
        s.gpr[RSP] = 0x0000_8000_0000_0000;
        assert!(n.step(&[0x90], &s).is_err());
        // canonical but unmapped / kernel-half values are fine
        for rsp in [0, 0x0000_7fff_ffff_fff8, 0xffff_8000_0000_0000, u64::MAX] {
            s.gpr[RSP] = rsp;
            let o = ok(&mut n, &[0x90], &s);
            expect(&s, &o, 1, |_| {});
        }
        // produced by the instruction: mov rsp, rbp.  Observed here: Signal(4).
        s.gpr[RSP] = STACK_TOP;
        s.gpr[5] = 0x6666_6666_6666_6666;
        match n.step(&[0x48, 0x89, 0xec], &s).unwrap() {
            StepResult::Signal(_) => {}
            StepResult::Ok(o) => assert_eq!(o.gpr[RSP], 0x6666_6666_6666_6666),
            StepResult::TooManySteps => panic!(),
        }
        let o = ok(&mut n, &[0x90], &s);
        expect(&s, &o, 1, |_| {});
        assert_eq!(n.spawn_count, 1);
    }

    /// `cargo test --release --offline -- --ignored --nocapture timing`
    #[test]
    #[ignore]
    fn timing_breakdown() {
        use std::time::Instant;
        let mut n = Native::new().unwrap();
        let s = base();
        const N: u32 = 20_000;
        let mut buf = vec![0u8; ARENA_SIZE];
        let t = Instant::now();
        for _ in 0..N {
            n.write_mem(ARENA_ADDR, &s.arena).unwrap();
        }
        println!("pwrite arena   {:7.2} us", t.elapsed().as_secs_f64() * 1e6 / N as f64);
        let t = Instant::now();
        for _ in 0..N {
            n.read_mem(ARENA_ADDR, &mut buf).unwrap();
        }
        println!("pread arena    {:7.2} us", t.elapsed().as_secs_f64() * 1e6 / N as f64);
        let t = Instant::now();
        for _ in 0..N {
            n.write_mem(CODE_ADDR, &[0x90; CODE_WRITE]).unwrap();
        }
        println!("pwrite code    {:7.2} us", t.elapsed().as_secs_f64() * 1e6 / N as f64);
        let t = Instant::now();
        for _ in 0..N {
            n.getregs().unwrap();
        }
        println!("GETREGS        {:7.2} us", t.elapsed().as_secs_f64() * 1e6 / N as f64);
        let t = Instant::now();
        for _ in 0..N {
            n.getfpregs().unwrap();
        }
        println!("GETFPREGS      {:7.2} us", t.elapsed().as_secs_f64() * 1e6 / N as f64);
        let t = Instant::now();
        for _ in 0..N {
            ok(&mut n, &[0x90], &s);
        }
        println!("full step      {:7.2} us", t.elapsed().as_secs_f64() * 1e6 / N as f64);
    }

    #[test]
    fn refuses_system_calls_and_bad_arguments() {
        let mut n = Native::new().unwrap();
        let s = base();
        assert!(n.step(&[0x0f, 0x05], &s).is_err()); // syscall
        assert!(n.step(&[0x0f, 0x34], &s).is_err()); // sysenter
        assert!(n.step(&[0xcd, 0x80], &s).is_err()); // int 0x80
        assert!(n.step(&[0x48, 0x0f, 0x05], &s).is_err()); // rex.w syscall
        assert!(n.step(&[0x66, 0xcd, 0x80], &s).is_err());
        assert!(n.step(&[], &s).is_err());
        assert!(n.step(&[0x90; 16], &s).is_err());
        let mut bad = s.clone();
        bad.arena.truncate(100);
        assert!(n.step(&[0x90], &bad).is_err());
        // 0f 05 as a *non-leading* byte pair is fine: mov eax, 0x050f (b8 0f 05 00 00)
        let o = ok(&mut n, &[0xb8, 0x0f, 0x05, 0x00, 0x00], &s);
        assert_eq!(o.gpr[RAX], 0x050f);
        assert_eq!(n.spawn_count, 1);
    }

    #[test]
    fn fifteen_byte_instruction() {
        let mut n = Native::new().unwrap();
        let s = base();
        // 7 x 66 prefix... keep it simple: 10 segment prefixes + mov eax, imm32
        let mut code = vec![0x3e; 10];
        code.extend_from_slice(&[0xb8, 1, 2, 3, 4]);
        assert_eq!(code.len(), 15);
        let o = ok(&mut n, &code, &s);
        expect(&s, &o, 15, |e| e.gpr[RAX] = 0x0403_0201);
        // 16 bytes worth of prefixes is #GP... (cannot be expressed: > 15 bytes refused)
    }

    #[test]
    fn recovers_when_child_is_killed() {
        let mut n = Native::new().unwrap();
        let s = base();
        let o1 = ok(&mut n, &[0x48, 0x01, 0xd8], &s);
        for round in 0..5 {
            let old = n.pid();
            unsafe { libc::kill(old, libc::SIGKILL) };
            let o2 = ok(&mut n, &[0x48, 0x01, 0xd8], &s);
            assert_eq!(o1, o2);
            assert_ne!(n.pid(), old);
            assert_eq!(n.spawn_count, 2 + round);
            // the old child has been reaped
            let mut st = 0;
            let r = unsafe { libc::waitpid(old, &mut st, libc::WNOHANG | libc::__WALL) };
            assert_eq!(r, -1);
            assert_eq!(errno(), libc::ECHILD);
        }
    }

    #[test]
    fn survives_asynchronous_signals() {
        let mut n = Native::new().unwrap();
        let s = base();
        let o1 = ok(&mut n, &[0x48, 0x01, 0xd8], &s);
        for sig in [libc::SIGUSR1, libc::SIGINT, libc::SIGTERM, libc::SIGCONT] {
            unsafe { libc::kill(n.pid(), sig) };
            let o2 = ok(&mut n, &[0x48, 0x01, 0xd8], &s);
            assert_eq!(o1, o2, "after signal {}", sig);
        }
        assert_eq!(n.spawn_count, 1);
    }

    fn count_fds() -> usize {
        std::fs::read_dir("/proc/self/fd").unwrap().count()
    }

    /// Counts process-global resources (fds, children), so it is only
    /// meaningful with `--test-threads=1`.
    #[test]
    fn no_fd_or_zombie_leaks() {
        let before = count_fds();
        {
            let mut n = Native::new().unwrap();
            let s = base();
            assert_eq!(count_fds(), before + 1);
            for i in 0..20 {
                // alternate results, and force respawns
                ok(&mut n, &[0x48, 0x01, 0xd8], &s);
                assert_eq!(n.step(&[0x0f, 0x0b], &s).unwrap(), StepResult::Signal(4));
                if i % 2 == 0 {
                    unsafe { libc::kill(n.pid(), libc::SIGKILL) };
                }
            }
            assert_eq!(count_fds(), before + 1);
            assert_eq!(n.spawn_count, 11);
        }
        assert_eq!(count_fds(), before);
        // every child this thread ever had is reaped
        let mut st = 0;
        let r = unsafe { libc::waitpid(-1, &mut st, libc::WNOHANG | libc::__WALL) };
        assert_eq!((r, errno()), (-1, libc::ECHILD));
    }

    #[test]
    fn many_steps_are_deterministic() {
        let mut n = Native::new().unwrap();
        let mut s = base();
        let mut x = 0x9e37_79b9_7f4a_7c15u64;
        for i in 0..20_000u64 {
            x ^= x << 13;
            x ^= x >> 7;
            x ^= x << 17;
            s.gpr[RAX] = x;
            s.gpr[RBX] = x.rotate_left(17) ^ i;
            s.rflags = x & RFLAGS_SETTABLE & !DF;
            let o = ok(&mut n, &[0x48, 0x11, 0xd8], &s); // adc rax, rbx
            let cin = s.rflags & CF;
            let (r1, c1) = s.gpr[RAX].overflowing_add(s.gpr[RBX]);
            let (r2, c2) = r1.overflowing_add(cin);
            assert_eq!(o.gpr[RAX], r2);
            assert_eq!(o.rflags & CF != 0, c1 | c2);
            assert_eq!(o.rflags & ZF != 0, r2 == 0);
            assert_eq!(o.rflags & SF != 0, (r2 as i64) < 0);
            assert_eq!(o.rflags & PF != 0, (r2 as u8).count_ones() % 2 == 0);
            assert_eq!(o.arena, s.arena);
            // sprinkle faults in between
            if i % 1000 == 0 {
                assert_eq!(n.step(&[0x0f, 0x0b], &s).unwrap(), StepResult::Signal(4));
            }
        }
        assert_eq!(n.spawn_count, 1);
    }

    #[test]
    fn two_tracees_side_by_side() {
        let mut a = Native::new().unwrap();
        let mut b = Native::new().unwrap();
        let mut s = base();
        s.gpr[RAX] = 1;
        s.gpr[RBX] = 2;
        let oa = ok(&mut a, &[0x48, 0x01, 0xd8], &s);
        let ob = ok(&mut b, &[0x48, 0x29, 0xd8], &s); // sub rax, rbx
        assert_eq!(oa.gpr[RAX], 3);
        assert_eq!(ob.gpr[RAX], u64::MAX);
        drop(a);
        let ob = ok(&mut b, &[0x48, 0x01, 0xd8], &s);
        assert_eq!(ob.gpr[RAX], 3);
    }
}
