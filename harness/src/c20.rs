//! C20 — Architecture descriptors agree with the lifters and the platform ABI.
//!
//! A finite space (7 architectures) enumerated completely on every run.
//! Observed side: the set of (name, width) scalars that the architecture's own
//! translator produces over a register-sweep corpus, the scalar written by a
//! stack-adjusting instruction, the width of load addresses, the loader's mapping.
//! Oracle side: internal consistency rules plus a small table transcribed from the
//! psABI documents.

use crate::c17::all_architectures;
use crate::elfgen::{self, ElfSpec, SegSpec};
use crate::fw::*;
use falcon::analysis::calling_convention::ReturnAddressType;
use falcon::architecture::{Architecture, Endian};
use falcon::il::{Operation, Scalar};
use falcon::loader::{Elf, Loader};
use falcon::translator::Options;
use serde_json::json;
use std::collections::{BTreeMap, BTreeSet};

pub struct C20 {}
impl C20 {
    pub fn new(_t: Tier) -> C20 {
        C20 {}
    }
}

fn collect_scalars(arch: &dyn Architecture, bytes: &[u8], out: &mut BTreeSet<(String, usize)>) -> bool {
    let t = arch.translator();
    match guard(|| t.translate_block(bytes, 0x40_0000, &Options::default())) {
        Ok(Ok(btr)) => {
            for (_, cfg) in btr.instructions() {
                for b in cfg.blocks() {
                    for i in b.instructions() {
                        for s in i.scalars().unwrap_or_default() {
                            out.insert((s.name().to_string(), s.bits()));
                        }
                    }
                }
                for e in cfg.edges() {
                    if let Some(c) = e.condition() {
                        for s in c.scalars() {
                            out.insert((s.name().to_string(), s.bits()));
                        }
                    }
                }
            }
            true
        }
        _ => false,
    }
}

fn word_bytes(arch: &dyn Architecture, w: u32) -> Vec<u8> {
    // AArch64 instructions are always little-endian; MIPS/PPC follow the architecture's byte order
    if arch.name().starts_with("aarch64") {
        w.to_le_bytes().to_vec()
    } else {
        match arch.endian() {
            Endian::Big => w.to_be_bytes().to_vec(),
            Endian::Little => w.to_le_bytes().to_vec(),
        }
    }
}

/// register-sweep corpus: one instruction per register number and register class
fn corpus(arch: &dyn Architecture) -> Vec<Vec<u8>> {
    let mut v = Vec::new();
    match arch.name() {
        "x86" => {
            for r in 0..8u8 {
                v.push(vec![0x89, 0xc0 | r << 3 | r]); // mov r32, r32
                v.push(vec![0x50 | r]); // push
            }
            v.push(vec![0x0f, 0x28, 0xc1]); // movaps xmm0, xmm1
            v.push(vec![0xc3]);
        }
        "amd64" => {
            for r in 0..16u8 {
                let rex = 0x48 | (r >> 3) << 2 | (r >> 3);
                v.push(vec![rex, 0x89, 0xc0 | (r & 7) << 3 | (r & 7)]); // mov r64, r64
            }
            v.push(vec![0x50]);
            v.push(vec![0x0f, 0x28, 0xc1]);
            v.push(vec![0xc3]);
        }
        "mips" | "mipsel" => {
            for r in 0..32u32 {
                v.push(word_bytes(arch, r << 21 | r << 16 | r << 11 | 0x21)); // addu r, r, r
            }
            v.push(word_bytes(arch, 0x0000_0018 | 4 << 21 | 5 << 16)); // mult (hi/lo)
            v.push(word_bytes(arch, 0x0000_0010 | 2 << 11)); // mfhi
        }
        "ppc" => {
            for r in 0..32u32 {
                v.push(word_bytes(arch, 31 << 26 | r << 21 | r << 16 | r << 11 | 266 << 1)); // add r, r, r
            }
            v.push(word_bytes(arch, 0x7c08_02a6)); // mflr r0
            v.push(word_bytes(arch, 0x7c09_03a6)); // mtctr r0
            v.push(word_bytes(arch, 0x2c03_0000)); // cmpwi r3, 0
        }
        _ => {
            for r in 0..31u32 {
                v.push(word_bytes(arch, 0x8b00_0000 | r << 16 | r << 5 | r)); // add xr, xr, xr
                v.push(word_bytes(arch, 0x3dc0_0000 | 1 << 5 | r)); // ldr q<r>, [x1]
            }
            v.push(word_bytes(arch, 0x3dc0_0000 | 1 << 5 | 31)); // ldr q31
            v.push(word_bytes(arch, 0x9100_03ff)); // add sp, sp, #0
            v.push(word_bytes(arch, 0xeb01_001f)); // cmp (flags)
            v.push(word_bytes(arch, 0x9400_0000)); // bl
        }
    }
    v
}

/// psABI facts: (argument registers in order, return register, return address: Ok(register) or Err(stack offset))
fn abi_table(name: &str) -> (Vec<&'static str>, &'static str, Result<&'static str, usize>) {
    match name {
        "x86" => (vec![], "eax", Err(0)),
        "amd64" => (vec!["rdi", "rsi", "rdx", "rcx", "r8", "r9"], "rax", Err(0)),
        "mips" | "mipsel" => (vec!["$a0", "$a1", "$a2", "$a3"], "$v0", Ok("$ra")),
        "ppc" => (vec!["r3", "r4", "r5", "r6", "r7", "r8", "r9", "r10"], "r3", Ok("lr")),
        _ => (vec!["x0", "x1", "x2", "x3", "x4", "x5", "x6", "x7"], "x0", Ok("x30")),
    }
}

fn e_machine(name: &str) -> (u16, bool, bool) {
    // (machine, class64, big endian)
    match name {
        "x86" => (3, false, false),
        "amd64" => (62, true, false),
        "mips" => (8, false, true),
        "mipsel" => (8, false, false),
        "ppc" => (20, false, true),
        "aarch64" => (183, true, false),
        _ => (183, true, true),
    }
}

impl Check for C20 {
    fn directed(&self) -> u64 {
        21
    }
    fn finite(&self) -> bool {
        true
    }
    fn run(&mut self, ctx: &mut Ctx, _rng: &mut Rng, case: u64) {
        if case >= 21 {
            return;
        }
        let archs = all_architectures();
        let arch = archs[(case % 7) as usize].as_ref();
        let name = arch.name().to_string();
        // What a translator emits must not depend on which other translators this process used before: cases 0-6
        // sweep an architecture in a process that lifted nothing else, cases 7-13 after every other architecture has
        // lifted something (in table order), cases 14-20 likewise in the reverse order. The sweep is repeated at the
        // end, behind one more round of the others, and must observe the same scalars.
        let others: Vec<usize> = match case / 7 {
            0 => Vec::new(),
            1 => (0..7).filter(|i| *i != (case % 7) as usize).collect(),
            _ => (0..7).rev().filter(|i| *i != (case % 7) as usize).collect(),
        };
        let warm = |ctx: &mut Ctx| {
            for i in &others {
                let o = archs[*i].as_ref();
                let mut sink = BTreeSet::new();
                for bytes in corpus(o).iter().take(6) {
                    ctx.eval();
                    collect_scalars(o, bytes, &mut sink);
                }
            }
        };
        warm(ctx);
        ctx.class(&format!("{}/history{}", name, case / 7));
        // a copy of a descriptor publishes what the original publishes
        {
            let c = arch.box_clone();
            ctx.eval();
            if c.name() != arch.name() || c.endian() != arch.endian() || c.word_size() != arch.word_size() || c.stack_pointer() != arch.stack_pointer() {
                ctx.violation(&format!("{}:box_clone_publishes_another_descriptor", name), json!({"architecture": name, "clone": c.name(), "clone_endian": format!("{:?}", c.endian())}));
            }
        }
        let cc = arch.calling_convention();
        let mut viol = |ctx: &mut Ctx, kind: &str, what: String, detail: serde_json::Value| {
            ctx.violation(&format!("{}:{}:{}", name, kind, what), json!({"architecture": name, "detail": detail}));
        };
        // ---- observed scalar set
        let mut observed: BTreeSet<(String, usize)> = BTreeSet::new();
        let mut lifted = 0;
        for bytes in corpus(arch) {
            ctx.eval();
            if collect_scalars(arch, &bytes, &mut observed) {
                lifted += 1;
            }
        }
        ctx.count_n(&format!("{}.corpus_instructions_lifted", name), lifted);
        {
            warm(ctx);
            let mut again: BTreeSet<(String, usize)> = BTreeSet::new();
            let mut lifted2 = 0;
            for bytes in corpus(arch) {
                ctx.eval();
                if collect_scalars(arch, &bytes, &mut again) {
                    lifted2 += 1;
                }
            }
            if again != observed || lifted2 != lifted {
                ctx.violation(
                    &format!("{}:lifted_scalars_depend_on_what_was_lifted_before", name),
                    json!({"architecture": name, "lifted_first": lifted, "lifted_again": lifted2,
                           "only_first": observed.difference(&again).take(8).map(|(n, b)| format!("{}:{}", n, b)).collect::<Vec<_>>(),
                           "only_again": again.difference(&observed).take(8).map(|(n, b)| format!("{}:{}", n, b)).collect::<Vec<_>>()}),
                );
            }
        }
        // every instruction of the corpus is one the translator is documented to lift
        if lifted != corpus(arch).len() as u64 {
            ctx.count_n(&format!("{}.corpus_instructions_not_lifted", name), corpus(arch).len() as u64 - lifted);
        }
        let by_name: BTreeMap<String, BTreeSet<usize>> = observed.iter().fold(BTreeMap::new(), |mut m, (n, b)| {
            m.entry(n.clone()).or_default().insert(*b);
            m
        });
        // ---- (a) every register named by the convention is produced by the translator with that width
        let mut named: Vec<(&'static str, Scalar)> = Vec::new();
        for s in cc.argument_registers() {
            named.push(("argument", s.clone()));
        }
        named.push(("return", cc.return_register().clone()));
        if let ReturnAddressType::Register(s) = cc.return_address_type() {
            named.push(("return_address", s.clone()));
        }
        for s in cc.preserved_registers() {
            named.push(("preserved", s.clone()));
        }
        for s in cc.trashed_registers() {
            named.push(("trashed", s.clone()));
        }
        for (role, s) in &named {
            ctx.eval();
            if !observed.contains(&(s.name().to_string(), s.bits())) {
                let kind = if by_name.contains_key(s.name()) { "cc_register_wrong_width" } else { "cc_register_not_produced" };
                viol(ctx, kind, format!("{}:{}:{}", role, s.name(), s.bits()), json!({"role": role, "scalar": format!("{}", s), "translator_widths": by_name.get(s.name())}));
            } else {
                ctx.class(&format!("{}/{}/{}", name, role, s.name()));
            }
        }
        // ---- (b) no register name both preserved and trashed
        let pres: BTreeSet<&str> = cc.preserved_registers().iter().map(|s| s.name()).collect();
        let trash: BTreeSet<&str> = cc.trashed_registers().iter().map(|s| s.name()).collect();
        for n in pres.intersection(&trash) {
            ctx.eval();
            viol(ctx, "preserved_and_trashed", n.to_string(), json!({"register": n}));
        }
        // ... also through the query interface: no named register is reported both preserved and trashed, and
        // the answers agree with the published sets
        for (role, s) in &named {
            let (p, t) = (cc.is_preserved(s), cc.is_trashed(s));
            ctx.eval();
            if p == Some(true) && t == Some(true) {
                viol(ctx, "is_preserved_and_is_trashed", s.name().to_string(), json!({"register": format!("{}", s), "role": role}));
            }
            let in_p = cc.preserved_registers().contains(s);
            let in_t = cc.trashed_registers().contains(s);
            if (p == Some(true)) != in_p || (t == Some(true)) != in_t {
                viol(ctx, "query_disagrees_with_register_sets", s.name().to_string(), json!({"register": format!("{}", s), "is_preserved": format!("{:?}", p), "is_trashed": format!("{:?}", t), "in_preserved": in_p, "in_trashed": in_t}));
            }
        }
        // ---- (c) the stack pointer is preserved
        let sp = arch.stack_pointer();
        ctx.eval();
        if !cc.preserved_registers().contains(&sp) {
            viol(ctx, "stack_pointer_not_preserved", sp.name().to_string(), json!({"stack_pointer": format!("{}", sp)}));
        }
        ctx.eval();
        if cc.is_preserved(&sp) != Some(true) {
            viol(ctx, "is_preserved_stack_pointer", sp.name().to_string(), json!({"is_preserved": format!("{:?}", cc.is_preserved(&sp))}));
        }
        // ---- (d) stack slots are one machine word
        ctx.eval();
        if cc.stack_argument_length() * 8 != arch.word_size() {
            viol(ctx, "stack_argument_length", format!("{}", cc.stack_argument_length()), json!({"stack_argument_length": cc.stack_argument_length(), "word_size_bits": arch.word_size()}));
        }
        // stack arguments are consecutive slots
        let nreg = cc.argument_registers().len();
        for k in 0..3 {
            ctx.eval();
            match cc.argument_type(nreg + k) {
                falcon::analysis::calling_convention::ArgumentType::Stack(off) => {
                    if off != cc.stack_argument_offset() + k * arch.word_size() / 8 {
                        viol(ctx, "stack_argument_offset", format!("arg{}", nreg + k), json!({"offset": off, "expected": cc.stack_argument_offset() + k * arch.word_size() / 8}));
                    }
                }
                other => viol(ctx, "stack_argument_type", format!("arg{}", nreg + k), json!({"got": format!("{:?}", other)})),
            }
        }
        // ---- (e) platform ABI table
        let (args, ret, ra) = abi_table(&name);
        let got_args: Vec<&str> = cc.argument_registers().iter().map(|s| s.name()).take(args.len().max(1)).collect();
        ctx.eval();
        if !args.is_empty() && got_args != args {
            viol(ctx, "abi_argument_order", "integer".into(), json!({"expected": args, "actual": got_args}));
        }
        if args.is_empty() && !cc.argument_registers().is_empty() {
            viol(ctx, "abi_argument_order", "none_expected".into(), json!({"actual": got_args}));
        }
        // after the integer argument registers only registers the translator produces may follow (checked in (a))
        for (k, a) in args.iter().enumerate() {
            ctx.eval();
            match cc.argument_type(k) {
                falcon::analysis::calling_convention::ArgumentType::Register(s) if s.name() == *a && s.bits() == arch.word_size() => {}
                other => viol(ctx, "abi_argument_type", format!("arg{}", k), json!({"expected": a, "actual": format!("{:?}", other)})),
            }
        }
        ctx.eval();
        if cc.return_register().name() != ret || cc.return_register().bits() != arch.word_size() {
            viol(ctx, "abi_return_register", ret.into(), json!({"actual": format!("{}", cc.return_register())}));
        }
        ctx.eval();
        match (ra, cc.return_address_type()) {
            (Ok(r), ReturnAddressType::Register(s)) if s.name() == r && s.bits() == arch.word_size() => {}
            (Err(off), ReturnAddressType::Stack(o)) if *o == off => {}
            (exp, got) => viol(ctx, "abi_return_address", "location".into(), json!({"expected": format!("{:?}", exp), "actual": format!("{:?}", got)})),
        }
        // ---- (f) the stack pointer scalar is the one a stack-adjusting instruction writes
        let stack_instr: Vec<u8> = match name.as_str() {
            "x86" | "amd64" => vec![0x50],
            "mips" | "mipsel" => word_bytes(arch, 0x27bd_fff0),
            "ppc" => word_bytes(arch, 0x9421_fff0),
            _ => word_bytes(arch, 0xd100_43ff),
        };
        ctx.eval();
        {
            let t = arch.translator();
            match guard(|| t.translate_block(&stack_instr, 0x40_0000, &Options::default())) {
                Ok(Ok(btr)) => {
                    let mut written: BTreeSet<(String, usize)> = BTreeSet::new();
                    let mut addr_widths: BTreeSet<usize> = BTreeSet::new();
                    for (_, cfg) in btr.instructions() {
                        for b in cfg.blocks() {
                            for i in b.instructions() {
                                for s in i.scalars_written().unwrap_or_default() {
                                    written.insert((s.name().to_string(), s.bits()));
                                }
                                if let Operation::Store { index, .. } | Operation::Load { index, .. } = i.operation() {
                                    addr_widths.insert(index.bits());
                                }
                            }
                        }
                    }
                    if !written.contains(&(sp.name().to_string(), sp.bits())) {
                        viol(ctx, "stack_pointer_not_written_by_stack_instruction", sp.name().to_string(), json!({"instruction": hex(&stack_instr), "written": format!("{:?}", written)}));
                    }
                    for w in addr_widths {
                        ctx.eval();
                        if w != arch.word_size() {
                            viol(ctx, "address_width_differs_from_word_size", format!("{}", w), json!({"word_size": arch.word_size()}));
                        }
                    }
                    ctx.class(&format!("{}/stack_instruction", name));
                }
                other => viol(ctx, "stack_instruction_not_lifted", hex(&stack_instr), json!({"endian": format!("{:?}", arch.endian()), "result": format!("{:?}", other.map(|r| r.map(|_| ()).map_err(|e| format!("{:?}", e))))})),
            }
        }
        // ---- (g) data endianness: the only lifted code whose meaning depends on the byte order is the MIPS
        // unaligned-access idiom (lwl/lwr, swl/swr); run it on memory of the descriptor's byte order
        if name == "mips" || name == "mipsel" {
            use crate::liftexec::{run_block, IlState, LiftEnd};
            use crate::refeval::Bv;
            let big = arch.endian() == Endian::Big;
            let base: u64 = 0x1000;
            let image: Vec<u8> = (0..12u8).map(|i| 0xa0 + i * 7).collect();
            for off in 0..4u32 {
                let (hi_off, lo_off) = if big { (off, off + 3) } else { (off + 3, off) };
                // lwl $a0, hi($a1) ; lwr $a0, lo($a1)     then     swl $a2, hi($a1) ; swr $a2, lo($a1)
                let words = [0x88a4_0000 | hi_off, 0x98a4_0000 | lo_off, 0xa8a6_0000 | (hi_off + 4), 0xb8a6_0000 | (lo_off + 4)];
                let mut st = IlState::new(big);
                for (i, b) in image.iter().enumerate() {
                    st.mem.insert(base + i as u64, *b);
                }
                st.set("$a0", Bv::from_u64(0x1111_1111, 32));
                st.set("$a1", Bv::from_u64(base, 32));
                st.set("$a2", Bv::from_u64(0xdead_beef, 32));
                let mut ok = true;
                for (k, w) in words.iter().enumerate() {
                    let t = arch.translator();
                    let bytes = word_bytes(arch, *w);
                    match guard(|| t.translate_block(&bytes, 0x40_0000 + 4 * k as u64, &Options::default())) {
                        Ok(Ok(btr)) => {
                            if !matches!(run_block(&btr, &mut st), LiftEnd::Next(_)) {
                                ok = false;
                            }
                        }
                        _ => ok = false,
                    }
                }
                ctx.eval();
                let a = (base + off as u64) as usize - base as usize;
                let want_load = if big { u32::from_be_bytes(image[a..a + 4].try_into().unwrap()) } else { u32::from_le_bytes(image[a..a + 4].try_into().unwrap()) };
                let want_store = if big { 0xdead_beefu32.to_be_bytes() } else { 0xdead_beefu32.to_le_bytes() };
                let got_load = st.get_u64("$a0");
                let got_store: Vec<u8> = (0..4).map(|i| *st.mem.get(&(base + 4 + off as u64 + i)).unwrap_or(&0)).collect();
                if !ok || got_load != Some(want_load as u64) || got_store != want_store {
                    viol(ctx, "unaligned_word_idiom_disagrees_with_endian", format!("offset{}", off), json!({"endian": format!("{:?}", arch.endian()), "words": words.iter().map(|w| format!("0x{:08x}", w)).collect::<Vec<_>>(),
                        "loaded": got_load.map(|v| format!("0x{:x}", v)), "expected_load": format!("0x{:x}", want_load), "stored": hex(&got_store), "expected_store": hex(&want_store)}));
                } else {
                    ctx.class(&format!("{}/unaligned_idiom/offset{}", name, off));
                }
            }
        }
        ctx.eval();
        if sp.bits() != arch.word_size() {
            viol(ctx, "stack_pointer_width", format!("{}", sp.bits()), json!({"word_size": arch.word_size()}));
        }
        // ---- (h) the ELF loader maps (e_machine, EI_DATA) to the same descriptor
        let (machine, class64, big) = e_machine(&name);
        // the machine field names the instruction set whatever the file class: an x32 object (EM_X86_64 in an
        // ELFCLASS32 file) holds 64-bit-mode code
        let classes: Vec<bool> = if name == "amd64" { vec![class64, false] } else { vec![class64] };
        for class64 in classes {
        let spec = ElfSpec {
            class64,
            big_endian: big,
            machine,
            etype: 2,
            entry: 0x1000,
            segments: vec![SegSpec { vaddr: 0x1000, data: vec![0; 16], memsz: 16, r: true, w: false, x: true }],
            symtab: vec![],
            dynsyms: vec![],
            needed: vec![],
            soname: None,
            interp: None,
            dyn_relocs: vec![],
            plt_relocs: vec![],
            use_rela: false,
            extra_dynamic: vec![],
            meta_vaddr: 0x20000,
        };
        let built = elfgen::build(&spec);
        ctx.eval();
        match guard(|| Elf::new(built.bytes.clone(), 0)) {
            Ok(Ok(elf)) => {
                let la = elf.architecture();
                if la.name() != name || la.endian() != arch.endian() || la.word_size() != arch.word_size() || la.stack_pointer() != sp {
                    viol(ctx, "loader_architecture_mismatch", format!("{}{}", la.name(), if class64 { "" } else { ":elfclass32" }), json!({"loader": la.name(), "endian": format!("{:?}", la.endian()), "elf_class64": class64, "e_machine": machine}));
                } else {
                    ctx.class(&format!("{}/loader{}", name, if class64 { "" } else { "/elfclass32" }));
                }
            }
            other => viol(ctx, "loader_rejects_architecture", format!("em{}", machine), json!({"result": format!("{:?}", other.map(|r| r.map(|_| ()).map_err(|e| format!("{:?}", e))))})),
        }
        }
        if ctx.want_sample() {
            ctx.sample(json!({"architecture": name, "observed_scalars": observed.iter().map(|(n, b)| format!("{}:{}", n, b)).collect::<Vec<_>>(),
                              "calling_convention_registers": named.iter().map(|(r, s)| format!("{} {}", r, s)).collect::<Vec<_>>()}));
        }
    }
}
