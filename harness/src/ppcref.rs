//! Independent reference interpreter for the 32-bit PowerPC UISA (big-endian, user-mode,
//! integer subset).  Written from the architecture definition ("PowerPC Microprocessor Family:
//! The Programming Environments Manual for 32-bit Microprocessors", chapters 3, 4 and 8, and
//! Power ISA Book I) and from nothing else.  No dependencies beyond `std`.
//!
//! Conventions
//! -----------
//! * IBM bit numbering: bit 0 is the most significant bit of a 32-bit word.
//! * `PpcCpu::cr` packs CR field n (0..7) into bits (31-4n)..(28-4n) of the u32, i.e. CR bit i
//!   (IBM numbering, 0..31) is `(cr >> (31 - i)) & 1`, which is the natural `mfcr` image.
//! * Anything other than `PpcOutcome::Next` leaves the CPU state completely unchanged.
//! * `mnemonic(w)` is `None` exactly when `step(.., w)` returns `PpcOutcome::Unmodelled`.
//! * Reserved instruction fields that are non-zero make the form invalid (PEM 4.1.3.2), reported
//!   as `Invalid("reserved field nonzero")`.  Two fields that the 32-bit PEM calls reserved but
//!   that Power ISA Book I later defined as pure hints are ignored instead: the BH field
//!   (bits 19:20) of bclr/bcctr and the L field (bits 9:10) of sync (lwsync/ptesync are treated
//!   as sync, i.e. as no-ops).
//! * `MemFault(a)`: `a` is the address of the first unmapped byte in ascending access order.

use std::collections::BTreeMap;

#[derive(Clone, Debug, PartialEq, Eq)]
pub struct PpcCpu {
    pub gpr: [u32; 32],
    pub lr: u32,
    pub ctr: u32,
    /// Condition register, IBM bit numbering packed so that CR field n (0..7) occupies
    /// bits (31-4n)..(28-4n) of this u32: cr >> (28 - 4*n) & 0xF = [LT, GT, EQ, SO] with LT the
    /// most significant of the four.
    pub cr: u32,
    pub xer_so: bool,
    pub xer_ov: bool,
    pub xer_ca: bool,
    /// byte addressed, absent = unmapped; data is big-endian
    pub mem: BTreeMap<u32, u8>,
}

#[derive(Clone, Debug, PartialEq, Eq)]
pub enum PpcOutcome {
    /// Normal completion; pc = address of next instruction (branch target if taken, else pc+4)
    Next { pc: u32 },
    /// "sc", "trap" (tw/twi when the condition holds)
    Trap(&'static str),
    /// a load/store touched an unmapped byte; state unchanged
    MemFault(u32),
    /// instruction form is invalid / boundedly undefined per the architecture for this encoding
    Invalid(&'static str),
    /// word not modelled
    Unmodelled,
}

impl Default for PpcCpu {
    fn default() -> Self {
        PpcCpu {
            gpr: [0; 32],
            lr: 0,
            ctr: 0,
            cr: 0,
            xer_so: false,
            xer_ov: false,
            xer_ca: false,
            mem: BTreeMap::new(),
        }
    }
}

impl PpcCpu {
    pub fn new() -> Self {
        Self::default()
    }

    /// 4-bit CR field n (0..7): [LT, GT, EQ, SO], LT = 8.
    pub fn crf(&self, n: usize) -> u32 {
        (self.cr >> (28 - 4 * n)) & 0xF
    }

    pub fn set_crf(&mut self, n: usize, v: u32) {
        let sh = 28 - 4 * n;
        self.cr = (self.cr & !(0xF << sh)) | ((v & 0xF) << sh);
    }

    /// CR bit i in IBM numbering (0 = LT of cr0, 31 = SO of cr7).
    pub fn cr_bit(&self, i: u32) -> bool {
        (self.cr >> (31 - i)) & 1 != 0
    }

    pub fn set_cr_bit(&mut self, i: u32, v: bool) {
        let m = 1u32 << (31 - i);
        if v {
            self.cr |= m;
        } else {
            self.cr &= !m;
        }
    }

    /// XER image: SO = bit 0 (0x8000_0000), OV = bit 1, CA = bit 2.  The byte-count field
    /// (bits 25:31) is not part of this model and reads as zero.
    pub fn xer(&self) -> u32 {
        ((self.xer_so as u32) << 31) | ((self.xer_ov as u32) << 30) | ((self.xer_ca as u32) << 29)
    }

    pub fn set_xer(&mut self, v: u32) {
        self.xer_so = v & 0x8000_0000 != 0;
        self.xer_ov = v & 0x4000_0000 != 0;
        self.xer_ca = v & 0x2000_0000 != 0;
    }

    /// Map (or overwrite) `bytes` starting at `addr` (addresses wrap modulo 2^32).
    pub fn map_bytes(&mut self, addr: u32, bytes: &[u8]) {
        for (i, b) in bytes.iter().enumerate() {
            self.mem.insert(addr.wrapping_add(i as u32), *b);
        }
    }

    /// Big-endian read of n (1..=4) bytes; None if any byte is unmapped.
    pub fn load_be(&self, addr: u32, n: u32) -> Option<u32> {
        let mut v = 0u32;
        for i in 0..n {
            v = (v << 8) | (*self.mem.get(&addr.wrapping_add(i))? as u32);
        }
        Some(v)
    }
}

// ---------------------------------------------------------------------------------------------
// Decoded instruction representation
// ---------------------------------------------------------------------------------------------

#[derive(Clone, Copy, Debug, PartialEq, Eq)]
enum XoOp {
    Add,
    Addc,
    Adde,
    Addme,
    Addze,
    Subf,
    Subfc,
    Subfe,
    Subfme,
    Subfze,
    Neg,
    Mullw,
    Mulhw,
    Mulhwu,
    Divw,
    Divwu,
}

#[derive(Clone, Copy, Debug, PartialEq, Eq)]
enum DOp {
    Addi,
    Addis,
    Addic,
    AddicRc,
    Subfic,
    Mulli,
}

#[derive(Clone, Copy, Debug, PartialEq, Eq)]
enum LogImmOp {
    AndiRc,
    AndisRc,
    Ori,
    Oris,
    Xori,
    Xoris,
}

#[derive(Clone, Copy, Debug, PartialEq, Eq)]
enum LogOp {
    And,
    Andc,
    Or,
    Orc,
    Xor,
    Nand,
    Nor,
    Eqv,
}

#[derive(Clone, Copy, Debug, PartialEq, Eq)]
enum UnOp {
    Extsb,
    Extsh,
    Cntlzw,
}

#[derive(Clone, Copy, Debug, PartialEq, Eq)]
enum ShOp {
    Slw,
    Srw,
    Sraw,
}

#[derive(Clone, Copy, Debug, PartialEq, Eq)]
enum CrOp {
    And,
    Or,
    Xor,
    Nand,
    Nor,
    Eqv,
    Andc,
    Orc,
}

#[derive(Clone, Copy, Debug, PartialEq, Eq)]
enum Spr {
    Xer,
    Lr,
    Ctr,
}

/// Access width; `Ha` = halfword algebraic (sign-extending load).
#[derive(Clone, Copy, Debug, PartialEq, Eq)]
enum Width {
    B,
    H,
    Ha,
    W,
}

#[derive(Clone, Copy, Debug, PartialEq, Eq)]
enum Off {
    Imm(u32),
    Reg(usize),
}

#[derive(Clone, Copy, Debug, PartialEq, Eq)]
enum Insn {
    Xo { op: XoOp, rd: usize, ra: usize, rb: usize, oe: bool, rc: bool },
    DArith { op: DOp, rd: usize, ra: usize, simm: u32 },
    LogImm { op: LogImmOp, rs: usize, ra: usize, uimm: u32 },
    Log { op: LogOp, rs: usize, ra: usize, rb: usize, rc: bool },
    Un { op: UnOp, rs: usize, ra: usize, rc: bool },
    Shift { op: ShOp, rs: usize, ra: usize, rb: usize, rc: bool },
    Srawi { rs: usize, ra: usize, sh: u32, rc: bool },
    Rlwinm { rs: usize, ra: usize, sh: u32, mb: u32, me: u32, rc: bool },
    Rlwimi { rs: usize, ra: usize, sh: u32, mb: u32, me: u32, rc: bool },
    Rlwnm { rs: usize, ra: usize, rb: usize, mb: u32, me: u32, rc: bool },
    Cmp { signed: bool, crfd: usize, ra: usize, rb: usize },
    CmpImm { signed: bool, crfd: usize, ra: usize, imm: u32 },
    Mfcr { rd: usize },
    Mtcrf { rs: usize, crm: u32 },
    Mcrf { crfd: usize, crfs: usize },
    CrLog { op: CrOp, bt: u32, ba: u32, bb: u32 },
    Mfspr { rd: usize, spr: Spr },
    Mtspr { rs: usize, spr: Spr },
    B { li: u32, aa: bool, lk: bool },
    Bc { bo: u32, bi: u32, bd: u32, aa: bool, lk: bool },
    Bclr { bo: u32, bi: u32, lk: bool },
    Bcctr { bo: u32, bi: u32, lk: bool },
    Load { w: Width, rd: usize, ra: usize, off: Off, update: bool },
    Store { w: Width, rs: usize, ra: usize, off: Off, update: bool },
    Lmw { rd: usize, ra: usize, d: u32 },
    Stmw { rs: usize, ra: usize, d: u32 },
    Sc,
    Tw { to: u32, ra: usize, rb: usize },
    Twi { to: u32, ra: usize, simm: u32 },
    Nop, // sync / isync / eieio
}

/// None = not modelled; Some((name, Err(reason))) = recognised but the form is invalid for every
/// machine state; Some((name, Ok(insn))) = executable.
type Dec = Option<(&'static str, Result<Insn, &'static str>)>;

const RESERVED: &str = "reserved field nonzero";

fn ok(name: &'static str, i: Insn) -> Dec {
    Some((name, Ok(i)))
}

fn bad(name: &'static str, why: &'static str) -> Dec {
    Some((name, Err(why)))
}

fn sel2(names: [&'static str; 2], rc: bool) -> &'static str {
    names[rc as usize]
}

/// names = [base, base., baseo, baseo.]
fn sel4(names: [&'static str; 4], oe: bool, rc: bool) -> &'static str {
    names[((oe as usize) << 1) | rc as usize]
}

fn xo_names(op: XoOp) -> [&'static str; 4] {
    match op {
        XoOp::Add => ["add", "add.", "addo", "addo."],
        XoOp::Addc => ["addc", "addc.", "addco", "addco."],
        XoOp::Adde => ["adde", "adde.", "addeo", "addeo."],
        XoOp::Addme => ["addme", "addme.", "addmeo", "addmeo."],
        XoOp::Addze => ["addze", "addze.", "addzeo", "addzeo."],
        XoOp::Subf => ["subf", "subf.", "subfo", "subfo."],
        XoOp::Subfc => ["subfc", "subfc.", "subfco", "subfco."],
        XoOp::Subfe => ["subfe", "subfe.", "subfeo", "subfeo."],
        XoOp::Subfme => ["subfme", "subfme.", "subfmeo", "subfmeo."],
        XoOp::Subfze => ["subfze", "subfze.", "subfzeo", "subfzeo."],
        XoOp::Neg => ["neg", "neg.", "nego", "nego."],
        XoOp::Mullw => ["mullw", "mullw.", "mullwo", "mullwo."],
        XoOp::Mulhw => ["mulhw", "mulhw.", "mulhw", "mulhw."],
        XoOp::Mulhwu => ["mulhwu", "mulhwu.", "mulhwu", "mulhwu."],
        XoOp::Divw => ["divw", "divw.", "divwo", "divwo."],
        XoOp::Divwu => ["divwu", "divwu.", "divwuo", "divwuo."],
    }
}

fn ls_dform(
    name: &'static str,
    load: bool,
    w: Width,
    update: bool,
    rt: usize,
    ra: usize,
    d: u32,
) -> Dec {
    if update {
        if ra == 0 {
            return bad(name, "update form with rA=0");
        }
        if load && ra == rt {
            return bad(name, "load with update with rA=rD");
        }
    }
    if load {
        ok(name, Insn::Load { w, rd: rt, ra, off: Off::Imm(d), update })
    } else {
        ok(name, Insn::Store { w, rs: rt, ra, off: Off::Imm(d), update })
    }
}

fn ls_xform(
    name: &'static str,
    load: bool,
    w: Width,
    update: bool,
    rt: usize,
    ra: usize,
    rb: usize,
    bit31: bool,
) -> Dec {
    if bit31 {
        return bad(name, RESERVED);
    }
    if update {
        if ra == 0 {
            return bad(name, "update form with rA=0");
        }
        if load && ra == rt {
            return bad(name, "load with update with rA=rD");
        }
    }
    if load {
        ok(name, Insn::Load { w, rd: rt, ra, off: Off::Reg(rb), update })
    } else {
        ok(name, Insn::Store { w, rs: rt, ra, off: Off::Reg(rb), update })
    }
}

fn decode(w: u32) -> Dec {
    let opcd = w >> 26;
    let rt = ((w >> 21) & 31) as usize; // rD / rS / TO / BO / crbD
    let ra = ((w >> 16) & 31) as usize; // rA / BI / crbA
    let rb = ((w >> 11) & 31) as usize; // rB / SH / crbB
    let simm = (w & 0xFFFF) as u16 as i16 as i32 as u32; // sign-extended 16-bit immediate
    let uimm = w & 0xFFFF;
    let rc = w & 1 != 0;
    let mb = (w >> 6) & 31;
    let me = (w >> 1) & 31;

    match opcd {
        3 => ok("twi", Insn::Twi { to: rt as u32, ra, simm }),
        7 => ok("mulli", Insn::DArith { op: DOp::Mulli, rd: rt, ra, simm }),
        8 => ok("subfic", Insn::DArith { op: DOp::Subfic, rd: rt, ra, simm }),
        10 | 11 => {
            let signed = opcd == 11;
            let name = if signed { "cmpi" } else { "cmpli" };
            // crfD = bits 6:8, bit 9 reserved, L = bit 10
            if rt & 2 != 0 {
                return bad(name, RESERVED);
            }
            if rt & 1 != 0 {
                return bad(name, "compare with L=1 on a 32-bit implementation");
            }
            let imm = if signed { simm } else { uimm };
            ok(name, Insn::CmpImm { signed, crfd: rt >> 2, ra, imm })
        }
        12 => ok("addic", Insn::DArith { op: DOp::Addic, rd: rt, ra, simm }),
        13 => ok("addic.", Insn::DArith { op: DOp::AddicRc, rd: rt, ra, simm }),
        14 => ok("addi", Insn::DArith { op: DOp::Addi, rd: rt, ra, simm }),
        15 => ok("addis", Insn::DArith { op: DOp::Addis, rd: rt, ra, simm }),
        16 => {
            let aa = w & 2 != 0;
            let lk = w & 1 != 0;
            let name = ["bc", "bcl", "bca", "bcla"][((aa as usize) << 1) | lk as usize];
            let bd = (w & 0xFFFC) as u16 as i16 as i32 as u32; // BD || 0b00, sign-extended
            ok(name, Insn::Bc { bo: rt as u32, bi: ra as u32, bd, aa, lk })
        }
        17 => {
            // sc: bit 30 must be 1, everything else is reserved
            if w & 2 == 0 {
                return None;
            }
            if w & 0x03FF_FFFD != 0 {
                return bad("sc", RESERVED);
            }
            ok("sc", Insn::Sc)
        }
        18 => {
            let aa = w & 2 != 0;
            let lk = w & 1 != 0;
            let name = ["b", "bl", "ba", "bla"][((aa as usize) << 1) | lk as usize];
            // LI || 0b00 sign-extended from 26 bits
            let li = (((w & 0x03FF_FFFC) << 6) as i32 >> 6) as u32;
            ok(name, Insn::B { li, aa, lk })
        }
        19 => decode19(w),
        20 => ok(
            sel2(["rlwimi", "rlwimi."], rc),
            Insn::Rlwimi { rs: rt, ra, sh: rb as u32, mb, me, rc },
        ),
        21 => ok(
            sel2(["rlwinm", "rlwinm."], rc),
            Insn::Rlwinm { rs: rt, ra, sh: rb as u32, mb, me, rc },
        ),
        23 => ok(sel2(["rlwnm", "rlwnm."], rc), Insn::Rlwnm { rs: rt, ra, rb, mb, me, rc }),
        24 => ok("ori", Insn::LogImm { op: LogImmOp::Ori, rs: rt, ra, uimm }),
        25 => ok("oris", Insn::LogImm { op: LogImmOp::Oris, rs: rt, ra, uimm }),
        26 => ok("xori", Insn::LogImm { op: LogImmOp::Xori, rs: rt, ra, uimm }),
        27 => ok("xoris", Insn::LogImm { op: LogImmOp::Xoris, rs: rt, ra, uimm }),
        28 => ok("andi.", Insn::LogImm { op: LogImmOp::AndiRc, rs: rt, ra, uimm }),
        29 => ok("andis.", Insn::LogImm { op: LogImmOp::AndisRc, rs: rt, ra, uimm }),
        31 => decode31(w),
        32 => ls_dform("lwz", true, Width::W, false, rt, ra, simm),
        33 => ls_dform("lwzu", true, Width::W, true, rt, ra, simm),
        34 => ls_dform("lbz", true, Width::B, false, rt, ra, simm),
        35 => ls_dform("lbzu", true, Width::B, true, rt, ra, simm),
        36 => ls_dform("stw", false, Width::W, false, rt, ra, simm),
        37 => ls_dform("stwu", false, Width::W, true, rt, ra, simm),
        38 => ls_dform("stb", false, Width::B, false, rt, ra, simm),
        39 => ls_dform("stbu", false, Width::B, true, rt, ra, simm),
        40 => ls_dform("lhz", true, Width::H, false, rt, ra, simm),
        41 => ls_dform("lhzu", true, Width::H, true, rt, ra, simm),
        42 => ls_dform("lha", true, Width::Ha, false, rt, ra, simm),
        43 => ls_dform("lhau", true, Width::Ha, true, rt, ra, simm),
        44 => ls_dform("sth", false, Width::H, false, rt, ra, simm),
        45 => ls_dform("sthu", false, Width::H, true, rt, ra, simm),
        46 => {
            // "If rA is in the range of registers specified to be loaded, including the case in
            // which rA = 0, the instruction form is invalid."
            if ra >= rt {
                return bad("lmw", "lmw with rA in the range of registers loaded");
            }
            ok("lmw", Insn::Lmw { rd: rt, ra, d: simm })
        }
        47 => ok("stmw", Insn::Stmw { rs: rt, ra, d: simm }),
        _ => None,
    }
}

/// Opcode 19 (XL-form).
fn decode19(w: u32) -> Dec {
    let xo = (w >> 1) & 0x3FF;
    let bt = (w >> 21) & 31;
    let ba = (w >> 16) & 31;
    let bb = (w >> 11) & 31;
    let bit31 = w & 1 != 0;
    let cr = |name: &'static str, op: CrOp| -> Dec {
        if bit31 {
            return bad(name, RESERVED);
        }
        ok(name, Insn::CrLog { op, bt, ba, bb })
    };
    match xo {
        0 => {
            // mcrf: crfD = bits 6:8, bits 9:10 reserved, crfS = bits 11:13, bits 14:20 and 31
            // reserved
            if w & 0x0063_F801 != 0 {
                return bad("mcrf", RESERVED);
            }
            ok("mcrf", Insn::Mcrf { crfd: (bt >> 2) as usize, crfs: (ba >> 2) as usize })
        }
        16 => {
            let lk = bit31;
            let name = sel2(["bclr", "bclrl"], lk);
            // bits 16:18 reserved; bits 19:20 are the BH hint in Power ISA (ignored)
            if bb & 0x1C != 0 {
                return bad(name, RESERVED);
            }
            ok(name, Insn::Bclr { bo: bt, bi: ba, lk })
        }
        528 => {
            let lk = bit31;
            let name = sel2(["bcctr", "bcctrl"], lk);
            if bb & 0x1C != 0 {
                return bad(name, RESERVED);
            }
            if bt & 4 == 0 {
                // BO[2] = 0 asks for "decrement and test CTR": invalid form for bcctr
                return bad(name, "bcctr with BO[2]=0 (decrement CTR)");
            }
            ok(name, Insn::Bcctr { bo: bt, bi: ba, lk })
        }
        33 => cr("crnor", CrOp::Nor),
        129 => cr("crandc", CrOp::Andc),
        193 => cr("crxor", CrOp::Xor),
        225 => cr("crnand", CrOp::Nand),
        257 => cr("crand", CrOp::And),
        289 => cr("creqv", CrOp::Eqv),
        417 => cr("crorc", CrOp::Orc),
        449 => cr("cror", CrOp::Or),
        150 => {
            if w & 0x03FF_F801 != 0 {
                return bad("isync", RESERVED);
            }
            ok("isync", Insn::Nop)
        }
        _ => None,
    }
}

/// Opcode 31 (X-, XO-, XFX-forms).
fn decode31(w: u32) -> Dec {
    let xo10 = (w >> 1) & 0x3FF;
    let rt = ((w >> 21) & 31) as usize;
    let ra = ((w >> 16) & 31) as usize;
    let rb = ((w >> 11) & 31) as usize;
    let rc = w & 1 != 0;

    let logic = |names: [&'static str; 2], op: LogOp| -> Dec {
        ok(sel2(names, rc), Insn::Log { op, rs: rt, ra, rb, rc })
    };
    let unary = |names: [&'static str; 2], op: UnOp| -> Dec {
        let name = sel2(names, rc);
        if rb != 0 {
            return bad(name, RESERVED);
        }
        ok(name, Insn::Un { op, rs: rt, ra, rc })
    };
    let shift = |names: [&'static str; 2], op: ShOp| -> Dec {
        ok(sel2(names, rc), Insn::Shift { op, rs: rt, ra, rb, rc })
    };

    match xo10 {
        0 | 32 => {
            let signed = xo10 == 0;
            let name = if signed { "cmp" } else { "cmpl" };
            if rc || rt & 2 != 0 {
                return bad(name, RESERVED);
            }
            if rt & 1 != 0 {
                return bad(name, "compare with L=1 on a 32-bit implementation");
            }
            ok(name, Insn::Cmp { signed, crfd: rt >> 2, ra, rb })
        }
        4 => {
            if rc {
                return bad("tw", RESERVED);
            }
            ok("tw", Insn::Tw { to: rt as u32, ra, rb })
        }
        19 => {
            // mfcr: bits 11:20 and 31 reserved (bit 11 = 1 would be Power ISA mfocrf)
            if w & 0x001F_F801 != 0 {
                return bad("mfcr", RESERVED);
            }
            ok("mfcr", Insn::Mfcr { rd: rt })
        }
        144 => {
            // mtcrf: bit 11 reserved (1 = Power ISA mtocrf), CRM = bits 12:19, bits 20, 31 reserved
            if w & 0x0010_0801 != 0 {
                return bad("mtcrf", RESERVED);
            }
            ok("mtcrf", Insn::Mtcrf { rs: rt, crm: (w >> 12) & 0xFF })
        }
        339 | 467 => {
            // SPR number = spr[5:9] || spr[0:4]
            let n = (((w >> 11) & 31) << 5) | ((w >> 16) & 31);
            let spr = match n {
                1 => Spr::Xer,
                8 => Spr::Lr,
                9 => Spr::Ctr,
                _ => return None,
            };
            let name = if xo10 == 339 { "mfspr" } else { "mtspr" };
            if rc {
                return bad(name, RESERVED);
            }
            if xo10 == 339 {
                ok(name, Insn::Mfspr { rd: rt, spr })
            } else {
                ok(name, Insn::Mtspr { rs: rt, spr })
            }
        }
        // logical
        28 => logic(["and", "and."], LogOp::And),
        60 => logic(["andc", "andc."], LogOp::Andc),
        124 => logic(["nor", "nor."], LogOp::Nor),
        284 => logic(["eqv", "eqv."], LogOp::Eqv),
        316 => logic(["xor", "xor."], LogOp::Xor),
        412 => logic(["orc", "orc."], LogOp::Orc),
        444 => logic(["or", "or."], LogOp::Or),
        476 => logic(["nand", "nand."], LogOp::Nand),
        26 => unary(["cntlzw", "cntlzw."], UnOp::Cntlzw),
        922 => unary(["extsh", "extsh."], UnOp::Extsh),
        954 => unary(["extsb", "extsb."], UnOp::Extsb),
        // shifts
        24 => shift(["slw", "slw."], ShOp::Slw),
        536 => shift(["srw", "srw."], ShOp::Srw),
        792 => shift(["sraw", "sraw."], ShOp::Sraw),
        824 => ok(
            sel2(["srawi", "srawi."], rc),
            Insn::Srawi { rs: rt, ra, sh: rb as u32, rc },
        ),
        // loads / stores, X-form
        23 => ls_xform("lwzx", true, Width::W, false, rt, ra, rb, rc),
        55 => ls_xform("lwzux", true, Width::W, true, rt, ra, rb, rc),
        87 => ls_xform("lbzx", true, Width::B, false, rt, ra, rb, rc),
        119 => ls_xform("lbzux", true, Width::B, true, rt, ra, rb, rc),
        279 => ls_xform("lhzx", true, Width::H, false, rt, ra, rb, rc),
        311 => ls_xform("lhzux", true, Width::H, true, rt, ra, rb, rc),
        343 => ls_xform("lhax", true, Width::Ha, false, rt, ra, rb, rc),
        375 => ls_xform("lhaux", true, Width::Ha, true, rt, ra, rb, rc),
        151 => ls_xform("stwx", false, Width::W, false, rt, ra, rb, rc),
        183 => ls_xform("stwux", false, Width::W, true, rt, ra, rb, rc),
        215 => ls_xform("stbx", false, Width::B, false, rt, ra, rb, rc),
        247 => ls_xform("stbux", false, Width::B, true, rt, ra, rb, rc),
        407 => ls_xform("sthx", false, Width::H, false, rt, ra, rb, rc),
        439 => ls_xform("sthux", false, Width::H, true, rt, ra, rb, rc),
        // storage barriers
        598 => {
            // bits 6:8, 11:20, 31 reserved; bits 9:10 = Power ISA L field (ignored)
            if w & 0x039F_F801 != 0 {
                return bad("sync", RESERVED);
            }
            ok("sync", Insn::Nop)
        }
        854 => {
            if w & 0x03FF_F801 != 0 {
                return bad("eieio", RESERVED);
            }
            ok("eieio", Insn::Nop)
        }
        _ => {
            // XO-form: 9-bit extended opcode in bits 22:30, OE = bit 21
            let oe = w & 0x400 != 0;
            let (op, has_oe, has_rb) = match xo10 & 0x1FF {
                266 => (XoOp::Add, true, true),
                10 => (XoOp::Addc, true, true),
                138 => (XoOp::Adde, true, true),
                234 => (XoOp::Addme, true, false),
                202 => (XoOp::Addze, true, false),
                40 => (XoOp::Subf, true, true),
                8 => (XoOp::Subfc, true, true),
                136 => (XoOp::Subfe, true, true),
                232 => (XoOp::Subfme, true, false),
                200 => (XoOp::Subfze, true, false),
                104 => (XoOp::Neg, true, false),
                235 => (XoOp::Mullw, true, true),
                75 => (XoOp::Mulhw, false, true),
                11 => (XoOp::Mulhwu, false, true),
                491 => (XoOp::Divw, true, true),
                459 => (XoOp::Divwu, true, true),
                _ => return None,
            };
            let name = sel4(xo_names(op), oe, rc);
            if (oe && !has_oe) || (!has_rb && rb != 0) {
                return bad(name, RESERVED);
            }
            ok(name, Insn::Xo { op, rd: rt, ra, rb, oe, rc })
        }
    }
}

// ---------------------------------------------------------------------------------------------
// Execution helpers
// ---------------------------------------------------------------------------------------------

/// a + b + cin -> (low 32 bits, carry out of bit 0, signed overflow)
fn adder(a: u32, b: u32, cin: bool) -> (u32, bool, bool) {
    let wide = a as u64 + b as u64 + cin as u64;
    let res = wide as u32;
    let carry = (wide >> 32) & 1 != 0;
    // both addends have the same sign and the result's sign differs
    let ovf = ((a ^ res) & (b ^ res)) >> 31 != 0;
    (res, carry, ovf)
}

/// MASK(MB, ME): ones from IBM bit MB through IBM bit ME inclusive, wrapping around through
/// bit 31 -> bit 0 when MB > ME.
fn mask32(mb: u32, me: u32) -> u32 {
    let from_mb = 0xFFFF_FFFFu32 >> mb; // bits mb..31
    let to_me = 0xFFFF_FFFFu32 << (31 - me); // bits 0..me
    if mb <= me {
        from_mb & to_me
    } else {
        from_mb | to_me
    }
}

/// Arithmetic right shift by n (0..63) with the architected CA.
fn sra(s: u32, n: u32) -> (u32, bool) {
    let neg = (s as i32) < 0;
    if n == 0 {
        (s, false)
    } else if n >= 32 {
        // 32 sign bits; CA receives the sign bit
        (if neg { 0xFFFF_FFFF } else { 0 }, neg)
    } else {
        let res = ((s as i32) >> n) as u32;
        let shifted_out = s & ((1u32 << n) - 1);
        (res, neg && shifted_out != 0)
    }
}

fn trap_cond(to: u32, a: u32, b: u32) -> bool {
    let (sa, sb) = (a as i32, b as i32);
    (to & 16 != 0 && sa < sb)
        || (to & 8 != 0 && sa > sb)
        || (to & 4 != 0 && a == b)
        || (to & 2 != 0 && a < b)
        || (to & 1 != 0 && a > b)
}

fn set_cr0(cpu: &mut PpcCpu, res: u32) {
    let mut v = if (res as i32) < 0 {
        8
    } else if res != 0 {
        4
    } else {
        2
    };
    if cpu.xer_so {
        v |= 1;
    }
    cpu.set_crf(0, v);
}

fn compare(cpu: &mut PpcCpu, crfd: usize, signed: bool, a: u32, b: u32) {
    let lt = if signed { (a as i32) < (b as i32) } else { a < b };
    let gt = if signed { (a as i32) > (b as i32) } else { a > b };
    let mut v = if lt {
        8
    } else if gt {
        4
    } else {
        2
    };
    if cpu.xer_so {
        v |= 1;
    }
    cpu.set_crf(crfd, v);
}

/// First unmapped byte of [ea, ea+n) (wrapping), if any.
fn first_unmapped(cpu: &PpcCpu, ea: u32, n: u32) -> Option<u32> {
    (0..n).map(|i| ea.wrapping_add(i)).find(|a| !cpu.mem.contains_key(a))
}

fn store_be(cpu: &mut PpcCpu, ea: u32, n: u32, val: u32) {
    for i in 0..n {
        let byte = (val >> (8 * (n - 1 - i))) as u8;
        cpu.mem.insert(ea.wrapping_add(i), byte);
    }
}

/// Evaluate BO/BI.  Returns (new CTR value, branch taken).
fn branch_cond(cpu: &PpcCpu, bo: u32, bi: u32) -> (u32, bool) {
    let mut ctr = cpu.ctr;
    if bo & 0b00100 == 0 {
        ctr = ctr.wrapping_sub(1);
    }
    // ctr_ok = BO[2] | ((CTR != 0) xor BO[3])
    let ctr_ok = bo & 0b00100 != 0 || ((ctr != 0) != (bo & 0b00010 != 0));
    // cond_ok = BO[0] | (CR[BI] == BO[1])
    let cond_ok = bo & 0b10000 != 0 || (cpu.cr_bit(bi) == (bo & 0b01000 != 0));
    (ctr, ctr_ok && cond_ok)
}

fn exec(cpu: &mut PpcCpu, pc: u32, insn: Insn) -> PpcOutcome {
    let next = PpcOutcome::Next { pc: pc.wrapping_add(4) };
    match insn {
        Insn::Xo { op, rd, ra, rb, oe, rc } => {
            let a = cpu.gpr[ra];
            let b = cpu.gpr[rb];
            let cin = cpu.xer_ca;
            // (result, Some(new CA) if the instruction is a carrying form, overflow)
            let (res, ca, ov): (u32, Option<bool>, bool) = match op {
                XoOp::Add => {
                    let (r, _, o) = adder(a, b, false);
                    (r, None, o)
                }
                XoOp::Addc => {
                    let (r, c, o) = adder(a, b, false);
                    (r, Some(c), o)
                }
                XoOp::Adde => {
                    let (r, c, o) = adder(a, b, cin);
                    (r, Some(c), o)
                }
                XoOp::Addme => {
                    let (r, c, o) = adder(a, 0xFFFF_FFFF, cin);
                    (r, Some(c), o)
                }
                XoOp::Addze => {
                    let (r, c, o) = adder(a, 0, cin);
                    (r, Some(c), o)
                }
                XoOp::Subf => {
                    let (r, _, o) = adder(!a, b, true);
                    (r, None, o)
                }
                XoOp::Subfc => {
                    let (r, c, o) = adder(!a, b, true);
                    (r, Some(c), o)
                }
                XoOp::Subfe => {
                    let (r, c, o) = adder(!a, b, cin);
                    (r, Some(c), o)
                }
                XoOp::Subfme => {
                    let (r, c, o) = adder(!a, 0xFFFF_FFFF, cin);
                    (r, Some(c), o)
                }
                XoOp::Subfze => {
                    let (r, c, o) = adder(!a, 0, cin);
                    (r, Some(c), o)
                }
                XoOp::Neg => {
                    let (r, _, o) = adder(!a, 0, true);
                    (r, None, o)
                }
                XoOp::Mullw => {
                    let p = (a as i32 as i64) * (b as i32 as i64);
                    let r = p as u32;
                    (r, None, p != r as i32 as i64)
                }
                XoOp::Mulhw => {
                    let p = (a as i32 as i64) * (b as i32 as i64);
                    ((p >> 32) as u32, None, false)
                }
                XoOp::Mulhwu => {
                    let p = (a as u64) * (b as u64);
                    ((p >> 32) as u32, None, false)
                }
                XoOp::Divw => {
                    if b == 0 || (a == 0x8000_0000 && b == 0xFFFF_FFFF) {
                        return PpcOutcome::Invalid("div undefined");
                    }
                    (((a as i32) / (b as i32)) as u32, None, false)
                }
                XoOp::Divwu => {
                    if b == 0 {
                        return PpcOutcome::Invalid("div undefined");
                    }
                    (a / b, None, false)
                }
            };
            cpu.gpr[rd] = res;
            if let Some(c) = ca {
                cpu.xer_ca = c;
            }
            if oe {
                cpu.xer_ov = ov;
                if ov {
                    cpu.xer_so = true;
                }
            }
            if rc {
                set_cr0(cpu, res);
            }
            next
        }
        Insn::DArith { op, rd, ra, simm } => {
            let a = cpu.gpr[ra];
            let a0 = if ra == 0 { 0 } else { a }; // (rA|0)
            match op {
                DOp::Addi => cpu.gpr[rd] = a0.wrapping_add(simm),
                DOp::Addis => cpu.gpr[rd] = a0.wrapping_add(simm << 16),
                DOp::Addic | DOp::AddicRc => {
                    let (r, c, _) = adder(a, simm, false);
                    cpu.gpr[rd] = r;
                    cpu.xer_ca = c;
                    if op == DOp::AddicRc {
                        set_cr0(cpu, r);
                    }
                }
                DOp::Subfic => {
                    let (r, c, _) = adder(!a, simm, true);
                    cpu.gpr[rd] = r;
                    cpu.xer_ca = c;
                }
                DOp::Mulli => {
                    let p = (a as i32 as i64) * (simm as i32 as i64);
                    cpu.gpr[rd] = p as u32;
                }
            }
            next
        }
        Insn::LogImm { op, rs, ra, uimm } => {
            let s = cpu.gpr[rs];
            let r = match op {
                LogImmOp::AndiRc => s & uimm,
                LogImmOp::AndisRc => s & (uimm << 16),
                LogImmOp::Ori => s | uimm,
                LogImmOp::Oris => s | (uimm << 16),
                LogImmOp::Xori => s ^ uimm,
                LogImmOp::Xoris => s ^ (uimm << 16),
            };
            cpu.gpr[ra] = r;
            if matches!(op, LogImmOp::AndiRc | LogImmOp::AndisRc) {
                set_cr0(cpu, r);
            }
            next
        }
        Insn::Log { op, rs, ra, rb, rc } => {
            let s = cpu.gpr[rs];
            let b = cpu.gpr[rb];
            let r = match op {
                LogOp::And => s & b,
                LogOp::Andc => s & !b,
                LogOp::Or => s | b,
                LogOp::Orc => s | !b,
                LogOp::Xor => s ^ b,
                LogOp::Nand => !(s & b),
                LogOp::Nor => !(s | b),
                LogOp::Eqv => !(s ^ b),
            };
            cpu.gpr[ra] = r;
            if rc {
                set_cr0(cpu, r);
            }
            next
        }
        Insn::Un { op, rs, ra, rc } => {
            let s = cpu.gpr[rs];
            let r = match op {
                UnOp::Extsb => s as u8 as i8 as i32 as u32,
                UnOp::Extsh => s as u16 as i16 as i32 as u32,
                UnOp::Cntlzw => s.leading_zeros(),
            };
            cpu.gpr[ra] = r;
            if rc {
                set_cr0(cpu, r);
            }
            next
        }
        Insn::Shift { op, rs, ra, rb, rc } => {
            let s = cpu.gpr[rs];
            let n = cpu.gpr[rb] & 0x3F; // rB[26:31]
            let r = match op {
                ShOp::Slw => {
                    if n >= 32 {
                        0
                    } else {
                        s << n
                    }
                }
                ShOp::Srw => {
                    if n >= 32 {
                        0
                    } else {
                        s >> n
                    }
                }
                ShOp::Sraw => {
                    let (r, ca) = sra(s, n);
                    cpu.xer_ca = ca;
                    r
                }
            };
            cpu.gpr[ra] = r;
            if rc {
                set_cr0(cpu, r);
            }
            next
        }
        Insn::Srawi { rs, ra, sh, rc } => {
            let (r, ca) = sra(cpu.gpr[rs], sh);
            cpu.gpr[ra] = r;
            cpu.xer_ca = ca;
            if rc {
                set_cr0(cpu, r);
            }
            next
        }
        Insn::Rlwinm { rs, ra, sh, mb, me, rc } => {
            let r = cpu.gpr[rs].rotate_left(sh) & mask32(mb, me);
            cpu.gpr[ra] = r;
            if rc {
                set_cr0(cpu, r);
            }
            next
        }
        Insn::Rlwimi { rs, ra, sh, mb, me, rc } => {
            let m = mask32(mb, me);
            let r = (cpu.gpr[rs].rotate_left(sh) & m) | (cpu.gpr[ra] & !m);
            cpu.gpr[ra] = r;
            if rc {
                set_cr0(cpu, r);
            }
            next
        }
        Insn::Rlwnm { rs, ra, rb, mb, me, rc } => {
            let n = cpu.gpr[rb] & 31; // rB[27:31]
            let r = cpu.gpr[rs].rotate_left(n) & mask32(mb, me);
            cpu.gpr[ra] = r;
            if rc {
                set_cr0(cpu, r);
            }
            next
        }
        Insn::Cmp { signed, crfd, ra, rb } => {
            let (a, b) = (cpu.gpr[ra], cpu.gpr[rb]);
            compare(cpu, crfd, signed, a, b);
            next
        }
        Insn::CmpImm { signed, crfd, ra, imm } => {
            let a = cpu.gpr[ra];
            compare(cpu, crfd, signed, a, imm);
            next
        }
        Insn::Mfcr { rd } => {
            cpu.gpr[rd] = cpu.cr;
            next
        }
        Insn::Mtcrf { rs, crm } => {
            let mut mask = 0u32;
            for n in 0..8 {
                // CRM bit n (IBM numbering inside the 8-bit field) selects CR field n
                if crm & (0x80 >> n) != 0 {
                    mask |= 0xF << (28 - 4 * n);
                }
            }
            cpu.cr = (cpu.gpr[rs] & mask) | (cpu.cr & !mask);
            next
        }
        Insn::Mcrf { crfd, crfs } => {
            let v = cpu.crf(crfs);
            cpu.set_crf(crfd, v);
            next
        }
        Insn::CrLog { op, bt, ba, bb } => {
            let a = cpu.cr_bit(ba);
            let b = cpu.cr_bit(bb);
            let r = match op {
                CrOp::And => a & b,
                CrOp::Or => a | b,
                CrOp::Xor => a ^ b,
                CrOp::Nand => !(a & b),
                CrOp::Nor => !(a | b),
                CrOp::Eqv => !(a ^ b),
                CrOp::Andc => a & !b,
                CrOp::Orc => a | !b,
            };
            cpu.set_cr_bit(bt, r);
            next
        }
        Insn::Mfspr { rd, spr } => {
            cpu.gpr[rd] = match spr {
                Spr::Xer => cpu.xer(),
                Spr::Lr => cpu.lr,
                Spr::Ctr => cpu.ctr,
            };
            next
        }
        Insn::Mtspr { rs, spr } => {
            let v = cpu.gpr[rs];
            match spr {
                Spr::Xer => cpu.set_xer(v),
                Spr::Lr => cpu.lr = v,
                Spr::Ctr => cpu.ctr = v,
            }
            next
        }
        Insn::B { li, aa, lk } => {
            let target = if aa { li } else { pc.wrapping_add(li) };
            if lk {
                cpu.lr = pc.wrapping_add(4);
            }
            PpcOutcome::Next { pc: target }
        }
        Insn::Bc { bo, bi, bd, aa, lk } => {
            let (ctr, taken) = branch_cond(cpu, bo, bi);
            cpu.ctr = ctr;
            if lk {
                cpu.lr = pc.wrapping_add(4);
            }
            if taken {
                PpcOutcome::Next { pc: if aa { bd } else { pc.wrapping_add(bd) } }
            } else {
                next
            }
        }
        Insn::Bclr { bo, bi, lk } => {
            let (ctr, taken) = branch_cond(cpu, bo, bi);
            let target = cpu.lr & !3; // the OLD link register
            cpu.ctr = ctr;
            if lk {
                cpu.lr = pc.wrapping_add(4);
            }
            if taken {
                PpcOutcome::Next { pc: target }
            } else {
                next
            }
        }
        Insn::Bcctr { bo, bi, lk } => {
            // BO[2] = 1 guaranteed by decode, so CTR is neither decremented nor tested
            let cond_ok = bo & 0b10000 != 0 || (cpu.cr_bit(bi) == (bo & 0b01000 != 0));
            let target = cpu.ctr & !3;
            if lk {
                cpu.lr = pc.wrapping_add(4);
            }
            if cond_ok {
                PpcOutcome::Next { pc: target }
            } else {
                next
            }
        }
        Insn::Load { w, rd, ra, off, update } => {
            // update forms have rA != 0 (decode), so (rA|0) applies uniformly
            let base = if ra == 0 { 0 } else { cpu.gpr[ra] };
            let disp = match off {
                Off::Imm(d) => d,
                Off::Reg(rb) => cpu.gpr[rb],
            };
            let ea = base.wrapping_add(disp);
            let n = match w {
                Width::B => 1,
                Width::H | Width::Ha => 2,
                Width::W => 4,
            };
            let raw = match cpu.load_be(ea, n) {
                Some(v) => v,
                None => return PpcOutcome::MemFault(first_unmapped(cpu, ea, n).unwrap()),
            };
            let val = if w == Width::Ha { raw as u16 as i16 as i32 as u32 } else { raw };
            cpu.gpr[rd] = val;
            if update {
                cpu.gpr[ra] = ea;
            }
            next
        }
        Insn::Store { w, rs, ra, off, update } => {
            let base = if ra == 0 { 0 } else { cpu.gpr[ra] };
            let disp = match off {
                Off::Imm(d) => d,
                Off::Reg(rb) => cpu.gpr[rb],
            };
            let ea = base.wrapping_add(disp);
            let n = match w {
                Width::B => 1,
                Width::H | Width::Ha => 2,
                Width::W => 4,
            };
            if let Some(a) = first_unmapped(cpu, ea, n) {
                return PpcOutcome::MemFault(a);
            }
            let val = cpu.gpr[rs]; // value of rS before any update of rA
            store_be(cpu, ea, n, val);
            if update {
                cpu.gpr[ra] = ea;
            }
            next
        }
        Insn::Lmw { rd, ra, d } => {
            let base = if ra == 0 { 0 } else { cpu.gpr[ra] };
            let ea = base.wrapping_add(d);
            if ea & 3 != 0 {
                // "EA must be a multiple of four. If it is not, either the system alignment
                // exception handler is invoked or the results are boundedly undefined."
                return PpcOutcome::Invalid("lmw/stmw with EA not a multiple of 4");
            }
            let count = (32 - rd) as u32;
            if let Some(a) = first_unmapped(cpu, ea, 4 * count) {
                return PpcOutcome::MemFault(a);
            }
            for i in 0..count {
                let v = cpu.load_be(ea.wrapping_add(4 * i), 4).unwrap();
                cpu.gpr[rd + i as usize] = v;
            }
            next
        }
        Insn::Stmw { rs, ra, d } => {
            let base = if ra == 0 { 0 } else { cpu.gpr[ra] };
            let ea = base.wrapping_add(d);
            if ea & 3 != 0 {
                return PpcOutcome::Invalid("lmw/stmw with EA not a multiple of 4");
            }
            let count = (32 - rs) as u32;
            if let Some(a) = first_unmapped(cpu, ea, 4 * count) {
                return PpcOutcome::MemFault(a);
            }
            for i in 0..count {
                let v = cpu.gpr[rs + i as usize];
                store_be(cpu, ea.wrapping_add(4 * i), 4, v);
            }
            next
        }
        Insn::Sc => PpcOutcome::Trap("sc"),
        Insn::Tw { to, ra, rb } => {
            if trap_cond(to, cpu.gpr[ra], cpu.gpr[rb]) {
                PpcOutcome::Trap("trap")
            } else {
                next
            }
        }
        Insn::Twi { to, ra, simm } => {
            if trap_cond(to, cpu.gpr[ra], simm) {
                PpcOutcome::Trap("trap")
            } else {
                next
            }
        }
        Insn::Nop => next,
    }
}

// ---------------------------------------------------------------------------------------------
// Public entry points
// ---------------------------------------------------------------------------------------------

/// Canonical lower-case base mnemonic for a modelled word (including words whose form is
/// invalid, e.g. "lwzu" with rA=0), else None.  Simplified mnemonics are never returned:
/// `li` is "addi", `mr` is "or", `nop` is "ori", `blr` is "bclr", `mflr` is "mfspr", `cmpwi` is
/// "cmpi", `slwi` is "rlwinm" and so on.
pub fn mnemonic(word: u32) -> Option<&'static str> {
    decode(word).map(|(name, _)| name)
}

/// Execute `word` located at address `pc`.
pub fn step(cpu: &mut PpcCpu, pc: u32, word: u32) -> PpcOutcome {
    match decode(word) {
        None => PpcOutcome::Unmodelled,
        Some((_, Err(why))) => PpcOutcome::Invalid(why),
        Some((_, Ok(insn))) => exec(cpu, pc, insn),
    }
}

// ---------------------------------------------------------------------------------------------
// Tests.  Expected values are derived by hand from the architecture definitions; instruction
// words are either well-known assembler outputs or assembled field by field in the comments.
// ---------------------------------------------------------------------------------------------
#[cfg(test)]
mod tests {
    use super::*;

    const PC: u32 = 0x1000;

    fn next(pc: u32) -> PpcOutcome {
        PpcOutcome::Next { pc }
    }

    /// Run one instruction at PC and require fall-through.
    fn run(cpu: &mut PpcCpu, word: u32) {
        assert_eq!(step(cpu, PC, word), next(PC + 4), "word {:#010x}", word);
    }

    /// Require that `word` yields `out` and leaves the state untouched.
    fn run_unchanged(cpu: &PpcCpu, word: u32, out: PpcOutcome) {
        let mut c = cpu.clone();
        assert_eq!(step(&mut c, PC, word), out, "word {:#010x}", word);
        assert_eq!(&c, cpu, "state changed by word {:#010x}", word);
    }

    // ---- addi / addis / li / lis ------------------------------------------------------------

    #[test]
    fn li_is_addi_with_ra0_literal_zero() {
        let mut c = PpcCpu::new();
        c.gpr[0] = 0xDEAD_0000; // must NOT be used: rA=0 means literal 0
        run(&mut c, 0x3860_0001); // li r3,1
        assert_eq!(c.gpr[3], 1);
        run(&mut c, 0x3860_FFFF); // li r3,-1
        assert_eq!(c.gpr[3], 0xFFFF_FFFF);
        run(&mut c, 0x3800_8000); // li r0,-32768
        assert_eq!(c.gpr[0], 0xFFFF_8000);
        assert_eq!(mnemonic(0x3860_0001), Some("addi"));
    }

    #[test]
    fn addi_with_register_and_negative_imm() {
        let mut c = PpcCpu::new();
        c.gpr[4] = 1;
        c.xer_ca = true;
        run(&mut c, 0x3864_FFFE); // addi r3,r4,-2
        assert_eq!(c.gpr[3], 0xFFFF_FFFF);
        assert!(c.xer_ca, "addi must not touch CA");
        assert_eq!(c.cr, 0);
        c.gpr[1] = 0x2000;
        run(&mut c, 0x3821_0010); // addi r1,r1,16
        assert_eq!(c.gpr[1], 0x2010);
    }

    #[test]
    fn lis_and_addis() {
        let mut c = PpcCpu::new();
        c.gpr[0] = 0x1234;
        run(&mut c, 0x3D20_1234); // lis r9,0x1234
        assert_eq!(c.gpr[9], 0x1234_0000);
        run(&mut c, 0x3D20_FFFF); // lis r9,-1
        assert_eq!(c.gpr[9], 0xFFFF_0000);
        c.gpr[4] = 0xFFFF_0005;
        run(&mut c, 0x3C64_0001); // addis r3,r4,1
        assert_eq!(c.gpr[3], 0x0000_0005);
        assert_eq!(mnemonic(0x3D20_1234), Some("addis"));
    }

    #[test]
    fn lis_ori_constant_idiom() {
        let mut c = PpcCpu::new();
        run(&mut c, 0x3C60_DEAD); // lis r3,0xDEAD
        run(&mut c, 0x6063_BEEF); // ori r3,r3,0xBEEF
        assert_eq!(c.gpr[3], 0xDEAD_BEEF);
    }

    // ---- add family ----------------------------------------------------------------------------

    #[test]
    fn add_plain_touches_no_flags() {
        let mut c = PpcCpu::new();
        c.gpr[4] = 0x7FFF_FFFF;
        c.gpr[5] = 1;
        c.xer_ca = true;
        run(&mut c, 0x7C64_2A14); // add r3,r4,r5
        assert_eq!(c.gpr[3], 0x8000_0000);
        assert!(!c.xer_ov && !c.xer_so && c.xer_ca);
        assert_eq!(c.cr, 0);
    }

    #[test]
    fn addo_sets_ov_and_sticky_so() {
        let mut c = PpcCpu::new();
        c.gpr[4] = 0x7FFF_FFFF;
        c.gpr[5] = 1;
        run(&mut c, 0x7C64_2E14); // addo r3,r4,r5
        assert_eq!(c.gpr[3], 0x8000_0000);
        assert!(c.xer_ov && c.xer_so);
        c.gpr[4] = 1;
        run(&mut c, 0x7C64_2E14); // 1 + 1: no overflow
        assert_eq!(c.gpr[3], 2);
        assert!(!c.xer_ov, "OV is rewritten");
        assert!(c.xer_so, "SO is sticky");
        assert_eq!(mnemonic(0x7C64_2E14), Some("addo"));
    }

    #[test]
    fn addo_rc_copies_new_so_into_cr0() {
        let mut c = PpcCpu::new();
        c.gpr[4] = 0x8000_0000;
        c.gpr[5] = 0x8000_0000;
        run(&mut c, 0x7C64_2E15); // addo. r3,r4,r5
        assert_eq!(c.gpr[3], 0);
        assert!(c.xer_ov && c.xer_so);
        assert_eq!(c.cr, 0x3000_0000); // EQ | SO
        assert_eq!(mnemonic(0x7C64_2E15), Some("addo."));
    }

    #[test]
    fn add_rc_signed_interpretation_and_so_copy() {
        let mut c = PpcCpu::new();
        c.gpr[4] = 0x7FFF_FFFF;
        c.gpr[5] = 1;
        c.cr = 0x0FFF_FFFF;
        run(&mut c, 0x7C64_2A15); // add. r3,r4,r5
        assert_eq!(c.cr, 0x8FFF_FFFF); // LT, other fields preserved
        assert!(!c.xer_ov);
        c.xer_so = true;
        c.gpr[4] = 2;
        run(&mut c, 0x7C64_2A15);
        assert_eq!(c.gpr[3], 3);
        assert_eq!(c.cr, 0x5FFF_FFFF); // GT | SO
    }

    #[test]
    fn addc_carry_out() {
        let mut c = PpcCpu::new();
        c.gpr[4] = 0xFFFF_FFFF;
        c.gpr[5] = 1;
        run(&mut c, 0x7C64_2814); // addc r3,r4,r5
        assert_eq!(c.gpr[3], 0);
        assert!(c.xer_ca);
        c.gpr[4] = 1;
        c.gpr[5] = 2;
        run(&mut c, 0x7C64_2814);
        assert_eq!(c.gpr[3], 3);
        assert!(!c.xer_ca);
    }

    #[test]
    fn adde_uses_and_produces_carry() {
        let mut c = PpcCpu::new();
        c.gpr[4] = 0xFFFF_FFFF;
        c.gpr[5] = 0;
        c.xer_ca = true;
        run(&mut c, 0x7C64_2914); // adde r3,r4,r5
        assert_eq!(c.gpr[3], 0);
        assert!(c.xer_ca);
        c.gpr[4] = 1;
        c.gpr[5] = 2;
        run(&mut c, 0x7C64_2914); // 1 + 2 + 1
        assert_eq!(c.gpr[3], 4);
        assert!(!c.xer_ca);
        run(&mut c, 0x7C64_2914); // 1 + 2 + 0
        assert_eq!(c.gpr[3], 3);
    }

    #[test]
    fn addc_adde_64bit_chain() {
        // 0x00000001_FFFFFFFF + 0x00000002_00000001 = 0x00000004_00000000
        let mut c = PpcCpu::new();
        c.gpr[4] = 0xFFFF_FFFF; // lo a
        c.gpr[5] = 0x0000_0001; // lo b
        c.gpr[6] = 1; // hi a
        c.gpr[7] = 2; // hi b
        run(&mut c, 0x7C64_2814); // addc r3,r4,r5
        run(&mut c, 0x7D06_3914); // adde r8,r6,r7 : 31|8<<21|6<<16|7<<11|138<<1
        assert_eq!((c.gpr[8], c.gpr[3]), (4, 0));
        assert!(!c.xer_ca);
    }

    #[test]
    fn addze_carry_chain() {
        let mut c = PpcCpu::new();
        c.gpr[3] = 5;
        c.xer_ca = true;
        run(&mut c, 0x7C63_0194); // addze r3,r3
        assert_eq!(c.gpr[3], 6);
        assert!(!c.xer_ca);
        run(&mut c, 0x7C63_0194); // CA=0: unchanged
        assert_eq!(c.gpr[3], 6);
        assert!(!c.xer_ca);
        c.gpr[3] = 0xFFFF_FFFF;
        c.xer_ca = true;
        run(&mut c, 0x7C63_0194);
        assert_eq!(c.gpr[3], 0);
        assert!(c.xer_ca);
        assert_eq!(mnemonic(0x7C63_0194), Some("addze"));
    }

    #[test]
    fn addzeo_rc() {
        let mut c = PpcCpu::new();
        c.gpr[3] = 0x7FFF_FFFF;
        c.xer_ca = true;
        run(&mut c, 0x7C63_0595); // addzeo. r3,r3
        assert_eq!(c.gpr[3], 0x8000_0000);
        assert!(c.xer_ov && c.xer_so && !c.xer_ca);
        assert_eq!(c.cr, 0x9000_0000); // LT | SO
        assert_eq!(mnemonic(0x7C63_0595), Some("addzeo."));
        assert_eq!(mnemonic(0x7C63_0195), Some("addze."));
        assert_eq!(mnemonic(0x7C63_0594), Some("addzeo"));
    }

    #[test]
    fn srawi_addze_signed_divide_by_two_idiom() {
        // -7 / 2 = -3 (round toward zero): srawi gives -4 with CA=1, addze adds the carry.
        let mut c = PpcCpu::new();
        c.gpr[3] = 0xFFFF_FFF9;
        run(&mut c, 0x7C63_0E70); // srawi r3,r3,1
        assert_eq!(c.gpr[3], 0xFFFF_FFFC);
        assert!(c.xer_ca);
        run(&mut c, 0x7C63_0194); // addze r3,r3
        assert_eq!(c.gpr[3], 0xFFFF_FFFD);
    }

    #[test]
    fn addme_cases() {
        let mut c = PpcCpu::new();
        run(&mut c, 0x7C64_01D4); // addme r3,r4 : 0 + 0 + 0xFFFFFFFF
        assert_eq!(c.gpr[3], 0xFFFF_FFFF);
        assert!(!c.xer_ca);
        c.gpr[4] = 5;
        run(&mut c, 0x7C64_01D4); // 5 + 0 - 1 = 4, carry out
        assert_eq!(c.gpr[3], 4);
        assert!(c.xer_ca);
        c.gpr[4] = 0;
        run(&mut c, 0x7C64_01D4); // 0 + 1 + 0xFFFFFFFF = 2^32
        assert_eq!(c.gpr[3], 0);
        assert!(c.xer_ca);
    }

    // ---- subtract family ---------------------------------------------------------------------

    #[test]
    fn subf_is_rb_minus_ra() {
        let mut c = PpcCpu::new();
        c.gpr[4] = 3;
        c.gpr[5] = 10;
        run(&mut c, 0x7C64_2850); // subf r3,r4,r5
        assert_eq!(c.gpr[3], 7);
        c.gpr[4] = 10;
        c.gpr[5] = 3;
        run(&mut c, 0x7C64_2850);
        assert_eq!(c.gpr[3], 0xFFFF_FFF9);
        assert!(!c.xer_ca && !c.xer_ov);
    }

    #[test]
    fn subfo_overflow() {
        let mut c = PpcCpu::new();
        c.gpr[4] = 1;
        c.gpr[5] = 0x8000_0000; // INT_MIN - 1 overflows
        run(&mut c, 0x7C64_2C50); // subfo r3,r4,r5
        assert_eq!(c.gpr[3], 0x7FFF_FFFF);
        assert!(c.xer_ov && c.xer_so);
        c.gpr[4] = 0x8000_0000;
        c.gpr[5] = 0; // 0 - INT_MIN overflows
        run(&mut c, 0x7C64_2C50);
        assert_eq!(c.gpr[3], 0x8000_0000);
        assert!(c.xer_ov);
        c.gpr[4] = 0xFFFF_FFFF;
        c.gpr[5] = 0xFFFF_FFFF; // -1 - -1 = 0
        run(&mut c, 0x7C64_2C50);
        assert_eq!(c.gpr[3], 0);
        assert!(!c.xer_ov && c.xer_so);
    }

    #[test]
    fn subfc_carry_is_not_borrow() {
        let mut c = PpcCpu::new();
        c.gpr[4] = 3;
        c.gpr[5] = 10;
        run(&mut c, 0x7C64_2810); // subfc r3,r4,r5
        assert_eq!(c.gpr[3], 7);
        assert!(c.xer_ca);
        c.gpr[4] = 10;
        c.gpr[5] = 3;
        run(&mut c, 0x7C64_2810);
        assert_eq!(c.gpr[3], 0xFFFF_FFF9);
        assert!(!c.xer_ca);
        c.gpr[4] = 5;
        c.gpr[5] = 5;
        run(&mut c, 0x7C64_2810);
        assert_eq!(c.gpr[3], 0);
        assert!(c.xer_ca);
    }

    #[test]
    fn subfe_cases() {
        let mut c = PpcCpu::new();
        c.gpr[4] = 3;
        c.gpr[5] = 10;
        c.xer_ca = true;
        run(&mut c, 0x7C64_2910); // subfe r3,r4,r5 : ~3 + 10 + 1
        assert_eq!(c.gpr[3], 7);
        assert!(c.xer_ca);
        c.xer_ca = false;
        run(&mut c, 0x7C64_2910); // ~3 + 10 + 0 = 0x1_0000_0006
        assert_eq!(c.gpr[3], 6);
        assert!(c.xer_ca);
        c.gpr[4] = 10;
        c.xer_ca = false;
        run(&mut c, 0x7C64_2910); // ~10 + 10 + 0 = 0xFFFFFFFF
        assert_eq!(c.gpr[3], 0xFFFF_FFFF);
        assert!(!c.xer_ca);
    }

    #[test]
    fn subfic_cases() {
        let mut c = PpcCpu::new();
        c.gpr[4] = 3;
        run(&mut c, 0x2064_000A); // subfic r3,r4,10
        assert_eq!(c.gpr[3], 7);
        assert!(c.xer_ca);
        c.gpr[4] = 11;
        run(&mut c, 0x2064_000A);
        assert_eq!(c.gpr[3], 0xFFFF_FFFF);
        assert!(!c.xer_ca);
        c.gpr[4] = 0;
        run(&mut c, 0x2064_FFFF); // subfic r3,r4,-1 : ~0 + 0xFFFFFFFF + 1
        assert_eq!(c.gpr[3], 0xFFFF_FFFF);
        assert!(c.xer_ca);
        // rA field 0 is register r0 here, not literal zero
        c.gpr[0] = 4;
        run(&mut c, 0x2060_000A); // subfic r3,r0,10
        assert_eq!(c.gpr[3], 6);
    }

    #[test]
    fn addic_and_addic_rc() {
        let mut c = PpcCpu::new();
        c.gpr[4] = 1;
        run(&mut c, 0x3064_FFFF); // addic r3,r4,-1
        assert_eq!(c.gpr[3], 0);
        assert!(c.xer_ca);
        assert_eq!(c.cr, 0, "addic (no dot) leaves CR alone");
        c.gpr[4] = 0;
        run(&mut c, 0x3064_FFFF);
        assert_eq!(c.gpr[3], 0xFFFF_FFFF);
        assert!(!c.xer_ca);
        c.gpr[0] = 7; // rA=0 is r0 for addic
        run(&mut c, 0x3060_0001); // addic r3,r0,1
        assert_eq!(c.gpr[3], 8);
        c.gpr[4] = 0xFFFF_FFFF;
        run(&mut c, 0x3464_0001); // addic. r3,r4,1
        assert_eq!(c.gpr[3], 0);
        assert!(c.xer_ca);
        assert_eq!(c.cr, 0x2000_0000);
        assert_eq!(mnemonic(0x3464_0001), Some("addic."));
        assert_eq!(mnemonic(0x3064_FFFF), Some("addic"));
    }

    #[test]
    fn neg_and_nego() {
        let mut c = PpcCpu::new();
        c.gpr[4] = 5;
        run(&mut c, 0x7C64_00D0); // neg r3,r4
        assert_eq!(c.gpr[3], 0xFFFF_FFFB);
        c.gpr[4] = 0;
        run(&mut c, 0x7C64_00D0);
        assert_eq!(c.gpr[3], 0);
        c.gpr[4] = 0x8000_0000;
        run(&mut c, 0x7C64_04D0); // nego r3,r4
        assert_eq!(c.gpr[3], 0x8000_0000);
        assert!(c.xer_ov && c.xer_so);
        assert!(!c.xer_ca);
    }

    // ---- multiply / divide ------------------------------------------------------------------

    #[test]
    fn mullw_mulli() {
        let mut c = PpcCpu::new();
        c.gpr[4] = 7;
        c.gpr[5] = 0xFFFF_FFFD; // -3
        run(&mut c, 0x7C64_29D6); // mullw r3,r4,r5
        assert_eq!(c.gpr[3], 0xFFFF_FFEB); // -21
        run(&mut c, 0x1C64_FFFD); // mulli r3,r4,-3
        assert_eq!(c.gpr[3], 0xFFFF_FFEB);
        c.gpr[4] = 0x0001_0000;
        c.gpr[5] = 0x0001_0000;
        run(&mut c, 0x7C64_2DD6); // mullwo: 2^32 does not fit
        assert_eq!(c.gpr[3], 0);
        assert!(c.xer_ov && c.xer_so);
        c.gpr[5] = 0x7FFF;
        run(&mut c, 0x7C64_2DD6); // 0x10000 * 0x7FFF = 0x7FFF0000 fits
        assert_eq!(c.gpr[3], 0x7FFF_0000);
        assert!(!c.xer_ov && c.xer_so);
        c.gpr[5] = 0x8000;
        run(&mut c, 0x7C64_2DD6); // 0x10000 * 0x8000 = 2^31 does not fit in signed 32
        assert_eq!(c.gpr[3], 0x8000_0000);
        assert!(c.xer_ov);
    }

    #[test]
    fn mulhw_mulhwu() {
        let mut c = PpcCpu::new();
        c.gpr[4] = 0x8000_0000;
        c.gpr[5] = 2;
        run(&mut c, 0x7C64_2896); // mulhw: -2^31 * 2 = -2^32 -> high word -1
        assert_eq!(c.gpr[3], 0xFFFF_FFFF);
        run(&mut c, 0x7C64_2816); // mulhwu: 2^31 * 2 = 2^32 -> high word 1
        assert_eq!(c.gpr[3], 1);
        c.gpr[4] = 0xFFFF_FFFF;
        c.gpr[5] = 0xFFFF_FFFF;
        run(&mut c, 0x7C64_2896); // (-1)*(-1) = 1 -> 0
        assert_eq!(c.gpr[3], 0);
        run(&mut c, 0x7C64_2816); // 0xFFFFFFFE_00000001
        assert_eq!(c.gpr[3], 0xFFFF_FFFE);
        run(&mut c, 0x7C64_2817); // mulhwu. -> LT
        assert_eq!(c.cr, 0x8000_0000);
        // OE bit is reserved for mulhw/mulhwu
        run_unchanged(&c, 0x7C64_2C96, PpcOutcome::Invalid(RESERVED));
    }

    #[test]
    fn divw_divwu() {
        let mut c = PpcCpu::new();
        c.gpr[4] = 0xFFFF_FFF9; // -7
        c.gpr[5] = 2;
        run(&mut c, 0x7C64_2BD6); // divw r3,r4,r5 -> -3 (truncation toward zero)
        assert_eq!(c.gpr[3], 0xFFFF_FFFD);
        c.gpr[4] = 7;
        c.gpr[5] = 0xFFFF_FFFE; // -2
        run(&mut c, 0x7C64_2BD6);
        assert_eq!(c.gpr[3], 0xFFFF_FFFD);
        c.gpr[4] = 0xFFFF_FFFE;
        c.gpr[5] = 2;
        run(&mut c, 0x7C64_2B96); // divwu
        assert_eq!(c.gpr[3], 0x7FFF_FFFF);
        c.xer_ov = true;
        c.xer_so = true;
        run(&mut c, 0x7C64_2FD6); // divwo, defined case: -2 / 2 = -1, OV cleared, SO sticky
        assert_eq!(c.gpr[3], 0xFFFF_FFFF);
        assert!(!c.xer_ov && c.xer_so);
    }

    #[test]
    fn div_undefined_cases_are_invalid_and_leave_state() {
        let mut c = PpcCpu::new();
        c.gpr[3] = 0x1111;
        c.gpr[4] = 9;
        c.gpr[5] = 0;
        run_unchanged(&c, 0x7C64_2BD6, PpcOutcome::Invalid("div undefined"));
        run_unchanged(&c, 0x7C64_2B96, PpcOutcome::Invalid("div undefined"));
        run_unchanged(&c, 0x7C64_2FD7, PpcOutcome::Invalid("div undefined")); // divwo.
        c.gpr[4] = 0x8000_0000;
        c.gpr[5] = 0xFFFF_FFFF;
        run_unchanged(&c, 0x7C64_2BD6, PpcOutcome::Invalid("div undefined"));
        // ... but unsigned 0x80000000 / 0xFFFFFFFF is fine: 0
        run(&mut c, 0x7C64_2B96);
        assert_eq!(c.gpr[3], 0);
    }

    // ---- logical ------------------------------------------------------------------------------

    #[test]
    fn andi_andis_always_record() {
        let mut c = PpcCpu::new();
        c.gpr[4] = 0xFFFF_FFFF;
        run(&mut c, 0x7083_F0F0); // andi. r3,r4,0xF0F0
        assert_eq!(c.gpr[3], 0x0000_F0F0); // UIMM is zero-extended
        assert_eq!(c.cr, 0x4000_0000);
        run(&mut c, 0x7483_8000); // andis. r3,r4,0x8000
        assert_eq!(c.gpr[3], 0x8000_0000);
        assert_eq!(c.cr, 0x8000_0000);
        c.gpr[4] = 0x0000_0F0F;
        c.xer_so = true;
        run(&mut c, 0x7083_F0F0);
        assert_eq!(c.gpr[3], 0);
        assert_eq!(c.cr, 0x3000_0000); // EQ | SO
    }

    #[test]
    fn ori_oris_xori_xoris() {
        let mut c = PpcCpu::new();
        c.gpr[4] = 0x1200_3400;
        run(&mut c, 0x6083_00FF); // ori r3,r4,0xFF
        assert_eq!(c.gpr[3], 0x1200_34FF);
        run(&mut c, 0x6483_8001); // oris r3,r4,0x8001
        assert_eq!(c.gpr[3], 0x9201_3400);
        run(&mut c, 0x6883_FFFF); // xori r3,r4,0xFFFF
        assert_eq!(c.gpr[3], 0x1200_CBFF);
        run(&mut c, 0x6C83_FFFF); // xoris r3,r4,0xFFFF
        assert_eq!(c.gpr[3], 0xEDFF_3400);
        assert_eq!(c.cr, 0);
    }

    #[test]
    fn nop_changes_nothing() {
        let mut c = PpcCpu::new();
        c.gpr[0] = 0x55;
        c.cr = 0x1234_5678;
        c.xer_ca = true;
        let before = c.clone();
        run(&mut c, 0x6000_0000); // nop = ori 0,0,0
        assert_eq!(c, before);
        assert_eq!(mnemonic(0x6000_0000), Some("ori"));
    }

    #[test]
    fn x_form_logical_truth_tables() {
        // rS = r4 = 0xFF00FF00, rB = r5 = 0x0FF00FF0, rA = r3
        let cases: [(u32, u32, &str); 8] = [
            (0x7C83_2838, 0x0F00_0F00, "and"),
            (0x7C83_2878, 0xF000_F000, "andc"),
            (0x7C83_2B78, 0xFFF0_FFF0, "or"),
            (0x7C83_2B38, 0xFF0F_FF0F, "orc"),
            (0x7C83_2A78, 0xF0F0_F0F0, "xor"),
            (0x7C83_2BB8, 0xF0FF_F0FF, "nand"),
            (0x7C83_28F8, 0x000F_000F, "nor"),
            (0x7C83_2A38, 0x0F0F_0F0F, "eqv"),
        ];
        for (w, want, name) in cases {
            let mut c = PpcCpu::new();
            c.gpr[4] = 0xFF00_FF00;
            c.gpr[5] = 0x0FF0_0FF0;
            run(&mut c, w);
            assert_eq!(c.gpr[3], want, "{}", name);
            assert_eq!(c.cr, 0, "{}", name);
            assert_eq!(mnemonic(w), Some(name));
        }
    }

    #[test]
    fn mr_is_or_rs_rs() {
        let mut c = PpcCpu::new();
        c.gpr[1] = 0x8000_1234;
        run(&mut c, 0x7C3F_0B78); // mr r31,r1
        assert_eq!(c.gpr[31], 0x8000_1234);
        assert_eq!(c.cr, 0);
        assert_eq!(mnemonic(0x7C3F_0B78), Some("or"));
        run(&mut c, 0x7C3E_0B79); // mr. r30,r1
        assert_eq!(c.gpr[30], 0x8000_1234);
        assert_eq!(c.cr, 0x8000_0000);
        assert_eq!(mnemonic(0x7C3E_0B79), Some("or."));
    }

    #[test]
    fn and_rc_zero_result_with_so() {
        let mut c = PpcCpu::new();
        c.gpr[4] = 0xF0;
        c.gpr[5] = 0x0F;
        c.xer_so = true;
        c.cr = 0xFFFF_FFFF;
        run(&mut c, 0x7C83_2839); // and. r3,r4,r5
        assert_eq!(c.gpr[3], 0);
        assert_eq!(c.cr, 0x3FFF_FFFF);
    }

    #[test]
    fn not_is_nor_rs_rs() {
        let mut c = PpcCpu::new();
        c.gpr[4] = 0x0123_4567;
        run(&mut c, 0x7C83_20F8); // nor r3,r4,r4
        assert_eq!(c.gpr[3], 0xFEDC_BA98);
    }

    #[test]
    fn extsb_extsh() {
        let mut c = PpcCpu::new();
        c.gpr[4] = 0x0000_0080;
        run(&mut c, 0x7C83_0774); // extsb r3,r4
        assert_eq!(c.gpr[3], 0xFFFF_FF80);
        c.gpr[4] = 0xABCD_017F;
        run(&mut c, 0x7C83_0774);
        assert_eq!(c.gpr[3], 0x0000_007F);
        c.gpr[4] = 0x0001_8000;
        run(&mut c, 0x7C83_0734); // extsh r3,r4
        assert_eq!(c.gpr[3], 0xFFFF_8000);
        c.gpr[4] = 0xFFFF_7FFF;
        run(&mut c, 0x7C83_0734);
        assert_eq!(c.gpr[3], 0x0000_7FFF);
        c.gpr[4] = 0xFF;
        run(&mut c, 0x7C83_0775); // extsb.
        assert_eq!(c.gpr[3], 0xFFFF_FFFF);
        assert_eq!(c.cr, 0x8000_0000);
        run(&mut c, 0x7C83_0735); // extsh. of 0x00FF -> positive
        assert_eq!(c.gpr[3], 0xFF);
        assert_eq!(c.cr, 0x4000_0000);
        // rB field is reserved
        run_unchanged(&c, 0x7C83_0F74, PpcOutcome::Invalid(RESERVED));
    }

    #[test]
    fn cntlzw_values() {
        let mut c = PpcCpu::new();
        for (v, want) in [(0u32, 32u32), (1, 31), (0x8000_0000, 0), (0x0001_0000, 15), (0x0000_FFFF, 16)] {
            c.gpr[4] = v;
            run(&mut c, 0x7C83_0034); // cntlzw r3,r4
            assert_eq!(c.gpr[3], want);
        }
        c.gpr[4] = 0;
        run(&mut c, 0x7C83_0035); // cntlzw. : 32 > 0
        assert_eq!(c.cr, 0x4000_0000);
    }

    // ---- shifts -------------------------------------------------------------------------------

    #[test]
    fn slw_uses_six_bit_amount() {
        let mut c = PpcCpu::new();
        c.gpr[4] = 0x8000_0001;
        for (n, want) in [(1u32, 2u32), (31, 0x8000_0000), (32, 0), (33, 0), (63, 0), (64, 0x8000_0001), (0, 0x8000_0001)] {
            c.gpr[5] = n;
            run(&mut c, 0x7C83_2830); // slw r3,r4,r5
            assert_eq!(c.gpr[3], want, "n={}", n);
        }
        c.gpr[5] = 0xFFFF_FF04; // only the low six bits (4) matter
        run(&mut c, 0x7C83_2830);
        assert_eq!(c.gpr[3], 0x0000_0010);
    }

    #[test]
    fn srw_uses_six_bit_amount() {
        let mut c = PpcCpu::new();
        c.gpr[4] = 0x8000_0001;
        for (n, want) in [(1u32, 0x4000_0000u32), (31, 1), (32, 0), (48, 0), (64, 0x8000_0001)] {
            c.gpr[5] = n;
            run(&mut c, 0x7C83_2C30); // srw r3,r4,r5
            assert_eq!(c.gpr[3], want, "n={}", n);
        }
        c.gpr[5] = 31;
        run(&mut c, 0x7C83_2C31); // srw.
        assert_eq!(c.cr, 0x4000_0000);
        assert!(!c.xer_ca);
    }

    #[test]
    fn sraw_result_and_ca() {
        // (rS, rB, result, CA)
        let cases: [(u32, u32, u32, bool); 9] = [
            (0x8000_0001, 1, 0xC000_0000, true),
            (0x8000_0000, 1, 0xC000_0000, false),
            (0x8000_0000, 32, 0xFFFF_FFFF, true),
            (0x7FFF_FFFF, 32, 0, false),
            (0x8000_0001, 0, 0x8000_0001, false),
            (0x8000_0000, 63, 0xFFFF_FFFF, true),
            (0x8000_0001, 64, 0x8000_0001, false),
            (0x7FFF_FFFF, 4, 0x07FF_FFFF, false),
            (0xFFFF_FFFF, 31, 0xFFFF_FFFF, true),
        ];
        for (s, n, want, ca) in cases {
            let mut c = PpcCpu::new();
            c.gpr[4] = s;
            c.gpr[5] = n;
            c.xer_ca = !ca;
            run(&mut c, 0x7C83_2E30); // sraw r3,r4,r5
            assert_eq!((c.gpr[3], c.xer_ca), (want, ca), "s={:#x} n={}", s, n);
        }
    }

    #[test]
    fn srawi_ca_negative_source() {
        let mut c = PpcCpu::new();
        c.gpr[3] = 0xFFFF_FFFF;
        run(&mut c, 0x7C63_0E70); // srawi r3,r3,1: a 1 is shifted out of a negative value
        assert_eq!(c.gpr[3], 0xFFFF_FFFF);
        assert!(c.xer_ca);
        c.gpr[3] = 0xFFFF_FFFE;
        run(&mut c, 0x7C63_0E70); // only a 0 is shifted out
        assert_eq!(c.gpr[3], 0xFFFF_FFFF);
        assert!(!c.xer_ca);
    }

    #[test]
    fn srawi_ca_positive_source_never_sets_ca() {
        let mut c = PpcCpu::new();
        c.gpr[3] = 7;
        c.xer_ca = true;
        run(&mut c, 0x7C63_0E70); // srawi r3,r3,1
        assert_eq!(c.gpr[3], 3);
        assert!(!c.xer_ca);
    }

    #[test]
    fn srawi_shift_zero_clears_ca() {
        let mut c = PpcCpu::new();
        c.gpr[3] = 0x8000_0001;
        c.xer_ca = true;
        run(&mut c, 0x7C63_0670); // srawi r3,r3,0
        assert_eq!(c.gpr[3], 0x8000_0001);
        assert!(!c.xer_ca);
    }

    #[test]
    fn srawi_31_and_record() {
        let mut c = PpcCpu::new();
        c.gpr[4] = 0x8000_0000;
        run(&mut c, 0x7C83_FE70); // srawi r3,r4,31
        assert_eq!(c.gpr[3], 0xFFFF_FFFF);
        assert!(!c.xer_ca, "the 31 bits shifted out are all zero");
        c.gpr[4] = 0x8000_0001;
        run(&mut c, 0x7C83_FE71); // srawi. r3,r4,31
        assert_eq!(c.gpr[3], 0xFFFF_FFFF);
        assert!(c.xer_ca);
        assert_eq!(c.cr, 0x8000_0000);
        c.gpr[4] = 0x7FFF_FFFF;
        run(&mut c, 0x7C83_FE71);
        assert_eq!(c.gpr[3], 0);
        assert!(!c.xer_ca);
        assert_eq!(c.cr, 0x2000_0000);
    }

    // ---- rotates ------------------------------------------------------------------------------

    #[test]
    fn rlwinm_slwi_alias() {
        let mut c = PpcCpu::new();
        c.gpr[3] = 0xC000_0001;
        run(&mut c, 0x5463_103A); // slwi r3,r3,2 = rlwinm r3,r3,2,0,29
        assert_eq!(c.gpr[3], 0x0000_0004);
        assert_eq!(mnemonic(0x5463_103A), Some("rlwinm"));
    }

    #[test]
    fn rlwinm_srwi_alias() {
        let mut c = PpcCpu::new();
        c.gpr[4] = 0x1234_5678;
        run(&mut c, 0x5483_C23E); // srwi r3,r4,8 = rlwinm r3,r4,24,8,31
        assert_eq!(c.gpr[3], 0x0012_3456);
    }

    #[test]
    fn rlwinm_clrlwi_alias() {
        let mut c = PpcCpu::new();
        c.gpr[4] = 0x1234_5678;
        run(&mut c, 0x5483_043E); // clrlwi r3,r4,16 = rlwinm r3,r4,0,16,31
        assert_eq!(c.gpr[3], 0x0000_5678);
    }

    #[test]
    fn rlwinm_mask_wraparound() {
        let mut c = PpcCpu::new();
        c.gpr[4] = 0x1234_5678;
        run(&mut c, 0x5483_0706); // rlwinm r3,r4,0,28,3 : mask 0xF000000F
        assert_eq!(c.gpr[3], 0x1000_0008);
        run(&mut c, 0x5483_2040); // rlwinm r3,r4,4,1,0 : MB = ME+1 -> all ones
        assert_eq!(c.gpr[3], 0x2345_6781);
        run(&mut c, 0x5483_07C0); // rlwinm r3,r4,0,31,0 : mask 0x80000001
        assert_eq!(c.gpr[3], 0x0000_0000);
        c.gpr[4] = 0xFFFF_FFFF;
        run(&mut c, 0x5483_07C0);
        assert_eq!(c.gpr[3], 0x8000_0001);
    }

    #[test]
    fn rlwinm_single_bit_masks() {
        let mut c = PpcCpu::new();
        c.gpr[4] = 0xFFFF_FFFF;
        run(&mut c, 0x5483_0000); // rlwinm r3,r4,0,0,0
        assert_eq!(c.gpr[3], 0x8000_0000);
        run(&mut c, 0x5483_07FE); // rlwinm r3,r4,0,31,31
        assert_eq!(c.gpr[3], 1);
    }

    #[test]
    fn rlwinm_extract_and_record() {
        let mut c = PpcCpu::new();
        c.gpr[4] = 0x1234_5678;
        run(&mut c, 0x5483_463E); // rlwinm r3,r4,8,24,31 : top byte
        assert_eq!(c.gpr[3], 0x12);
        assert_eq!(c.cr, 0);
        c.gpr[4] = 0xFFFF_0000;
        c.xer_so = true;
        run(&mut c, 0x5483_043F); // rlwinm. r3,r4,0,16,31
        assert_eq!(c.gpr[3], 0);
        assert_eq!(c.cr, 0x3000_0000);
        assert_eq!(mnemonic(0x5483_043F), Some("rlwinm."));
    }

    #[test]
    fn rlwimi_insert() {
        let mut c = PpcCpu::new();
        c.gpr[4] = 0x1234_5678;
        c.gpr[3] = 0xAAAA_AAAA;
        run(&mut c, 0x5083_442E); // rlwimi r3,r4,8,16,23
        assert_eq!(c.gpr[3], 0xAAAA_78AA);
        c.gpr[3] = 0xAAAA_AAAA;
        run(&mut c, 0x5083_060E); // rlwimi r3,r4,0,24,7 : wrap mask 0xFF0000FF
        assert_eq!(c.gpr[3], 0x12AA_AA78);
        c.gpr[3] = 0x0000_0000;
        run(&mut c, 0x5083_0001); // rlwimi. r3,r4,0,0,0 : insert bit 0 (= 0)
        assert_eq!(c.gpr[3], 0);
        assert_eq!(c.cr, 0x2000_0000);
    }

    #[test]
    fn rlwnm_rotate_by_register() {
        let mut c = PpcCpu::new();
        c.gpr[4] = 0x1234_5678;
        c.gpr[5] = 36; // only the low 5 bits count: rotate by 4
        run(&mut c, 0x5C83_283E); // rotlw r3,r4,r5 = rlwnm r3,r4,r5,0,31
        assert_eq!(c.gpr[3], 0x2345_6781);
        c.gpr[5] = 0;
        run(&mut c, 0x5C83_283E);
        assert_eq!(c.gpr[3], 0x1234_5678);
        c.gpr[5] = 8;
        run(&mut c, 0x5C83_2E3E); // rlwnm r3,r4,r5,24,31
        assert_eq!(c.gpr[3], 0x12);
        c.gpr[5] = 31;
        c.gpr[4] = 1;
        run(&mut c, 0x5C83_283F); // rlwnm. : 1 rotl 31 = 0x80000000
        assert_eq!(c.gpr[3], 0x8000_0000);
        assert_eq!(c.cr, 0x8000_0000);
    }

    #[test]
    fn rlwinm_all_sh_mb_me_against_bitwise_mask() {
        // independent per-bit construction of MASK(MB,ME)
        let src = 0x9ABC_DEF1u32;
        for sh in 0..32u32 {
            for mb in 0..32u32 {
                for me in 0..32u32 {
                    let mut mask = 0u32;
                    for i in 0..32u32 {
                        let inside = if mb <= me { i >= mb && i <= me } else { i >= mb || i <= me };
                        if inside {
                            mask |= 0x8000_0000 >> i;
                        }
                    }
                    let rot = if sh == 0 { src } else { (src << sh) | (src >> (32 - sh)) };
                    let mut c = PpcCpu::new();
                    c.gpr[4] = src;
                    let w = 0x5483_0000 | (sh << 11) | (mb << 6) | (me << 1);
                    run(&mut c, w);
                    assert_eq!(c.gpr[3], rot & mask, "sh={} mb={} me={}", sh, mb, me);
                }
            }
        }
    }

    // ---- compares -----------------------------------------------------------------------------

    #[test]
    fn cmpwi_cr0_three_way() {
        let mut c = PpcCpu::new();
        c.gpr[3] = 0xFFFF_FFFF;
        run(&mut c, 0x2C03_0000); // cmpwi r3,0
        assert_eq!(c.cr, 0x8000_0000);
        c.gpr[3] = 0;
        run(&mut c, 0x2C03_0000);
        assert_eq!(c.cr, 0x2000_0000);
        c.gpr[3] = 5;
        run(&mut c, 0x2C03_0000);
        assert_eq!(c.cr, 0x4000_0000);
        assert_eq!(mnemonic(0x2C03_0000), Some("cmpi"));
    }

    #[test]
    fn cmpwi_cr7_negative_immediate() {
        let mut c = PpcCpu::new();
        c.cr = 0xFFFF_FFF0;
        c.gpr[9] = 0xFFFF_FFFF;
        run(&mut c, 0x2F89_FFFF); // cmpwi cr7,r9,-1
        assert_eq!(c.cr, 0xFFFF_FFF2); // EQ, other fields preserved
        c.gpr[9] = 0;
        run(&mut c, 0x2F89_FFFF); // 0 > -1
        assert_eq!(c.cr, 0xFFFF_FFF4);
        c.gpr[9] = 0x8000_0000;
        run(&mut c, 0x2F89_FFFF); // INT_MIN < -1
        assert_eq!(c.cr, 0xFFFF_FFF8);
        c.gpr[9] = 0xFFFF_8000;
        run(&mut c, 0x2F89_8000); // cmpwi cr7,r9,-32768 : equal
        assert_eq!(c.cr, 0xFFFF_FFF2);
    }

    #[test]
    fn cmplwi_zero_extends_immediate() {
        let mut c = PpcCpu::new();
        c.gpr[9] = 0xFFFF_FFFF;
        run(&mut c, 0x2B89_0005); // cmplwi cr7,r9,5
        assert_eq!(c.cr, 0x0000_0004);
        c.cr = 0;
        c.gpr[3] = 0x0000_FFFF;
        run(&mut c, 0x2803_FFFF); // cmplwi r3,0xFFFF
        assert_eq!(c.cr, 0x2000_0000);
        c.gpr[3] = 0xFFFF_FFFF;
        run(&mut c, 0x2803_FFFF); // 0xFFFFFFFF >u 0x0000FFFF
        assert_eq!(c.cr, 0x4000_0000);
        c.gpr[3] = 0x0000_FFFE;
        run(&mut c, 0x2803_FFFF);
        assert_eq!(c.cr, 0x8000_0000);
        assert_eq!(mnemonic(0x2803_FFFF), Some("cmpli"));
    }

    #[test]
    fn compares_copy_xer_so() {
        let mut c = PpcCpu::new();
        c.xer_so = true;
        run(&mut c, 0x2C03_0000); // cmpwi r3,0 with r3 = 0
        assert_eq!(c.cr, 0x3000_0000);
        c.gpr[9] = 4;
        run(&mut c, 0x2B89_0005); // cmplwi cr7,r9,5 : LT | SO
        assert_eq!(c.cr, 0x3000_0009);
        c.gpr[9] = 0xFFFF_FFFE;
        run(&mut c, 0x2F89_FFFF); // cmpwi cr7,r9,-1 : -2 < -1
        assert_eq!(c.cr, 0x3000_0009);
        c.xer_so = false;
        run(&mut c, 0x2F89_FFFF); // SO bit of the field follows XER.SO back to 0
        assert_eq!(c.cr, 0x3000_0008);
    }

    #[test]
    fn cmpw_cmplw_register_forms() {
        let mut c = PpcCpu::new();
        c.gpr[4] = 0xFFFF_FFFF;
        c.gpr[5] = 1;
        run(&mut c, 0x7C84_2800); // cmpw cr1,r4,r5 : -1 < 1
        assert_eq!(c.cr, 0x0800_0000);
        run(&mut c, 0x7C84_2840); // cmplw cr1,r4,r5 : 0xFFFFFFFF >u 1
        assert_eq!(c.cr, 0x0400_0000);
        run(&mut c, 0x7C04_2000); // cmpw cr0,r4,r4
        assert_eq!(c.cr, 0x2400_0000);
        assert_eq!(mnemonic(0x7C84_2800), Some("cmp"));
        assert_eq!(mnemonic(0x7C84_2840), Some("cmpl"));
    }

    #[test]
    fn compare_l_bit_and_reserved_bits_invalid() {
        let mut c = PpcCpu::new();
        c.gpr[3] = 1;
        let l1 = "compare with L=1 on a 32-bit implementation";
        run_unchanged(&c, 0x2C23_0000, PpcOutcome::Invalid(l1)); // cmpdi
        run_unchanged(&c, 0x2823_0000, PpcOutcome::Invalid(l1)); // cmpldi
        run_unchanged(&c, 0x7C24_2800, PpcOutcome::Invalid(l1)); // cmpd
        run_unchanged(&c, 0x7C24_2840, PpcOutcome::Invalid(l1)); // cmpld
        run_unchanged(&c, 0x2C43_0000, PpcOutcome::Invalid(RESERVED)); // bit 9
        run_unchanged(&c, 0x7C04_2801, PpcOutcome::Invalid(RESERVED)); // bit 31
        assert_eq!(mnemonic(0x2C23_0000), Some("cmpi"));
    }

    // ---- CR moves and CR logical ----------------------------------------------------------------

    #[test]
    fn mfcr_reads_whole_cr() {
        let mut c = PpcCpu::new();
        c.cr = 0x1234_5678;
        run(&mut c, 0x7D80_0026); // mfcr r12
        assert_eq!(c.gpr[12], 0x1234_5678);
        assert_eq!(c.crf(0), 1);
        assert_eq!(c.crf(7), 8);
        run_unchanged(&c, 0x7D90_0026, PpcOutcome::Invalid(RESERVED)); // mfocrf encoding
    }

    #[test]
    fn mtcrf_field_mask() {
        let mut c = PpcCpu::new();
        c.gpr[12] = 0xFFFF_FFFF;
        run(&mut c, 0x7D80_8120); // mtcrf 0x08,r12 : CR field 4
        assert_eq!(c.cr, 0x0000_F000);
        c.cr = 0;
        run(&mut c, 0x7D88_0120); // mtcrf 0x80,r12 : CR field 0
        assert_eq!(c.cr, 0xF000_0000);
        c.cr = 0;
        run(&mut c, 0x7D88_1120); // mtcrf 0x81,r12 : fields 0 and 7
        assert_eq!(c.cr, 0xF000_000F);
        c.gpr[12] = 0x1234_5678;
        c.cr = 0xFFFF_FFFF;
        run(&mut c, 0x7D8F_F120); // mtcr r12
        assert_eq!(c.cr, 0x1234_5678);
        c.cr = 0xFFFF_FFFF;
        run(&mut c, 0x7D80_0120); // mtcrf 0,r12 : nothing
        assert_eq!(c.cr, 0xFFFF_FFFF);
        c.gpr[12] = 0;
        run(&mut c, 0x7D80_1120); // mtcrf 0x01,r12 : field 7 only
        assert_eq!(c.cr, 0xFFFF_FFF0);
    }

    #[test]
    fn mcrf_copies_fields() {
        let mut c = PpcCpu::new();
        c.cr = 0xA000_0005;
        run(&mut c, 0x4F80_0000); // mcrf cr7,cr0
        assert_eq!(c.cr, 0xA000_000A);
        c.cr = 0x0000_000C;
        run(&mut c, 0x4C9C_0000); // mcrf cr1,cr7
        assert_eq!(c.cr, 0x0C00_000C);
        run_unchanged(&c, 0x4C9C_0001, PpcOutcome::Invalid(RESERVED));
        run_unchanged(&c, 0x4C9D_0000, PpcOutcome::Invalid(RESERVED));
    }

    #[test]
    fn crxor_creqv_clear_and_set() {
        let mut c = PpcCpu::new();
        c.cr = 0xFFFF_FFFF;
        run(&mut c, 0x4CC6_3182); // crclr 6 = crxor 6,6,6
        assert_eq!(c.cr, 0xFDFF_FFFF);
        c.cr = 0;
        run(&mut c, 0x4CC6_3242); // crset 6 = creqv 6,6,6
        assert_eq!(c.cr, 0x0200_0000);
        c.cr = 0x0000_0002; // bit 30 set, bit 29 clear
        run(&mut c, 0x4FFE_E982); // crxor 31,30,29
        assert_eq!(c.cr, 0x0000_0003);
    }

    #[test]
    fn cr_logical_truth_tables() {
        // crbD = 0, crbA = 1, crbB = 2.  (word, name, results for (a,b) = 00, 01, 10, 11)
        let ops: [(u32, &str, [bool; 4]); 8] = [
            (0x4C01_1202, "crand", [false, false, false, true]),
            (0x4C01_1382, "cror", [false, true, true, true]),
            (0x4C01_1182, "crxor", [false, true, true, false]),
            (0x4C01_11C2, "crnand", [true, true, true, false]),
            (0x4C01_1042, "crnor", [true, false, false, false]),
            (0x4C01_1242, "creqv", [true, false, false, true]),
            (0x4C01_1102, "crandc", [false, false, true, false]),
            (0x4C01_1342, "crorc", [true, false, true, true]),
        ];
        for (w, name, table) in ops {
            assert_eq!(mnemonic(w), Some(name));
            for (idx, want) in table.iter().enumerate() {
                let a = idx & 2 != 0;
                let b = idx & 1 != 0;
                for old_bit0 in [false, true] {
                    let mut c = PpcCpu::new();
                    // bit 1 = 0x40000000, bit 2 = 0x20000000, bit 0 = 0x80000000; bit 3 stays set
                    c.cr = 0x1000_0000
                        | if a { 0x4000_0000 } else { 0 }
                        | if b { 0x2000_0000 } else { 0 }
                        | if old_bit0 { 0x8000_0000 } else { 0 };
                    let others = c.cr & 0x7FFF_FFFF;
                    run(&mut c, w);
                    let expect = others | if *want { 0x8000_0000 } else { 0 };
                    assert_eq!(c.cr, expect, "{} a={} b={}", name, a, b);
                }
            }
        }
    }

    // ---- SPR moves ------------------------------------------------------------------------------

    #[test]
    fn mtlr_mflr_mtctr_mfctr() {
        let mut c = PpcCpu::new();
        c.gpr[0] = 0x0001_0004;
        run(&mut c, 0x7C08_03A6); // mtlr r0
        assert_eq!(c.lr, 0x0001_0004);
        c.gpr[0] = 0;
        run(&mut c, 0x7C08_02A6); // mflr r0
        assert_eq!(c.gpr[0], 0x0001_0004);
        c.gpr[9] = 0xCAFE_F00D;
        run(&mut c, 0x7D29_03A6); // mtctr r9
        assert_eq!(c.ctr, 0xCAFE_F00D);
        run(&mut c, 0x7C69_02A6); // mfctr r3
        assert_eq!(c.gpr[3], 0xCAFE_F00D);
        assert_eq!(c.lr, 0x0001_0004);
        assert_eq!(mnemonic(0x7C08_03A6), Some("mtspr"));
        assert_eq!(mnemonic(0x7C08_02A6), Some("mfspr"));
    }

    #[test]
    fn mfxer_mtxer_bit_positions() {
        let mut c = PpcCpu::new();
        c.xer_so = true;
        c.xer_ca = true;
        run(&mut c, 0x7C61_02A6); // mfxer r3
        assert_eq!(c.gpr[3], 0xA000_0000);
        c.gpr[3] = 0x4000_0000;
        run(&mut c, 0x7C61_03A6); // mtxer r3
        assert!(!c.xer_so && c.xer_ov && !c.xer_ca);
        c.gpr[3] = 0xE000_0000;
        run(&mut c, 0x7C61_03A6);
        assert!(c.xer_so && c.xer_ov && c.xer_ca);
        c.gpr[3] = 0;
        run(&mut c, 0x7C61_03A6); // mtxer can clear the sticky SO
        assert!(!c.xer_so && !c.xer_ov && !c.xer_ca);
    }

    #[test]
    fn other_sprs_unmodelled() {
        let c = PpcCpu::new();
        // mfspr r3,272 (SPRG0): spr field = low5(16) in bits 11:15, high5(8) in bits 16:20
        let w = 0x7C60_02A6 | (16 << 16) | (8 << 11);
        assert_eq!(mnemonic(w), None);
        run_unchanged(&c, w, PpcOutcome::Unmodelled);
        // SPR 8 with a nonzero upper half is not LR (it is SPR 8 + 32*1 = 40)
        let w2 = 0x7C08_02A6 | (1 << 11);
        assert_eq!(mnemonic(w2), None);
    }

    // ---- unconditional branches ---------------------------------------------------------------

    #[test]
    fn b_relative_forward_and_backward() {
        let mut c = PpcCpu::new();
        assert_eq!(step(&mut c, 0x1000, 0x4800_0008), next(0x1008)); // b .+8
        assert_eq!(step(&mut c, 0x1000, 0x4BFF_FFFC), next(0x0FFC)); // b .-4
        assert_eq!(step(&mut c, 0x1000, 0x4800_0000), next(0x1000)); // b .
        // most negative LI: 0x2000000 -> -0x02000000
        assert_eq!(step(&mut c, 0x0200_0000, 0x4A00_0000), next(0));
        // most positive: +0x01FFFFFC
        assert_eq!(step(&mut c, 4, 0x49FF_FFFC), next(0x0200_0000));
        assert_eq!(c, PpcCpu::new(), "b does not touch LR");
        assert_eq!(mnemonic(0x4800_0008), Some("b"));
    }

    #[test]
    fn bl_sets_lr() {
        let mut c = PpcCpu::new();
        assert_eq!(step(&mut c, 0x1000, 0x4800_0101), next(0x1100)); // bl .+0x100
        assert_eq!(c.lr, 0x1004);
        assert_eq!(mnemonic(0x4800_0101), Some("bl"));
    }

    #[test]
    fn ba_bla_absolute() {
        let mut c = PpcCpu::new();
        assert_eq!(step(&mut c, 0x1000, 0x4800_0102), next(0x100)); // ba 0x100
        assert_eq!(c.lr, 0);
        assert_eq!(step(&mut c, 0x1000, 0x4800_0103), next(0x100)); // bla 0x100
        assert_eq!(c.lr, 0x1004);
        // negative absolute target: sign-extended
        assert_eq!(step(&mut c, 0x1000, 0x4BFF_FFFE), next(0xFFFF_FFFC));
        assert_eq!(mnemonic(0x4800_0102), Some("ba"));
        assert_eq!(mnemonic(0x4800_0103), Some("bla"));
    }

    // ---- bc: every BO class ---------------------------------------------------------------------

    #[test]
    fn bdnz() {
        let mut c = PpcCpu::new();
        c.ctr = 2;
        assert_eq!(step(&mut c, 0x1010, 0x4200_FFF8), next(0x1008)); // bdnz .-8
        assert_eq!(c.ctr, 1);
        assert_eq!(step(&mut c, 0x1010, 0x4200_FFF8), next(0x1014));
        assert_eq!(c.ctr, 0);
        assert_eq!(step(&mut c, 0x1010, 0x4200_FFF8), next(0x1008)); // 0 - 1 = 0xFFFFFFFF != 0
        assert_eq!(c.ctr, 0xFFFF_FFFF);
        assert_eq!(mnemonic(0x4200_FFF8), Some("bc"));
    }

    #[test]
    fn bdz() {
        let mut c = PpcCpu::new();
        c.ctr = 2;
        assert_eq!(step(&mut c, 0x1000, 0x4240_0010), next(0x1004)); // bdz .+16
        assert_eq!(c.ctr, 1);
        assert_eq!(step(&mut c, 0x1000, 0x4240_0010), next(0x1010));
        assert_eq!(c.ctr, 0);
    }

    #[test]
    fn blt_bge_do_not_touch_ctr() {
        let mut c = PpcCpu::new();
        c.ctr = 7;
        c.cr = 0x8000_0000;
        assert_eq!(step(&mut c, 0x1000, 0x4180_0020), next(0x1020)); // blt .+32
        assert_eq!(step(&mut c, 0x1000, 0x4080_0020), next(0x1004)); // bge .+32
        c.cr = 0x4000_0000;
        assert_eq!(step(&mut c, 0x1000, 0x4180_0020), next(0x1004));
        assert_eq!(step(&mut c, 0x1000, 0x4080_0020), next(0x1020));
        assert_eq!(c.ctr, 7);
        assert_eq!(c.lr, 0);
    }

    #[test]
    fn beq_bne_on_cr7() {
        let mut c = PpcCpu::new();
        c.cr = 0x0000_0002; // cr7.EQ = CR bit 30
        assert_eq!(step(&mut c, 0x1000, 0x409E_0010), next(0x1004)); // bne cr7
        assert_eq!(step(&mut c, 0x1000, 0x419E_0010), next(0x1010)); // beq cr7
        c.cr = 0xFFFF_FFF4; // cr7 = GT; everything else set to catch wrong-bit bugs
        assert_eq!(step(&mut c, 0x1000, 0x409E_0010), next(0x1010));
        assert_eq!(step(&mut c, 0x1000, 0x419E_0010), next(0x1004));
    }

    #[test]
    fn branch_hint_bit_is_ignored() {
        let mut c = PpcCpu::new();
        c.cr = 0x8000_0000;
        assert_eq!(step(&mut c, 0x1000, 0x41A0_0020), next(0x1020)); // blt+ (BO=13)
        c.cr = 0;
        assert_eq!(step(&mut c, 0x1000, 0x41A0_0020), next(0x1004));
        assert_eq!(step(&mut c, 0x1000, 0x40A0_0020), next(0x1020)); // bge+ (BO=5)
    }

    #[test]
    fn bdnzt_bdnzf() {
        // bdnzt eq: BO=8 BI=2
        let mut c = PpcCpu::new();
        c.ctr = 2;
        c.cr = 0x2000_0000;
        assert_eq!(step(&mut c, 0x1000, 0x4102_0010), next(0x1010));
        assert_eq!(c.ctr, 1);
        c.ctr = 2;
        c.cr = 0;
        assert_eq!(step(&mut c, 0x1000, 0x4102_0010), next(0x1004)); // cond false
        assert_eq!(c.ctr, 1, "CTR is decremented even when the branch is not taken");
        c.ctr = 1;
        c.cr = 0x2000_0000;
        assert_eq!(step(&mut c, 0x1000, 0x4102_0010), next(0x1004)); // CTR reaches 0
        assert_eq!(c.ctr, 0);
        // bdnzf eq: BO=0 BI=2
        c.ctr = 2;
        c.cr = 0;
        assert_eq!(step(&mut c, 0x1000, 0x4002_0010), next(0x1010));
        assert_eq!(c.ctr, 1);
        c.ctr = 2;
        c.cr = 0x2000_0000;
        assert_eq!(step(&mut c, 0x1000, 0x4002_0010), next(0x1004));
        assert_eq!(c.ctr, 1);
    }

    #[test]
    fn bdzt_bdzf() {
        let mut c = PpcCpu::new();
        // bdzt eq: BO=10 BI=2
        c.ctr = 1;
        c.cr = 0x2000_0000;
        assert_eq!(step(&mut c, 0x1000, 0x4142_0010), next(0x1010));
        assert_eq!(c.ctr, 0);
        c.ctr = 2;
        assert_eq!(step(&mut c, 0x1000, 0x4142_0010), next(0x1004));
        assert_eq!(c.ctr, 1);
        c.ctr = 1;
        c.cr = 0;
        assert_eq!(step(&mut c, 0x1000, 0x4142_0010), next(0x1004));
        assert_eq!(c.ctr, 0);
        // bdzf eq: BO=2 BI=2
        c.ctr = 1;
        assert_eq!(step(&mut c, 0x1000, 0x4042_0010), next(0x1010));
        assert_eq!(c.ctr, 0);
        c.ctr = 1;
        c.cr = 0x2000_0000;
        assert_eq!(step(&mut c, 0x1000, 0x4042_0010), next(0x1004));
    }

    #[test]
    fn bc_branch_always() {
        let mut c = PpcCpu::new();
        c.ctr = 1;
        assert_eq!(step(&mut c, 0x1000, 0x4280_0010), next(0x1010)); // BO=20
        assert_eq!(step(&mut c, 0x1000, 0x43E0_0010), next(0x1010)); // BO=31 (z bits ignored)
        c.cr = 0xFFFF_FFFF;
        assert_eq!(step(&mut c, 0x1000, 0x4280_0010), next(0x1010));
        assert_eq!(c.ctr, 1);
    }

    #[test]
    fn bcl_sets_lr_taken_or_not() {
        let mut c = PpcCpu::new();
        assert_eq!(step(&mut c, 0x1000, 0x4180_0021), next(0x1004)); // bltl, not taken
        assert_eq!(c.lr, 0x1004);
        c.lr = 0;
        c.cr = 0x8000_0000;
        assert_eq!(step(&mut c, 0x2000, 0x4180_0021), next(0x2020)); // taken
        assert_eq!(c.lr, 0x2004);
        // the PIC idiom "bcl 20,31,$+4"
        assert_eq!(step(&mut c, 0x3000, 0x429F_0005), next(0x3004));
        assert_eq!(c.lr, 0x3004);
        assert_eq!(mnemonic(0x429F_0005), Some("bcl"));
    }

    #[test]
    fn bca_bcla_absolute_targets() {
        let mut c = PpcCpu::new();
        c.cr = 0x8000_0000;
        assert_eq!(step(&mut c, 0x1000, 0x4180_0102), next(0x100)); // blta 0x100
        assert_eq!(c.lr, 0);
        assert_eq!(step(&mut c, 0x1000, 0x4180_FFF2), next(0xFFFF_FFF0)); // blta -16
        assert_eq!(step(&mut c, 0x1000, 0x4180_0103), next(0x100)); // bltla
        assert_eq!(c.lr, 0x1004);
        c.cr = 0;
        assert_eq!(step(&mut c, 0x1000, 0x4180_0102), next(0x1004)); // not taken: pc+4
        assert_eq!(mnemonic(0x4180_0102), Some("bca"));
        assert_eq!(mnemonic(0x4180_0103), Some("bcla"));
    }

    #[test]
    fn bc_all_bo_bi_against_pem_table() {
        // Independent transcription of the PEM BO-encoding table (Table 4-20):
        // 0000y 0001y 001zy 0100y 0101y 011zy 1z00y 1z01y 1z1zz
        fn table(bo: u32, ctr_after: u32, bit: bool) -> (bool, bool) {
            match bo >> 1 {
                0b0000 => (true, ctr_after != 0 && !bit),
                0b0001 => (true, ctr_after == 0 && !bit),
                0b0010 | 0b0011 => (false, !bit),
                0b0100 => (true, ctr_after != 0 && bit),
                0b0101 => (true, ctr_after == 0 && bit),
                0b0110 | 0b0111 => (false, bit),
                0b1000 | 0b1100 => (true, ctr_after != 0),
                0b1001 | 0b1101 => (true, ctr_after == 0),
                _ => (false, true),
            }
        }
        for bo in 0..32u32 {
            for bi in 0..32u32 {
                for bit in [false, true] {
                    for ctr in [0u32, 1, 2] {
                        for lk in [0u32, 1] {
                            let mut c = PpcCpu::new();
                            // every CR bit is the opposite of the tested one
                            c.cr = if bit { 0x8000_0000 >> bi } else { !(0x8000_0000u32 >> bi) };
                            c.ctr = ctr;
                            c.lr = 0x7777_0000;
                            let w = 0x4000_0040 | (bo << 21) | (bi << 16) | lk; // bc[l] BO,BI,.+0x40
                            let out = step(&mut c, 0x5000, w);
                            let after = ctr.wrapping_sub(1);
                            let (dec, taken) = table(bo, after, bit);
                            assert_eq!(c.ctr, if dec { after } else { ctr }, "bo={} bi={}", bo, bi);
                            assert_eq!(out, next(if taken { 0x5040 } else { 0x5004 }), "bo={} bi={} bit={} ctr={}", bo, bi, bit, ctr);
                            assert_eq!(c.lr, if lk == 1 { 0x5004 } else { 0x7777_0000 });
                        }
                    }
                }
            }
        }
    }

    // ---- bclr / bcctr -----------------------------------------------------------------------------

    #[test]
    fn blr_masks_low_bits() {
        let mut c = PpcCpu::new();
        c.lr = 0x2003;
        assert_eq!(step(&mut c, 0x1000, 0x4E80_0020), next(0x2000)); // blr
        assert_eq!(c.lr, 0x2003, "LR itself is not modified");
        assert_eq!(mnemonic(0x4E80_0020), Some("bclr"));
    }

    #[test]
    fn blrl_uses_old_lr_as_target() {
        let mut c = PpcCpu::new();
        c.lr = 0x2000;
        assert_eq!(step(&mut c, 0x1000, 0x4E80_0021), next(0x2000)); // blrl
        assert_eq!(c.lr, 0x1004);
        assert_eq!(mnemonic(0x4E80_0021), Some("bclrl"));
    }

    #[test]
    fn conditional_bclr() {
        let mut c = PpcCpu::new();
        c.lr = 0x2000;
        assert_eq!(step(&mut c, 0x1000, 0x4D82_0020), next(0x1004)); // beqlr, EQ clear
        c.cr = 0x2000_0000;
        assert_eq!(step(&mut c, 0x1000, 0x4D82_0020), next(0x2000));
        c.ctr = 5;
        assert_eq!(step(&mut c, 0x1000, 0x4E00_0020), next(0x2000)); // bdnzlr
        assert_eq!(c.ctr, 4);
        c.ctr = 1;
        assert_eq!(step(&mut c, 0x1000, 0x4E00_0020), next(0x1004));
        assert_eq!(c.ctr, 0);
        // beqlrl not taken still writes LR
        c.cr = 0;
        assert_eq!(step(&mut c, 0x1000, 0x4D82_0021), next(0x1004));
        assert_eq!(c.lr, 0x1004);
    }

    #[test]
    fn bclr_reserved_and_hint_bits() {
        let mut c = PpcCpu::new();
        c.lr = 0x2000;
        run_unchanged(&c, 0x4E80_2020, PpcOutcome::Invalid(RESERVED)); // bit 18 set
        // BH hint (bits 19:20) is accepted and ignored
        assert_eq!(step(&mut c, 0x1000, 0x4E80_0820), next(0x2000));
    }

    #[test]
    fn bctr_and_bctrl() {
        let mut c = PpcCpu::new();
        c.ctr = 0x3007;
        assert_eq!(step(&mut c, 0x1000, 0x4E80_0420), next(0x3004)); // bctr
        assert_eq!(c.ctr, 0x3007);
        assert_eq!(c.lr, 0);
        assert_eq!(step(&mut c, 0x1000, 0x4E80_0421), next(0x3004)); // bctrl
        assert_eq!(c.lr, 0x1004);
        assert_eq!(mnemonic(0x4E80_0420), Some("bcctr"));
        assert_eq!(mnemonic(0x4E80_0421), Some("bcctrl"));
    }

    #[test]
    fn conditional_bcctr_and_invalid_decrementing_form() {
        let mut c = PpcCpu::new();
        c.ctr = 0x3000;
        assert_eq!(step(&mut c, 0x1000, 0x4D82_0420), next(0x1004)); // beqctr, EQ clear
        c.cr = 0x2000_0000;
        assert_eq!(step(&mut c, 0x1000, 0x4D82_0420), next(0x3000));
        assert_eq!(step(&mut c, 0x1000, 0x4C82_0420), next(0x1004)); // bnectr
        let why = "bcctr with BO[2]=0 (decrement CTR)";
        run_unchanged(&c, 0x4E00_0420, PpcOutcome::Invalid(why)); // BO=16
        run_unchanged(&c, 0x4D02_0421, PpcOutcome::Invalid(why)); // BO=8, LK=1: LR untouched
        assert_eq!(mnemonic(0x4E00_0420), Some("bcctr"));
    }

    // ---- loads ----------------------------------------------------------------------------------

    #[test]
    fn lwz_big_endian() {
        let mut c = PpcCpu::new();
        c.gpr[1] = 0x1000;
        c.map_bytes(0x1014, &[0x12, 0x34, 0x56, 0x78]);
        run(&mut c, 0x8001_0014); // lwz r0,20(r1)
        assert_eq!(c.gpr[0], 0x1234_5678);
        assert_eq!(c.gpr[1], 0x1000);
    }

    #[test]
    fn lwz_ra0_is_literal_zero_base() {
        let mut c = PpcCpu::new();
        c.gpr[0] = 0x5000; // must be ignored
        c.map_bytes(8, &[0xDE, 0xAD, 0xBE, 0xEF]);
        run(&mut c, 0x8060_0008); // lwz r3,8(0)
        assert_eq!(c.gpr[3], 0xDEAD_BEEF);
        c.map_bytes(0xFFFF_FFFC, &[0, 0, 0, 9]);
        run(&mut c, 0x8060_FFFC); // lwz r3,-4(0)
        assert_eq!(c.gpr[3], 9);
    }

    #[test]
    fn lwz_partial_mapping_faults_at_first_missing_byte() {
        let mut c = PpcCpu::new();
        c.gpr[1] = 0x1000;
        c.gpr[0] = 0x4242;
        c.map_bytes(0x1014, &[1, 2, 3]); // 0x1017 missing
        run_unchanged(&c, 0x8001_0014, PpcOutcome::MemFault(0x1017));
        c.mem.clear();
        c.map_bytes(0x1016, &[1, 2]); // 0x1014 missing
        run_unchanged(&c, 0x8001_0014, PpcOutcome::MemFault(0x1014));
    }

    #[test]
    fn lbz_lhz_lha_extension() {
        let mut c = PpcCpu::new();
        c.gpr[4] = 0x2000;
        c.gpr[3] = 0xFFFF_FFFF;
        c.map_bytes(0x1FFF, &[0x7E, 0x80, 0x01]);
        run(&mut c, 0x8864_0000); // lbz r3,0(r4)
        assert_eq!(c.gpr[3], 0x80);
        run(&mut c, 0x8864_FFFF); // lbz r3,-1(r4)
        assert_eq!(c.gpr[3], 0x7E);
        run(&mut c, 0xA064_0000); // lhz r3,0(r4)
        assert_eq!(c.gpr[3], 0x8001);
        run(&mut c, 0xA864_0000); // lha r3,0(r4)
        assert_eq!(c.gpr[3], 0xFFFF_8001);
        run(&mut c, 0xA864_FFFF); // lha r3,-1(r4) : 0x7E80, positive
        assert_eq!(c.gpr[3], 0x7E80);
    }

    #[test]
    fn lwzu_updates_after_access() {
        let mut c = PpcCpu::new();
        c.gpr[4] = 0x1000;
        c.map_bytes(0x1004, &[0, 0, 0x10, 0x04]);
        run(&mut c, 0x8464_0004); // lwzu r3,4(r4)
        assert_eq!(c.gpr[3], 0x1004);
        assert_eq!(c.gpr[4], 0x1004);
        // fault: neither rD nor rA changes
        c.gpr[4] = 0x3000;
        run_unchanged(&c, 0x8464_0004, PpcOutcome::MemFault(0x3004));
    }

    #[test]
    fn lwzu_invalid_forms() {
        let mut c = PpcCpu::new();
        c.map_bytes(0, &[0; 16]);
        run_unchanged(&c, 0x8460_0004, PpcOutcome::Invalid("update form with rA=0"));
        run_unchanged(&c, 0x8463_0004, PpcOutcome::Invalid("load with update with rA=rD"));
        run_unchanged(&c, 0x8C60_0001, PpcOutcome::Invalid("update form with rA=0")); // lbzu
        run_unchanged(&c, 0xA463_0002, PpcOutcome::Invalid("load with update with rA=rD")); // lhzu
        run_unchanged(&c, 0xAC63_0002, PpcOutcome::Invalid("load with update with rA=rD")); // lhau
        run_unchanged(&c, 0x7C63_286E, PpcOutcome::Invalid("load with update with rA=rD")); // lwzux
        run_unchanged(&c, 0x7C60_28EE, PpcOutcome::Invalid("update form with rA=0")); // lbzux
        assert_eq!(mnemonic(0x8460_0004), Some("lwzu"));
    }

    #[test]
    fn lbzu_lhzu_lhau() {
        let mut c = PpcCpu::new();
        c.gpr[4] = 0x1000;
        c.map_bytes(0x1000, &[0x11, 0xF2, 0xF3, 0x84, 0x05]);
        run(&mut c, 0x8C64_0001); // lbzu r3,1(r4)
        assert_eq!((c.gpr[3], c.gpr[4]), (0xF2, 0x1001));
        run(&mut c, 0xA464_0002); // lhzu r3,2(r4) -> 0x1003: 84 05
        assert_eq!((c.gpr[3], c.gpr[4]), (0x8405, 0x1003));
        run(&mut c, 0xAC64_FFFF); // lhau r3,-1(r4) -> 0x1002: F3 84
        assert_eq!((c.gpr[3], c.gpr[4]), (0xFFFF_F384, 0x1002));
    }

    #[test]
    fn indexed_loads() {
        let mut c = PpcCpu::new();
        c.gpr[4] = 0x1000;
        c.gpr[5] = 0x20;
        c.map_bytes(0x1020, &[0x81, 0x02, 0x03, 0x04]);
        run(&mut c, 0x7C64_282E); // lwzx r3,r4,r5
        assert_eq!(c.gpr[3], 0x8102_0304);
        run(&mut c, 0x7C64_28AE); // lbzx
        assert_eq!(c.gpr[3], 0x81);
        run(&mut c, 0x7C64_2A2E); // lhzx
        assert_eq!(c.gpr[3], 0x8102);
        run(&mut c, 0x7C64_2AAE); // lhax
        assert_eq!(c.gpr[3], 0xFFFF_8102);
        // rA=0 -> base literal 0
        c.gpr[0] = 0x9999_0000;
        c.gpr[5] = 0x1020;
        run(&mut c, 0x7C60_282E); // lwzx r3,0,r5
        assert_eq!(c.gpr[3], 0x8102_0304);
        c.gpr[5] = 0x1022; // 0x1024 and 0x1025 are unmapped
        run_unchanged(&c, 0x7C60_282E, PpcOutcome::MemFault(0x1024));
        // bit 31 is reserved for X-form loads
        run_unchanged(&c, 0x7C60_282F, PpcOutcome::Invalid(RESERVED));
    }

    #[test]
    fn indexed_update_loads() {
        let mut c = PpcCpu::new();
        c.gpr[4] = 0x1000;
        c.gpr[5] = 0xFFFF_FFFC; // -4
        c.map_bytes(0x0FFC, &[0xF0, 0x0D, 0xCA, 0xFE]);
        run(&mut c, 0x7C64_286E); // lwzux r3,r4,r5
        assert_eq!((c.gpr[3], c.gpr[4]), (0xF00D_CAFE, 0x0FFC));
        c.gpr[5] = 1;
        run(&mut c, 0x7C64_28EE); // lbzux r3,r4,r5 -> 0x0FFD
        assert_eq!((c.gpr[3], c.gpr[4]), (0x0D, 0x0FFD));
        run(&mut c, 0x7C64_2A6E); // lhzux r3,r4,r5 -> 0x0FFE: CA FE
        assert_eq!((c.gpr[3], c.gpr[4]), (0xCAFE, 0x0FFE));
        c.gpr[5] = 0;
        run(&mut c, 0x7C64_2AEE); // lhaux r3,r4,r5 -> 0x0FFE
        assert_eq!((c.gpr[3], c.gpr[4]), (0xFFFF_CAFE, 0x0FFE));
    }

    #[test]
    fn unaligned_and_wrapping_accesses() {
        let mut c = PpcCpu::new();
        c.gpr[4] = 0x1001;
        c.map_bytes(0x1001, &[0xAA, 0xBB, 0xCC, 0xDD]);
        run(&mut c, 0x8064_0000); // lwz r3,0(r4), EA = 0x1001
        assert_eq!(c.gpr[3], 0xAABB_CCDD);
        c.map_bytes(0xFFFF_FFFE, &[1, 2]);
        c.map_bytes(0, &[3, 4]);
        c.gpr[4] = 0xFFFF_FFFE;
        run(&mut c, 0x8064_0000); // wraps modulo 2^32
        assert_eq!(c.gpr[3], 0x0102_0304);
    }

    // ---- stores -----------------------------------------------------------------------------------

    #[test]
    fn stw_stb_sth_big_endian() {
        let mut c = PpcCpu::new();
        c.gpr[3] = 0xDEAD_BEEF;
        c.gpr[4] = 0x1000;
        c.map_bytes(0x1000, &[0; 8]);
        run(&mut c, 0x9064_0000); // stw r3,0(r4)
        assert_eq!(c.load_be(0x1000, 4), Some(0xDEAD_BEEF));
        assert_eq!(c.mem[&0x1000], 0xDE);
        assert_eq!(c.mem[&0x1003], 0xEF);
        run(&mut c, 0x9864_0004); // stb r3,4(r4)
        assert_eq!(c.mem[&0x1004], 0xEF);
        assert_eq!(c.mem[&0x1005], 0);
        run(&mut c, 0xB064_0006); // sth r3,6(r4)
        assert_eq!((c.mem[&0x1006], c.mem[&0x1007]), (0xBE, 0xEF));
        assert_eq!(c.mem.len(), 8);
    }

    #[test]
    fn store_to_unmapped_faults_without_partial_write() {
        let mut c = PpcCpu::new();
        c.gpr[3] = 0xDEAD_BEEF;
        c.gpr[4] = 0x1000;
        c.map_bytes(0x1000, &[0x55, 0x55]); // 0x1002, 0x1003 unmapped
        run_unchanged(&c, 0x9064_0000, PpcOutcome::MemFault(0x1002));
        run_unchanged(&c, 0xB064_0001, PpcOutcome::MemFault(0x1002)); // sth r3,1(r4)
        run_unchanged(&c, 0x9864_0002, PpcOutcome::MemFault(0x1002)); // stb r3,2(r4)
    }

    #[test]
    fn stw_ra0_is_literal_zero_base() {
        let mut c = PpcCpu::new();
        c.gpr[0] = 0x7000;
        c.gpr[3] = 0x0102_0304;
        c.map_bytes(0x10, &[0; 4]);
        run(&mut c, 0x9060_0010); // stw r3,16(0)
        assert_eq!(c.load_be(0x10, 4), Some(0x0102_0304));
        // rS = r0 IS the register
        run(&mut c, 0x9000_0010); // stw r0,16(0)
        assert_eq!(c.load_be(0x10, 4), Some(0x7000));
    }

    #[test]
    fn stwu_stores_old_value_then_updates() {
        let mut c = PpcCpu::new();
        c.gpr[1] = 0x2000;
        c.map_bytes(0x1FF0, &[0xFF; 4]);
        run(&mut c, 0x9421_FFF0); // stwu r1,-16(r1)
        assert_eq!(c.load_be(0x1FF0, 4), Some(0x0000_2000), "the OLD r1 is stored");
        assert_eq!(c.gpr[1], 0x1FF0);
        assert_eq!(mnemonic(0x9421_FFF0), Some("stwu"));
    }

    #[test]
    fn stwu_invalid_and_fault() {
        let mut c = PpcCpu::new();
        c.gpr[1] = 0x2000;
        run_unchanged(&c, 0x9421_FFF0, PpcOutcome::MemFault(0x1FF0));
        c.map_bytes(0xFFFF_FFF0, &[0; 4]);
        run_unchanged(&c, 0x9460_FFF0, PpcOutcome::Invalid("update form with rA=0"));
        run_unchanged(&c, 0x9C60_0001, PpcOutcome::Invalid("update form with rA=0")); // stbu
        run_unchanged(&c, 0xB460_0002, PpcOutcome::Invalid("update form with rA=0")); // sthu
        run_unchanged(&c, 0x7C60_296E, PpcOutcome::Invalid("update form with rA=0")); // stwux
    }

    #[test]
    fn stbu_sthu() {
        let mut c = PpcCpu::new();
        c.gpr[3] = 0x1122_3344;
        c.gpr[4] = 0x1000;
        c.map_bytes(0x1000, &[0; 4]);
        run(&mut c, 0x9C64_0001); // stbu r3,1(r4)
        assert_eq!((c.mem[&0x1001], c.gpr[4]), (0x44, 0x1001));
        run(&mut c, 0xB464_0001); // sthu r3,1(r4) -> 0x1002
        assert_eq!(c.load_be(0x1002, 2), Some(0x3344));
        assert_eq!(c.gpr[4], 0x1002);
        assert_eq!(c.mem[&0x1000], 0);
    }

    #[test]
    fn indexed_stores() {
        let mut c = PpcCpu::new();
        c.gpr[3] = 0xA1B2_C3D4;
        c.gpr[4] = 0x1000;
        c.gpr[5] = 8;
        c.map_bytes(0x1000, &[0; 16]);
        run(&mut c, 0x7C64_292E); // stwx r3,r4,r5
        assert_eq!(c.load_be(0x1008, 4), Some(0xA1B2_C3D4));
        run(&mut c, 0x7C64_29AE); // stbx
        assert_eq!(c.mem[&0x1008], 0xD4);
        run(&mut c, 0x7C64_2B2E); // sthx
        assert_eq!(c.load_be(0x1008, 4), Some(0xC3D4_C3D4));
        assert_eq!(c.gpr[4], 0x1000);
        run(&mut c, 0x7C64_29EE); // stbux r3,r4,r5
        assert_eq!((c.mem[&0x1008], c.gpr[4]), (0xD4, 0x1008));
        c.gpr[5] = 2;
        run(&mut c, 0x7C64_2B6E); // sthux r3,r4,r5 -> 0x100A
        assert_eq!(c.load_be(0x100A, 2), Some(0xC3D4));
        assert_eq!(c.gpr[4], 0x100A);
    }

    #[test]
    fn stwux_with_rs_equal_ra_stores_old_value() {
        let mut c = PpcCpu::new();
        c.gpr[4] = 0x1000;
        c.gpr[5] = 0x10;
        c.map_bytes(0x1010, &[0; 4]);
        run(&mut c, 0x7C84_296E); // stwux r4,r4,r5
        assert_eq!(c.load_be(0x1010, 4), Some(0x1000));
        assert_eq!(c.gpr[4], 0x1010);
    }

    // ---- lmw / stmw ---------------------------------------------------------------------------------

    #[test]
    fn stmw_then_lmw_range() {
        let mut c = PpcCpu::new();
        c.gpr[1] = 0x1010;
        c.gpr[28] = 0x2828_2828;
        c.gpr[29] = 0x2929_2929;
        c.gpr[30] = 0x3030_3030;
        c.gpr[31] = 0x3131_3131;
        c.map_bytes(0x1000, &[0xEE; 0x14]);
        run(&mut c, 0xBFA1_FFF4); // stmw r29,-12(r1) -> EA 0x1004
        assert_eq!(c.load_be(0x1000, 4), Some(0xEEEE_EEEE), "below range untouched");
        assert_eq!(c.load_be(0x1004, 4), Some(0x2929_2929));
        assert_eq!(c.load_be(0x1008, 4), Some(0x3030_3030));
        assert_eq!(c.load_be(0x100C, 4), Some(0x3131_3131));
        assert_eq!(c.load_be(0x1010, 4), Some(0xEEEE_EEEE), "above range untouched");
        for r in 28..32 {
            c.gpr[r] = 0;
        }
        run(&mut c, 0xBBA1_FFF4); // lmw r29,-12(r1)
        assert_eq!(c.gpr[28], 0, "r28 is outside the range");
        assert_eq!(c.gpr[29], 0x2929_2929);
        assert_eq!(c.gpr[30], 0x3030_3030);
        assert_eq!(c.gpr[31], 0x3131_3131);
        assert_eq!(c.gpr[1], 0x1010);
    }

    #[test]
    fn lmw_stmw_check_every_byte_first() {
        let mut c = PpcCpu::new();
        c.gpr[1] = 0x1010;
        c.gpr[29] = 1;
        c.gpr[30] = 2;
        c.gpr[31] = 3;
        c.map_bytes(0x1004, &[0x77; 11]); // last byte 0x100F unmapped
        run_unchanged(&c, 0xBFA1_FFF4, PpcOutcome::MemFault(0x100F));
        run_unchanged(&c, 0xBBA1_FFF4, PpcOutcome::MemFault(0x100F));
    }

    #[test]
    fn lmw_invalid_when_ra_in_range() {
        let mut c = PpcCpu::new();
        c.map_bytes(0, &[0; 128]);
        let why = "lmw with rA in the range of registers loaded";
        run_unchanged(&c, 0xBBBE_0000, PpcOutcome::Invalid(why)); // lmw r29,0(r30)
        run_unchanged(&c, 0xBBFF_0000, PpcOutcome::Invalid(why)); // lmw r31,0(r31)
        run_unchanged(&c, 0xB800_0000, PpcOutcome::Invalid(why)); // lmw r0,0(0)
        assert_eq!(mnemonic(0xBBBE_0000), Some("lmw"));
        // lmw r1,0(0): rA field 0 < rD, base is literal zero, 31 registers loaded
        c.gpr[0] = 0xFFFF_0000;
        c.map_bytes(4, &[0, 0, 0, 7]); // second word -> r2
        c.map_bytes(0x78, &[0, 0, 0, 0x1F]); // 31st word -> r31
        run(&mut c, 0xB820_0000);
        assert_eq!((c.gpr[1], c.gpr[2], c.gpr[31]), (0, 7, 0x1F));
        assert_eq!(c.gpr[0], 0xFFFF_0000);
    }

    #[test]
    fn stmw_r31_and_ra_in_range_is_fine() {
        let mut c = PpcCpu::new();
        c.gpr[31] = 0x1000;
        c.map_bytes(0x1000, &[0; 4]);
        run(&mut c, 0xBFFF_0000); // stmw r31,0(r31)
        assert_eq!(c.load_be(0x1000, 4), Some(0x1000));
        assert_eq!(c.mem.len(), 4);
    }

    #[test]
    fn lmw_stmw_unaligned_is_boundedly_undefined() {
        let mut c = PpcCpu::new();
        c.gpr[1] = 0x1002;
        c.map_bytes(0x1000, &[0; 32]);
        let why = "lmw/stmw with EA not a multiple of 4";
        run_unchanged(&c, 0xBFE1_0000, PpcOutcome::Invalid(why)); // stmw r31,0(r1)
        run_unchanged(&c, 0xBBE1_0000, PpcOutcome::Invalid(why)); // lmw r31,0(r1)
    }

    // ---- sc / traps / barriers ------------------------------------------------------------------------

    #[test]
    fn sc_traps() {
        let mut c = PpcCpu::new();
        c.gpr[0] = 1;
        run_unchanged(&c, 0x4400_0002, PpcOutcome::Trap("sc"));
        assert_eq!(mnemonic(0x4400_0002), Some("sc"));
        run_unchanged(&c, 0x4400_0003, PpcOutcome::Invalid(RESERVED));
        run_unchanged(&c, 0x4400_0000, PpcOutcome::Unmodelled);
        assert_eq!(mnemonic(0x4400_0000), None);
    }

    #[test]
    fn unconditional_trap_and_tw_conditions() {
        let mut c = PpcCpu::new();
        run_unchanged(&c, 0x7FE0_0008, PpcOutcome::Trap("trap")); // trap = tw 31,0,0
        assert_eq!(mnemonic(0x7FE0_0008), Some("tw"));
        c.gpr[4] = 0xFFFF_FFFF;
        c.gpr[5] = 0;
        run_unchanged(&c, 0x7E04_2808, PpcOutcome::Trap("trap")); // twlt r4,r5 : -1 < 0
        run_unchanged(&c, 0x7C44_2808, PpcOutcome::Next { pc: PC + 4 }); // twllt: 0xFFFFFFFF <u 0 no
        run_unchanged(&c, 0x7C24_2808, PpcOutcome::Trap("trap")); // twlgt: 0xFFFFFFFF >u 0
        run_unchanged(&c, 0x7D04_2808, PpcOutcome::Next { pc: PC + 4 }); // twgt: -1 > 0 no
        run_unchanged(&c, 0x7C84_2808, PpcOutcome::Next { pc: PC + 4 }); // tweq
        run_unchanged(&c, 0x7C04_2808, PpcOutcome::Next { pc: PC + 4 }); // TO=0 never traps
        c.gpr[4] = 1;
        run_unchanged(&c, 0x7E04_2808, PpcOutcome::Next { pc: PC + 4 });
        run_unchanged(&c, 0x7D04_2808, PpcOutcome::Trap("trap")); // twgt: 1 > 0
    }

    #[test]
    fn twi_conditions() {
        let mut c = PpcCpu::new();
        run_unchanged(&c, 0x0C83_0000, PpcOutcome::Trap("trap")); // tweqi r3,0 with r3=0
        run_unchanged(&c, 0x0C23_FFFF, PpcOutcome::Next { pc: PC + 4 }); // twlgti r3,-1: 0 >u 0xFFFFFFFF no
        run_unchanged(&c, 0x0C43_FFFF, PpcOutcome::Trap("trap")); // twllti r3,-1: 0 <u 0xFFFFFFFF
        run_unchanged(&c, 0x0D03_FFFF, PpcOutcome::Trap("trap")); // twgti r3,-1: 0 > -1
        run_unchanged(&c, 0x0E03_FFFF, PpcOutcome::Next { pc: PC + 4 }); // twlti r3,-1: 0 < -1 no
        c.gpr[3] = 1;
        run_unchanged(&c, 0x0C83_0000, PpcOutcome::Next { pc: PC + 4 });
        run_unchanged(&c, 0x0F03_0000, PpcOutcome::Trap("trap")); // twnei r3,0 (TO=24: lt|gt)
        assert_eq!(mnemonic(0x0C83_0000), Some("twi"));
    }

    #[test]
    fn barriers_are_nops() {
        let mut c = PpcCpu::new();
        c.cr = 0x1111_1111;
        c.xer_so = true;
        let before = c.clone();
        for (w, name) in [(0x7C00_04ACu32, "sync"), (0x4C00_012C, "isync"), (0x7C00_06AC, "eieio"), (0x7C20_04AC, "sync")] {
            run(&mut c, w); // last one is lwsync (L=1), treated as sync
            assert_eq!(c, before);
            assert_eq!(mnemonic(w), Some(name));
        }
        run_unchanged(&c, 0x7C00_04AD, PpcOutcome::Invalid(RESERVED));
        run_unchanged(&c, 0x4C01_012C, PpcOutcome::Invalid(RESERVED));
    }

    // ---- decoder coverage ---------------------------------------------------------------------------------

    #[test]
    fn unmodelled_words() {
        let c = PpcCpu::new();
        for w in [
            0x0000_0000u32, // illegal
            0xC064_0000,    // lfs f3,0(r4)
            0x7C64_2828,    // lwarx r3,r4,r5 (31/20)
            0x7C64_292D,    // stwcx. r3,r4,r5 (31/150)
            0x7C64_2C2C,    // lwbrx (31/534)
            0x7C64_2BD2,    // divd (31/489) - 64-bit only
            0x7C60_0400,    // mcrxr (31/512)
            0x7C6C_42E6,    // mftb r3 (31/371)
            0xFC20_1090,    // fmr
            0x7C64_2C6E,    // lfsux-ish / unassigned in the integer subset
            0x4C00_0064,    // rfi (19/50)
            0x1000_0000,    // opcode 4 (vector)
            0x5800_0000,    // opcode 22
            0xE800_0000,    // ld (64-bit)
        ] {
            assert_eq!(mnemonic(w), None, "{:#010x}", w);
            run_unchanged(&c, w, PpcOutcome::Unmodelled);
        }
    }

    #[test]
    fn mnemonic_table() {
        let table: [(u32, &str); 60] = [
            (0x7C64_2A14, "add"), (0x7C64_2A15, "add."), (0x7C64_2E14, "addo"), (0x7C64_2E15, "addo."),
            (0x7C64_2814, "addc"), (0x7C64_2C15, "addco."), (0x7C64_2914, "adde"), (0x7C64_01D4, "addme"),
            (0x7C64_2850, "subf"), (0x7C64_2851, "subf."), (0x7C64_2C50, "subfo"), (0x7C64_2810, "subfc"),
            (0x7C64_2910, "subfe"), (0x7C64_0190, "subfze"), (0x7C64_01D0, "subfme"), (0x2064_000A, "subfic"),
            (0x7C64_00D0, "neg"), (0x7C64_29D6, "mullw"), (0x1C64_FFFD, "mulli"), (0x7C64_2896, "mulhw"),
            (0x7C64_2816, "mulhwu"), (0x7C64_2BD6, "divw"), (0x7C64_2B96, "divwu"), (0x7C64_2F97, "divwuo."),
            (0x7083_F0F0, "andi."), (0x7483_8000, "andis."), (0x6483_8001, "oris"), (0x6883_FFFF, "xori"),
            (0x6C83_FFFF, "xoris"), (0x7C83_0774, "extsb"), (0x7C83_0735, "extsh."), (0x7C83_0034, "cntlzw"),
            (0x7C83_2830, "slw"), (0x7C83_2C31, "srw."), (0x7C83_2E30, "sraw"), (0x7C63_0E70, "srawi"),
            (0x7C63_0E71, "srawi."), (0x5083_442E, "rlwimi"), (0x5C83_283E, "rlwnm"), (0x4F80_0000, "mcrf"),
            (0x7D80_0026, "mfcr"), (0x7D8F_F120, "mtcrf"), (0x8001_0014, "lwz"), (0x8864_0000, "lbz"),
            (0x8C64_0001, "lbzu"), (0xA064_0000, "lhz"), (0xA464_0002, "lhzu"), (0xA864_0000, "lha"),
            (0xAC64_0002, "lhau"), (0x9064_0000, "stw"), (0x9864_0000, "stb"), (0x9C64_0001, "stbu"),
            (0xB064_0000, "sth"), (0xB464_0002, "sthu"), (0xBFA1_FFF4, "stmw"), (0x7C64_282E, "lwzx"),
            (0x7C64_286E, "lwzux"), (0x7C64_28AE, "lbzx"), (0x7C64_292E, "stwx"), (0x7C64_296E, "stwux"),
        ];
        for (w, name) in table {
            assert_eq!(mnemonic(w), Some(name), "{:#010x}", w);
        }
        for (w, name) in [
            (0x7C64_2A2Eu32, "lhzx"), (0x7C64_2AAE, "lhax"), (0x7C64_29AE, "stbx"), (0x7C64_2B2E, "sthx"),
            (0x7C64_28EE, "lbzux"), (0x7C64_2A6E, "lhzux"), (0x7C64_2AEE, "lhaux"), (0x7C64_29EE, "stbux"),
            (0x7C64_2B6E, "sthux"),
        ] {
            assert_eq!(mnemonic(w), Some(name), "{:#010x}", w);
        }
    }

    // ---- exhaustive register-field sweeps ----------------------------------------------------------------

    fn seeded() -> PpcCpu {
        let mut c = PpcCpu::new();
        for i in 0..32 {
            c.gpr[i] = 0x0101_0101u32.wrapping_mul(i as u32 + 1) ^ 0x8000_0000u32.wrapping_mul(i as u32 & 1);
        }
        c
    }

    #[test]
    fn add_all_register_fields() {
        let init = seeded();
        for rd in 0..32usize {
            for ra in 0..32usize {
                for rb in 0..32usize {
                    let mut c = init.clone();
                    let w = 0x7C00_0214 | (rd as u32) << 21 | (ra as u32) << 16 | (rb as u32) << 11;
                    run(&mut c, w);
                    let mut want = init.clone();
                    want.gpr[rd] = init.gpr[ra].wrapping_add(init.gpr[rb]);
                    assert_eq!(c, want, "add r{},r{},r{}", rd, ra, rb);
                }
            }
        }
    }

    #[test]
    fn or_and_subf_all_register_fields() {
        let init = seeded();
        for rt in 0..32usize {
            for ra in 0..32usize {
                for rb in 0..32usize {
                    let f = (rt as u32) << 21 | (ra as u32) << 16 | (rb as u32) << 11;
                    let mut c = init.clone();
                    run(&mut c, 0x7C00_0378 | f); // or rA,rS,rB (rS is the bits 6:10 field)
                    let mut want = init.clone();
                    want.gpr[ra] = init.gpr[rt] | init.gpr[rb];
                    assert_eq!(c, want, "or r{},r{},r{}", ra, rt, rb);
                    let mut c = init.clone();
                    run(&mut c, 0x7C00_0050 | f); // subf rD,rA,rB = rB - rA
                    let mut want = init.clone();
                    want.gpr[rt] = init.gpr[rb].wrapping_sub(init.gpr[ra]);
                    assert_eq!(c, want, "subf r{},r{},r{}", rt, ra, rb);
                }
            }
        }
    }

    #[test]
    fn addi_and_lwz_stw_all_register_fields() {
        let mut init = PpcCpu::new();
        for i in 0..32 {
            init.gpr[i] = 0x1000 + 0x100 * i as u32;
        }
        // map [0, 0x4000) with byte value = low address byte ^ (addr >> 8)
        for a in 0..0x4000u32 {
            init.mem.insert(a, (a as u8) ^ ((a >> 8) as u8));
        }
        for rt in 0..32usize {
            for ra in 0..32usize {
                let f = (rt as u32) << 21 | (ra as u32) << 16;
                let base = if ra == 0 { 0 } else { init.gpr[ra] };
                // addi rt,ra,0x24
                let mut c = init.clone();
                run(&mut c, 0x3800_0024 | f);
                let mut want = init.clone();
                want.gpr[rt] = base + 0x24;
                assert_eq!(c, want, "addi r{},r{}", rt, ra);
                // lwz rt,0x24(ra)
                let ea = base + 0x24;
                let b = |a: u32| ((a as u8) ^ ((a >> 8) as u8)) as u32;
                let word = b(ea) << 24 | b(ea + 1) << 16 | b(ea + 2) << 8 | b(ea + 3);
                let mut c = init.clone();
                run(&mut c, 0x8000_0024 | f);
                let mut want = init.clone();
                want.gpr[rt] = word;
                assert_eq!(c, want, "lwz r{},0x24(r{})", rt, ra);
                // stw rt,0x24(ra)
                let mut c = init.clone();
                run(&mut c, 0x9000_0024 | f);
                let mut want = init.clone();
                let v = init.gpr[rt];
                want.map_bytes(ea, &[(v >> 24) as u8, (v >> 16) as u8, (v >> 8) as u8, v as u8]);
                assert_eq!(c, want, "stw r{},0x24(r{})", rt, ra);
                // stwu rt,0x24(ra): ra != 0
                let mut c = init.clone();
                let out = step(&mut c, PC, 0x9400_0024 | f);
                if ra == 0 {
                    assert!(matches!(out, PpcOutcome::Invalid(_)));
                    assert_eq!(c, init);
                } else {
                    want.gpr[ra] = ea;
                    assert_eq!(out, next(PC + 4));
                    assert_eq!(c, want, "stwu r{},0x24(r{})", rt, ra);
                }
            }
        }
    }

    #[test]
    fn cmpi_all_crf_and_registers() {
        for crfd in 0..8u32 {
            for ra in 0..32usize {
                let mut c = PpcCpu::new();
                c.cr = 0x5A5A_5A5A;
                c.gpr[ra] = 0xFFFF_FFFE; // -2 signed, huge unsigned
                let f = crfd << 23 | (ra as u32) << 16;
                run(&mut c, 0x2C00_FFFF | f); // cmpwi crfd,ra,-1 : LT
                let sh = 28 - 4 * crfd;
                let keep = 0x5A5A_5A5A & !(0xF << sh);
                assert_eq!(c.cr, keep | (0x8 << sh));
                run(&mut c, 0x2800_FFFF | f); // cmplwi crfd,ra,0xFFFF : GT
                assert_eq!(c.cr, keep | (0x4 << sh));
            }
        }
    }

    // ---- whole-program and global invariants ------------------------------------------------------------

    #[test]
    fn small_program_sum_loop() {
        // sum = 5 + 4 + 3 + 2 + 1 using CTR as both counter and addend
        let prog: [u32; 8] = [
            0x3860_0000, // 0x100: li r3,0
            0x3880_0005, // 0x104: li r4,5
            0x7C89_03A6, // 0x108: mtctr r4
            0x7CA9_02A6, // 0x10C: mfctr r5
            0x7C63_2A14, // 0x110: add r3,r3,r5
            0x4200_FFF8, // 0x114: bdnz 0x10C
            0x2C03_000F, // 0x118: cmpwi r3,15
            0x4E80_0020, // 0x11C: blr
        ];
        let mut c = PpcCpu::new();
        c.lr = 0xDEAD_0000;
        for (i, w) in prog.iter().enumerate() {
            c.map_bytes(0x100 + 4 * i as u32, &w.to_be_bytes());
        }
        let mut pc = 0x100u32;
        let mut steps = 0;
        while pc != 0xDEAD_0000 {
            let w = c.load_be(pc, 4).expect("fetch");
            match step(&mut c, pc, w) {
                PpcOutcome::Next { pc: n } => pc = n,
                other => panic!("unexpected {:?} at {:#x}", other, pc),
            }
            steps += 1;
            assert!(steps < 100);
        }
        assert_eq!(c.gpr[3], 15);
        assert_eq!(c.ctr, 0);
        assert_eq!(c.cr, 0x2000_0000);
        assert_eq!(steps, 3 + 5 * 3 + 2);
    }

    #[test]
    fn mnemonic_none_iff_unmodelled_and_failures_preserve_state() {
        // xorshift32 stream of random words on a CPU with a little mapped memory
        let mut init = seeded();
        init.lr = 0x1235;
        init.ctr = 3;
        init.cr = 0x2481_8421;
        for a in 0..0x200u32 {
            init.mem.insert(a, a as u8);
        }
        let mut x = 0x1234_5678u32;
        let mut seen_next = 0;
        for i in 0..150_000u32 {
            x ^= x << 13;
            x ^= x >> 17;
            x ^= x << 5;
            // bias half of the words toward opcodes 31 and 19 to exercise the extended decoders
            let w = match i & 3 {
                0 => (x & 0x03FF_FFFF) | (31 << 26),
                1 => (x & 0x03FF_FFFF) | (19 << 26),
                _ => x,
            };
            let mut c = init.clone();
            let out = step(&mut c, 0x4000, w);
            assert_eq!(mnemonic(w).is_none(), out == PpcOutcome::Unmodelled, "{:#010x}", w);
            match out {
                PpcOutcome::Next { .. } => seen_next += 1,
                _ => assert_eq!(c, init, "state changed on {:?} for {:#010x}", out, w),
            }
        }
        assert!(seen_next > 10_000);
    }
}
