//! Worker framework: deterministic PRNG, per-case context, violation and coverage plumbing.
//!
//! Every case is a pure function of (seed, case index): `Rng::for_case(seed, prop, case)`.
//! Shards take the cases whose index is congruent to the shard number, so any
//! case can be regenerated on its own by `fvh replay`.

use num_bigint::BigUint;
use serde_json::{json, Value};
use std::cell::RefCell;
use std::collections::{BTreeMap, BTreeSet};
use std::panic::{catch_unwind, AssertUnwindSafe};

#[derive(Clone, Copy, Debug, PartialEq, Eq)]
pub enum Tier {
    Quick,
    Thorough,
}

// ---------------------------------------------------------------- PRNG

#[derive(Clone, Debug)]
pub struct Rng {
    s: [u64; 4],
}

fn splitmix(x: &mut u64) -> u64 {
    *x = x.wrapping_add(0x9E37_79B9_7F4A_7C15);
    let mut z = *x;
    z = (z ^ (z >> 30)).wrapping_mul(0xBF58_476D_1CE4_E5B9);
    z = (z ^ (z >> 27)).wrapping_mul(0x94D0_49BB_1331_11EB);
    z ^ (z >> 31)
}

impl Rng {
    pub fn new(seed: u64) -> Rng {
        let mut x = seed;
        let s = [
            splitmix(&mut x),
            splitmix(&mut x),
            splitmix(&mut x),
            splitmix(&mut x),
        ];
        Rng { s }
    }
    pub fn for_case(seed: u64, prop: &str, case: u64) -> Rng {
        let mut h: u64 = 0xcbf2_9ce4_8422_2325;
        for b in prop.bytes() {
            h = (h ^ b as u64).wrapping_mul(0x100_0000_01b3);
        }
        let mut x = seed ^ h.rotate_left(17) ^ case.wrapping_mul(0xD6E8_FEB8_6659_FD93);
        let a = splitmix(&mut x);
        Rng::new(a ^ case)
    }
    pub fn u64(&mut self) -> u64 {
        let r = (self.s[1].wrapping_mul(5)).rotate_left(7).wrapping_mul(9);
        let t = self.s[1] << 17;
        self.s[2] ^= self.s[0];
        self.s[3] ^= self.s[1];
        self.s[1] ^= self.s[2];
        self.s[0] ^= self.s[3];
        self.s[2] ^= t;
        self.s[3] = self.s[3].rotate_left(45);
        r
    }
    pub fn u32(&mut self) -> u32 {
        (self.u64() >> 32) as u32
    }
    /// uniform in 0..n (n > 0)
    pub fn below(&mut self, n: u64) -> u64 {
        debug_assert!(n > 0);
        ((self.u64() as u128 * n as u128) >> 64) as u64
    }
    pub fn range(&mut self, lo: u64, hi_incl: u64) -> u64 {
        lo + self.below(hi_incl - lo + 1)
    }
    pub fn usize(&mut self, n: usize) -> usize {
        self.below(n as u64) as usize
    }
    pub fn bool(&mut self) -> bool {
        self.u64() & 1 == 1
    }
    /// true with probability num/den
    pub fn chance(&mut self, num: u64, den: u64) -> bool {
        self.below(den) < num
    }
    pub fn pick<'a, T>(&mut self, xs: &'a [T]) -> &'a T {
        &xs[self.usize(xs.len())]
    }
    pub fn bytes(&mut self, n: usize) -> Vec<u8> {
        let mut v = Vec::with_capacity(n);
        while v.len() < n {
            let x = self.u64().to_le_bytes();
            for b in x {
                if v.len() < n {
                    v.push(b);
                }
            }
        }
        v
    }
    /// corner-biased value of `bits` bits (bits <= 64)
    pub fn corner64(&mut self, bits: usize) -> u64 {
        debug_assert!(bits >= 1 && bits <= 64);
        let mask = if bits == 64 { u64::MAX } else { (1u64 << bits) - 1 };
        let sign = 1u64 << (bits - 1);
        let v = match self.below(16) {
            0 => 0,
            1 => 1,
            2 => mask,
            3 => sign,
            4 => sign.wrapping_sub(1),
            5 => sign.wrapping_add(1),
            6 => self.below(4),
            7 => bits as u64,
            8 => (bits as u64).wrapping_sub(1),
            9 => (bits as u64).wrapping_add(1),
            10 => mask.wrapping_sub(self.below(4)),
            11 => 1u64 << self.below(bits as u64),
            12 => self.u64() & 0xff,
            _ => self.u64(),
        };
        v & mask
    }
    /// corner-biased value of any width as BigUint
    pub fn corner_big(&mut self, bits: usize) -> BigUint {
        if bits <= 64 {
            return BigUint::from(self.corner64(bits));
        }
        let one = BigUint::from(1u32);
        let mask = (&one << bits) - &one;
        let sign = &one << (bits - 1);
        let v = match self.below(18) {
            // boundaries of the 64-bit quad-words inside a wider value (where u64 short cuts go wrong)
            14 => BigUint::from(u64::MAX),
            15 => &one << 64usize.min(bits - 1),
            16 => (BigUint::from(u64::MAX) << 64usize) | BigUint::from(self.below(2)),
            17 => BigUint::from(u32::MAX) << (32 * self.below(3)),
            0 => BigUint::from(0u32),
            1 => one.clone(),
            2 => mask.clone(),
            3 => sign.clone(),
            4 => &sign - &one,
            5 => &sign + &one,
            6 => BigUint::from(self.below(4)),
            7 => BigUint::from(bits as u64),
            8 => BigUint::from(bits as u64 - 1),
            9 => BigUint::from(bits as u64 + 1),
            10 => &mask - BigUint::from(self.below(4)),
            11 => &one << self.usize(bits),
            _ => {
                let nbytes = (bits + 7) / 8;
                BigUint::from_bytes_le(&self.bytes(nbytes))
            }
        };
        v & mask
    }
}

// ---------------------------------------------------------------- panic capture

thread_local! {
    static LAST_PANIC: RefCell<Option<(String, u32, String)>> = RefCell::new(None);
}

pub fn install_panic_hook() {
    std::panic::set_hook(Box::new(|info| {
        let (file, line) = info
            .location()
            .map(|l| (l.file().to_string(), l.line()))
            .unwrap_or_else(|| ("?".to_string(), 0));
        let msg = if let Some(s) = info.payload().downcast_ref::<&str>() {
            s.to_string()
        } else if let Some(s) = info.payload().downcast_ref::<String>() {
            s.clone()
        } else {
            "<non-string panic>".to_string()
        };
        LAST_PANIC.with(|p| *p.borrow_mut() = Some((file, line, msg)));
    }));
}

#[derive(Clone, Debug)]
pub struct PanicInfo {
    pub file: String,
    pub line: u32,
    pub msg: String,
}

impl PanicInfo {
    /// true when the panic was raised by code that is not the harness itself
    /// (falcon under /repo, or a library falcon called into)
    pub fn in_target(&self) -> bool {
        !self.file.contains("harness/src") && !self.file.starts_with("src/")
    }
    /// short, stable location: path relative to the repo + line
    pub fn site(&self) -> String {
        let f = match self.file.find("/repo/") {
            Some(i) => &self.file[i + 6..],
            None => match self.file.rfind("/src/") {
                Some(i) => &self.file[i + 1..],
                None => &self.file,
            },
        };
        format!("{}:{}", f, self.line)
    }
    /// location without the line number (stable across small edits)
    pub fn file_site(&self) -> String {
        let s = self.site();
        s.rsplit_once(':').map(|x| x.0.to_string()).unwrap_or(s)
    }
}

/// Run `f`, converting a panic into Err(PanicInfo).
pub fn guard<T>(f: impl FnOnce() -> T) -> Result<T, PanicInfo> {
    LAST_PANIC.with(|p| *p.borrow_mut() = None);
    match catch_unwind(AssertUnwindSafe(f)) {
        Ok(v) => Ok(v),
        Err(_) => {
            let (file, line, msg) = LAST_PANIC
                .with(|p| p.borrow_mut().take())
                .unwrap_or_else(|| ("?".into(), 0, "?".into()));
            Err(PanicInfo { file, line, msg })
        }
    }
}

// ---------------------------------------------------------------- context

pub struct Viol {
    pub count: u64,
    pub first_case: u64,
    pub detail: Value,
}

pub struct Ctx {
    pub tier: Tier,
    pub prop: String,
    pub seed: u64,
    pub case: u64,
    pub verbose: bool,
    pub evaluations: u64,
    pub classes: BTreeSet<String>,
    pub counters: BTreeMap<String, u64>,
    pub samples: Vec<Value>,
    pub max_samples: usize,
    pub violations: BTreeMap<String, Viol>,
    pub harness_errors: Vec<String>,
    trace_path: Option<String>,
}

impl Ctx {
    pub fn new(prop: &str, tier: Tier, seed: u64, trace_path: Option<String>) -> Ctx {
        Ctx {
            tier,
            prop: prop.to_string(),
            seed,
            case: 0,
            verbose: false,
            evaluations: 0,
            classes: BTreeSet::new(),
            counters: BTreeMap::new(),
            samples: Vec::new(),
            max_samples: 3,
            violations: BTreeMap::new(),
            harness_errors: Vec::new(),
            trace_path,
        }
    }
    pub fn thorough(&self) -> bool {
        self.tier == Tier::Thorough
    }
    /// one oracle comparison / execution performed
    pub fn eval(&mut self) {
        self.evaluations += 1;
    }
    pub fn evals(&mut self, n: u64) {
        self.evaluations += n;
    }
    /// record a non-trivial case of class `c`
    pub fn class(&mut self, c: &str) {
        if !self.classes.contains(c) {
            self.classes.insert(c.to_string());
        }
    }
    pub fn count(&mut self, k: &str) {
        *self.counters.entry(k.to_string()).or_insert(0) += 1;
    }
    pub fn count_n(&mut self, k: &str, n: u64) {
        *self.counters.entry(k.to_string()).or_insert(0) += n;
    }
    pub fn want_sample(&self) -> bool {
        self.samples.len() < self.max_samples
    }
    pub fn sample(&mut self, v: Value) {
        if self.samples.len() < self.max_samples {
            self.samples.push(v);
        }
    }
    /// In trace mode, remember what is about to run so a hard abort can be attributed.
    pub fn trace(&self, f: impl FnOnce() -> String) {
        if let Some(p) = &self.trace_path {
            let _ = std::fs::write(p, format!("case={} {}", self.case, f()));
        }
    }
    pub fn tracing(&self) -> bool {
        self.trace_path.is_some()
    }
    pub fn violation(&mut self, sig: &str, detail: Value) {
        if self.verbose {
            eprintln!("VIOLATION-DETAIL sig={} detail={}", sig, detail);
        }
        let case = self.case;
        let e = self.violations.entry(sig.to_string()).or_insert(Viol {
            count: 0,
            first_case: case,
            detail,
        });
        e.count += 1;
    }
    pub fn n_violations(&self) -> u64 {
        self.violations.values().map(|v| v.count).sum()
    }
    /// falcon panicked where the property promises an answer
    pub fn panic_violation(&mut self, what: &str, p: &PanicInfo, detail: Value) {
        let sig = format!("panic:{}:{}", what, p.file_site());
        self.violation(
            &sig,
            json!({"panic_at": p.site(), "message": p.msg.chars().take(300).collect::<String>(), "input": detail}),
        );
    }
    pub fn summary(&self) -> Value {
        let viols: Vec<Value> = self
            .violations
            .iter()
            .map(|(sig, v)| json!({"sig": sig, "count": v.count, "case": v.first_case, "detail": v.detail}))
            .collect();
        json!({
            "t": "summary",
            "evaluations": self.evaluations,
            "classes": self.classes.iter().collect::<Vec<_>>(),
            "counters": self.counters,
            "samples": self.samples,
            "violations": viols,
            "harness_errors": self.harness_errors,
        })
    }
}

pub trait Check {
    /// number of leading case indices that are directed (deterministic regression) cases
    fn directed(&self) -> u64 {
        0
    }
    /// true when the directed cases enumerate the whole (finite) space: no random cases follow
    fn finite(&self) -> bool {
        false
    }
    fn run(&mut self, ctx: &mut Ctx, rng: &mut Rng, case: u64);
    /// called once at the end of a worker (for checks that aggregate)
    fn finish(&mut self, _ctx: &mut Ctx) {}
}

pub fn hex(bytes: &[u8]) -> String {
    bytes.iter().map(|b| format!("{:02x}", b)).collect()
}
