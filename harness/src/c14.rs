//! C14 — Dead-code elimination preserves observable behaviour.
//!
//! Structure: same blocks, edges, instruction positions; every operation identical
//! or Nop. Behaviour: input and output run in lock-step in the reference
//! interpreter (intrinsics are observable events with deterministic havoc).

use crate::c12::{gen_function, init_machine};
use crate::fw::*;
use crate::ilgen;
use crate::locgraph::loc_str;
use crate::refinterp::{Event, StepOut};
use falcon::analysis::dead_code_elimination;
use falcon::il::{Function, FunctionLocation as Loc, Operation};
use serde_json::json;
use std::collections::BTreeMap;

pub struct C14 {}
impl C14 {
    pub fn new(_t: Tier) -> C14 {
        C14 {}
    }
}

fn structure_diff(a: &Function, b: &Function) -> Option<String> {
    let ab: Vec<usize> = a.blocks().iter().map(|x| x.index()).collect();
    let bb: Vec<usize> = b.blocks().iter().map(|x| x.index()).collect();
    if ab != bb {
        return Some(format!("blocks differ: {:?} vs {:?}", ab, bb));
    }
    let ae: Vec<String> = a.edges().iter().map(|e| format!("{}", e)).collect();
    let be: Vec<String> = b.edges().iter().map(|e| format!("{}", e)).collect();
    if ae != be {
        return Some("edges differ".to_string());
    }
    if a.control_flow_graph().entry() != b.control_flow_graph().entry() || a.control_flow_graph().exit() != b.control_flow_graph().exit() {
        return Some("entry/exit differ".to_string());
    }
    for (x, y) in a.blocks().iter().zip(b.blocks().iter()) {
        if x.instructions().len() != y.instructions().len() {
            return Some(format!("block {} instruction count differs", x.index()));
        }
        for (i, j) in x.instructions().iter().zip(y.instructions().iter()) {
            if i.index() != j.index() || i.address() != j.address() {
                return Some(format!("block {} instruction index/address differs", x.index()));
            }
            if i.operation() != j.operation() && !j.operation().is_nop() {
                return Some(format!("block {} instruction {} replaced by something other than nop: {} -> {}", x.index(), i.index(), i.operation(), j.operation()));
            }
        }
    }
    None
}

impl C14 {
    fn check(&self, ctx: &mut Ctx, rng: &mut Rng, g: &ilgen::Gen, tag: &str) {
        let f = &g.f;
        let fj = || ilgen::describe(f);
        ctx.trace(|| format!("function {}", fj()));
        let r = guard(|| dead_code_elimination(f));
        ctx.eval();
        let d = match r {
            Err(p) => {
                ctx.panic_violation(&format!("dce:{}", tag), &p, fj());
                return;
            }
            Ok(Err(e)) => {
                ctx.violation(&format!("dce:error:{}", tag), json!({"function": fj(), "error": format!("{:?}", e)}));
                return;
            }
            Ok(Ok(d)) => d,
        };
        if let Some(why) = structure_diff(f, &d) {
            ctx.violation(&format!("structure:{}", tag), json!({"function": fj(), "after": ilgen::describe(&d), "why": why}));
            return;
        }
        let mut removed = 0;
        let mut removed_kinds: Vec<&str> = Vec::new();
        for (x, y) in f.blocks().iter().zip(d.blocks().iter()) {
            for (i, j) in x.instructions().iter().zip(y.instructions().iter()) {
                if i.operation() != j.operation() {
                    removed += 1;
                    removed_kinds.push(match i.operation() {
                        Operation::Assign { .. } => "assign",
                        Operation::Load { .. } => "load",
                        Operation::Intrinsic { .. } => "intrinsic",
                        Operation::Store { .. } => "store",
                        Operation::Branch { .. } => "branch",
                        Operation::Nop { .. } => "nop",
                    });
                }
            }
        }
        for k in &removed_kinds {
            ctx.count(&format!("removed.{}", k));
        }
        // ---- behaviour
        for _run in 0..6 {
            let seed_state = rng.clone();
            let mut ma = match init_machine(rng, g, false) {
                Some(m) => m,
                None => return,
            };
            // identical initial state for the transformed function
            let mut r2 = seed_state;
            let gd = ilgen::Gen { f: d.clone(), pool: g.pool.clone(), addr_base: g.addr_base };
            let mut mb = init_machine(&mut r2, &gd, false).unwrap();
            // does the input run without fault? (pre-run on a copy)
            let mut probe = ma.clone();
            let mut faulted = false;
            for _ in 0..400 {
                match probe.step(f) {
                    StepOut::Moved => {}
                    StepOut::Fault(_) => {
                        faulted = true;
                        break;
                    }
                    _ => break,
                }
            }
            if faulted {
                ctx.count("input_faults(skipped)");
                continue;
            }
            let names: Vec<String> = g.pool.iter().map(|s| s.name().to_string()).collect();
            let snapshot = |m: &crate::refinterp::Machine| -> BTreeMap<String, String> { names.iter().map(|n| (n.clone(), m.get(n).map(|v| v.hex()).unwrap_or_default())).collect() };
            let mut trail: Vec<String> = Vec::new();
            for stepno in 0..400 {
                let la = ma.loc.clone();
                let lb = mb.loc.clone();
                ctx.eval();
                trail.push(loc_str(&la));
                if trail.len() > 10 {
                    trail.remove(0);
                }
                let detail = |what: String| json!({"function": fj(), "after": ilgen::describe(&d), "step": stepno, "trail": trail, "what": what});
                if la != lb {
                    ctx.violation(&format!("behaviour:path_differs:{}", tag), detail(format!("input at {}, output at {}", loc_str(&la), loc_str(&lb))));
                    return;
                }
                // the scalar state presented to indirect branches and intrinsics
                if let Loc::Instruction(b, i) = &la {
                    let op = f.block(*b).unwrap().instruction(*i).unwrap().operation();
                    if op.is_branch() || op.is_intrinsic() {
                        let (sa, sb) = (snapshot(&ma), snapshot(&mb));
                        if sa != sb {
                            let diff: Vec<String> = sa.iter().filter(|(k, v)| sb.get(*k) != Some(*v)).map(|(k, v)| format!("{}: {} vs {}", k, v, sb[k])).collect();
                            ctx.violation(
                                &format!("behaviour:state_at_{}_differs:{}", if op.is_branch() {"indirect_branch"} else {"intrinsic"}, tag),
                                detail(format!("{:?}", diff)),
                            );
                            return;
                        }
                    }
                }
                let ea = ma.events.len();
                let eb = mb.events.len();
                let oa = ma.step(f);
                let ob = mb.step(&d);
                // same stores / intrinsic events in the same order
                let na: Vec<&Event> = ma.events[ea..].iter().collect();
                let nb: Vec<&Event> = mb.events[eb..].iter().collect();
                if na != nb {
                    let kind = if na.iter().chain(nb.iter()).any(|e| matches!(e, Event::Intrinsic { .. })) { "intrinsic_event" } else if na.iter().chain(nb.iter()).any(|e| matches!(e, Event::Store { .. })) { "store" } else { "branch" };
                    ctx.violation(&format!("behaviour:{}_differs:{}", kind, tag), detail(format!("input {:?} output {:?}", na, nb)));
                    return;
                }
                match (&oa, &ob) {
                    (StepOut::Moved, StepOut::Moved) => {}
                    (StepOut::Terminal, StepOut::Terminal) => {
                        let (sa, sb) = (snapshot(&ma), snapshot(&mb));
                        if sa != sb {
                            let diff: Vec<String> = sa.iter().filter(|(k, v)| sb.get(*k) != Some(*v)).map(|(k, v)| format!("{}: {} vs {}", k, v, sb[k])).collect();
                            ctx.violation(&format!("behaviour:final_state_differs:{}", tag), detail(format!("{:?}", diff)));
                            return;
                        }
                        break;
                    }
                    (StepOut::Branched(x), StepOut::Branched(y)) if x == y => break,
                    (a, b) => {
                        ctx.violation(&format!("behaviour:outcome_differs:{}", tag), detail(format!("input {:?} output {:?}", a, b)));
                        return;
                    }
                }
            }
        }
        ctx.class(&format!("b{}/removed{}{}", f.blocks().len().min(8), removed.min(6), if removed_kinds.contains(&"load") {"/load"} else {""}));
        if removed > 0 && ctx.want_sample() {
            ctx.sample(json!({"before": fj(), "after": ilgen::describe(&d)}));
        }
    }
}

impl Check for C14 {
    fn directed(&self) -> u64 {
        2
    }
    fn run(&mut self, ctx: &mut Ctx, rng: &mut Rng, case: u64) {
        use falcon::il;
        if case == 0 {
            // a=1; b=2; c=a+b; a=a+1 : nothing is dead except possibly nothing
            let mut cfg = il::ControlFlowGraph::new();
            {
                let b = cfg.new_block().unwrap();
                b.assign(il::scalar("s0", 32), il::expr_const(1, 32));
                b.assign(il::scalar("s1", 32), il::expr_const(2, 32));
                b.assign(il::scalar("s2", 32), il::Expression::add(il::expr_scalar("s0", 32), il::expr_scalar("s1", 32)).unwrap());
                b.assign(il::scalar("s0", 32), il::Expression::add(il::expr_scalar("s0", 32), il::expr_const(1, 32)).unwrap());
            }
            cfg.set_entry(0).unwrap();
            cfg.set_exit(0).unwrap();
            let g = ilgen::Gen { f: Function::new(0x1000, cfg), pool: vec![il::scalar("s0", 32), il::scalar("s1", 32), il::scalar("s2", 32)], addr_base: 0x1000 };
            self.check(ctx, rng, &g, "directed");
            return;
        }
        if case == 1 {
            // an intrinsic without declared effects must stay
            let mut cfg = il::ControlFlowGraph::new();
            {
                let b = cfg.new_block().unwrap();
                b.assign(il::scalar("s0", 32), il::expr_const(1, 32));
                b.intrinsic(il::Intrinsic::new("intr", "intr op", vec![], None, None, vec![0x0f, 0x0b, 0, 0]));
                b.assign(il::scalar("s1", 32), il::expr_scalar("s0", 32));
            }
            cfg.set_entry(0).unwrap();
            cfg.set_exit(0).unwrap();
            let g = ilgen::Gen { f: Function::new(0x1000, cfg), pool: vec![il::scalar("s0", 32), il::scalar("s1", 32)], addr_base: 0x1000 };
            self.check(ctx, rng, &g, "directed");
            return;
        }
        let intr = rng.bool();
        let all_reachable = !rng.chance(1, 8);
        let g = gen_function(rng, intr, all_reachable);
        self.check(ctx, rng, &g, if all_reachable { "rnd" } else { "with_unreachable_blocks" });
    }
}
