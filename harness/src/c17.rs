//! C17 — Stack-pointer offsets hold on every execution, for every architecture.
//!
//! Monitor: executions in the reference interpreter; after every executed
//! location with a reported Value(k): sp_now == sp_entry + k (mod 2^w).

use crate::c12::init_machine;
use crate::fw::*;
use crate::ilgen::{self, GenOpts};
use crate::locgraph::loc_str;
use crate::refinterp::StepOut;
use falcon::analysis::stack_pointer_offsets::{stack_pointer_offsets, StackPointerOffset};
use falcon::architecture::*;
use falcon::il::{FunctionLocation as Loc, ProgramLocation};
use num_bigint::BigUint;
use serde_json::json;
use std::collections::BTreeMap;

pub struct C17 {}
impl C17 {
    pub fn new(_t: Tier) -> C17 {
        C17 {}
    }
}

pub fn all_architectures() -> Vec<Box<dyn Architecture>> {
    vec![
        Box::new(X86::new()),
        Box::new(Amd64::new()),
        Box::new(Mips::new()),
        Box::new(Mipsel::new()),
        Box::new(Ppc::new()),
        Box::new(AArch64::new()),
        Box::new(AArch64Eb::new()),
    ]
}

impl C17 {
    fn check(&self, ctx: &mut Ctx, rng: &mut Rng, arch: &dyn Architecture, g: &ilgen::Gen, tag: &str) {
        let f = &g.f;
        let sp = arch.stack_pointer();
        let w = sp.bits();
        let fj = || json!({"architecture": arch.name(), "stack_pointer": format!("{}", sp), "function": ilgen::describe(f)});
        ctx.trace(|| format!("function {}", fj()));
        let r = guard(|| stack_pointer_offsets(f, arch));
        ctx.eval();
        let spo: BTreeMap<Loc, StackPointerOffset> = match r {
            Err(p) => {
                ctx.panic_violation(&format!("spo:{}", arch.name()), &p, fj());
                return;
            }
            Ok(Err(e)) => {
                ctx.violation(&format!("spo:error:{}:w{}:{}", format!("{:?}", e).split('(').next().unwrap(), w, tag), json!({"input": fj(), "error": format!("{:?}", e)}));
                return;
            }
            Ok(Ok(m)) => m.into_iter().map(|(k, v): (ProgramLocation, StackPointerOffset)| (k.function_location().clone(), v)).collect(),
        };
        let modulus = BigUint::from(1u8) << w;
        let mut values_checked = 0u64;
        let mut tops = 0u64;
        for _run in 0..6 {
            let mut m = match init_machine(rng, g, false) {
                Some(m) => m,
                None => return,
            };
            let sp0 = m.get(sp.name()).unwrap().v.clone();
            let mut trail: Vec<String> = Vec::new();
            for _ in 0..150 {
                let l = m.loc.clone();
                trail.push(loc_str(&l));
                if trail.len() > 12 {
                    trail.remove(0);
                }
                let out = m.step(f);
                if let StepOut::Fault(_) = out {
                    break;
                }
                match spo.get(&l) {
                    None => {
                        ctx.violation(&format!("spo:no_entry_for_executed_location:{}", tag), json!({"input": fj(), "at": loc_str(&l)}));
                        return;
                    }
                    Some(StackPointerOffset::Value(k)) => {
                        ctx.eval();
                        values_checked += 1;
                        // k reduced to the stack pointer's width
                        let kk = BigUint::from(*k as i64 as u64) % &modulus;
                        let want = (&sp0 + kk) % &modulus;
                        let now = m.get(sp.name()).unwrap().v.clone();
                        if now != want {
                            // what kind of instruction last changed sp?
                            ctx.violation(
                                &format!("offset:contradicted:w{}:{}", w, tag),
                                json!({"input": fj(), "at": loc_str(&l), "reported_offset": k, "sp_at_entry": format!("0x{:x}", sp0), "sp_now": format!("0x{:x}", now), "trail": trail}),
                            );
                            return;
                        }
                    }
                    Some(_) => tops += 1,
                }
                match out {
                    StepOut::Moved => {}
                    _ => break,
                }
            }
        }
        ctx.count_n("numeric_offsets_checked", values_checked);
        ctx.count_n("unknown_offsets_met", tops);
        ctx.class(&format!("{}/b{}/{}{}", arch.name(), f.blocks().len().min(8), if values_checked > 0 {"numeric"} else {"none"}, if tops > 0 {"+unknown"} else {""}));
        if values_checked > 0 && ctx.want_sample() {
            ctx.sample(fj());
        }
    }
}

impl Check for C17 {
    fn directed(&self) -> u64 {
        7
    }
    fn run(&mut self, ctx: &mut Ctx, rng: &mut Rng, case: u64) {
        let archs = all_architectures();
        let arch: &dyn Architecture = if case < 7 { archs[case as usize].as_ref() } else { archs[rng.usize(7)].as_ref() };
        let sp = arch.stack_pointer();
        let w = sp.bits();
        let o = GenOpts {
            max_blocks: 7,
            max_instrs: 4,
            widths: vec![1, 8, w, w, 16, 64],
            all_reachable: true,
            entry_no_preds: true,
            intrinsics: false,
            indirect_branches: rng.chance(1, 5),
            memory: true,
            expr_depth: 1,
            sp: Some(sp),
            ..GenOpts::default()
        };
        let g = ilgen::generate(rng, &o);
        self.check(ctx, rng, arch, &g, "ilgen");
    }
}
