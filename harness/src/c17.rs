//! C17 — Stack-pointer offsets hold on every execution, for every architecture.
//!
//! Monitor: executions in the reference interpreter; after every executed
//! location with a reported Value(k): sp_now == sp_entry + k (mod 2^w).

use crate::c12::init_machine;
use crate::fw::*;
use crate::ilgen::{self, GenOpts};
use crate::locgraph::loc_str;
use crate::refinterp::StepOut;
use falcon::analysis::stack_pointer_offsets::{stack_pointer_offsets, StackPointerOffset};
use falcon::architecture::*;
use falcon::il::{FunctionLocation as Loc, ProgramLocation};
use num_bigint::BigUint;
use serde_json::json;
use std::collections::BTreeMap;

pub struct C17 {}
impl C17 {
    pub fn new(_t: Tier) -> C17 {
        C17 {}
    }
}

pub fn all_architectures() -> Vec<Box<dyn Architecture>> {
    vec![
        Box::new(X86::new()),
        Box::new(Amd64::new()),
        Box::new(Mips::new()),
        Box::new(Mipsel::new()),
        Box::new(Ppc::new()),
        Box::new(AArch64::new()),
        Box::new(AArch64Eb::new()),
    ]
}

impl C17 {
    fn check(&self, ctx: &mut Ctx, rng: &mut Rng, arch: &dyn Architecture, g: &ilgen::Gen, tag: &str) {
        let f = &g.f;
        let sp = arch.stack_pointer();
        let w = sp.bits();
        let fj = || json!({"architecture": arch.name(), "stack_pointer": format!("{}", sp), "function": ilgen::describe(f)});
        ctx.trace(|| format!("function {}", fj()));
        let r = guard(|| stack_pointer_offsets(f, arch));
        ctx.eval();
        let spo: BTreeMap<Loc, StackPointerOffset> = match r {
            Err(p) => {
                ctx.panic_violation(&format!("spo:{}", arch.name()), &p, fj());
                return;
            }
            Ok(Err(e)) => {
                ctx.violation(&format!("spo:error:{}:w{}:{}", format!("{:?}", e).split('(').next().unwrap(), w, tag), json!({"input": fj(), "error": format!("{:?}", e)}));
                return;
            }
            Ok(Ok(m)) => m.into_iter().map(|(k, v): (ProgramLocation, StackPointerOffset)| (k.function_location().clone(), v)).collect(),
        };
        let modulus = BigUint::from(1u8) << w;
        let mut values_checked = 0u64;
        let mut tops = 0u64;
        for _run in 0..6 {
            let mut m = match init_machine(rng, g, false) {
                Some(m) => m,
                None => return,
            };
            let sp0 = m.get(sp.name()).unwrap().v.clone();
            let mut trail: Vec<String> = Vec::new();
            for _ in 0..150 {
                let l = m.loc.clone();
                trail.push(loc_str(&l));
                if trail.len() > 12 {
                    trail.remove(0);
                }
                let out = m.step(f);
                if let StepOut::Fault(_) = out {
                    break;
                }
                match spo.get(&l) {
                    None => {
                        ctx.violation(&format!("spo:no_entry_for_executed_location:{}", tag), json!({"input": fj(), "at": loc_str(&l)}));
                        return;
                    }
                    Some(StackPointerOffset::Value(k)) => {
                        ctx.eval();
                        values_checked += 1;
                        // k reduced to the stack pointer's width
                        let kk = BigUint::from(*k as i64 as u64) % &modulus;
                        let want = (&sp0 + kk) % &modulus;
                        let now = m.get(sp.name()).unwrap().v.clone();
                        if now != want {
                            // what kind of instruction last changed sp?
                            ctx.violation(
                                &format!("offset:contradicted:w{}:{}", w, tag),
                                json!({"input": fj(), "at": loc_str(&l), "reported_offset": k, "sp_at_entry": format!("0x{:x}", sp0), "sp_now": format!("0x{:x}", now), "trail": trail}),
                            );
                            return;
                        }
                    }
                    Some(_) => tops += 1,
                }
                match out {
                    StepOut::Moved => {}
                    _ => break,
                }
            }
        }
        ctx.count_n("numeric_offsets_checked", values_checked);
        ctx.count_n("unknown_offsets_met", tops);
        ctx.class(&format!("{}/{}/b{}/{}{}", arch.name(), tag, f.blocks().len().min(8), if values_checked > 0 {"numeric"} else {"none"}, if tops > 0 {"+unknown"} else {""}));
        if values_checked > 0 && ctx.want_sample() {
            ctx.sample(fj());
        }
    }
}

/// A machine-code function made of the architecture's stack-adjusting idioms, lifted by the
/// architecture's own translator (so the stack pointer is the scalar the lifter really writes).
fn lifted_function(rng: &mut Rng, arch: &dyn Architecture) -> Option<ilgen::Gen> {
    use falcon::memory::backing::Memory;
    use falcon::memory::MemoryPermissions;
    let name = arch.name().to_string();
    let word = |w: u32| -> Vec<u8> {
        match name.as_str() {
            "mips" | "ppc" => w.to_be_bytes().to_vec(),
            _ => w.to_le_bytes().to_vec(),
        }
    };
    let mut bytes: Vec<u8> = Vec::new();
    let n = 1 + rng.usize(5);
    for _ in 0..n {
        let k = (rng.below(16) * 8) as u32;
        let down = rng.chance(2, 3);
        match name.as_str() {
            "x86" => match rng.below(3) {
                0 => bytes.extend_from_slice(&[0x8d, 0x64, 0x24, if down { (k as u8).wrapping_neg() } else { k as u8 } & 0x7f | if down { 0x80 } else { 0 }]),
                1 => bytes.extend_from_slice(&[0x83, if down { 0xec } else { 0xc4 }, (k & 0x7f) as u8]),
                _ => bytes.push(0x90),
            },
            "amd64" => match rng.below(3) {
                0 => bytes.extend_from_slice(&[0x48, 0x8d, 0x64, 0x24, if down { (k as u8).wrapping_neg() } else { k as u8 } & 0x7f | if down { 0x80 } else { 0 }]),
                1 => bytes.extend_from_slice(&[0x48, 0x83, if down { 0xec } else { 0xc4 }, (k & 0x7f) as u8]),
                _ => bytes.push(0x90),
            },
            "mips" | "mipsel" => {
                let imm = if down { (k as u16).wrapping_neg() } else { k as u16 };
                bytes.extend_from_slice(&word(0x27bd_0000 | imm as u32));
            }
            "ppc" => {
                let imm = if down { (k as u16).wrapping_neg() } else { k as u16 };
                bytes.extend_from_slice(&word(0x3821_0000 | imm as u32));
            }
            _ => bytes.extend_from_slice(&word(if down { 0xd100_03ff } else { 0x9100_03ff } | k << 10)),
        }
    }
    match name.as_str() {
        "x86" | "amd64" => bytes.push(0xc3),
        "mips" | "mipsel" => {
            bytes.extend_from_slice(&word(0x03e0_0008));
            bytes.extend_from_slice(&word(0));
        }
        "ppc" => bytes.extend_from_slice(&word(0x4e80_0020)),
        _ => bytes.extend_from_slice(&word(0xd65f_03c0)),
    }
    let mut memory = Memory::new(arch.endian());
    memory.set_memory(0x1000, bytes, MemoryPermissions::READ | MemoryPermissions::EXECUTE);
    let t = arch.translator();
    let f = guard(|| t.translate_function(&memory, 0x1000)).ok()?.ok()?;
    // every scalar of the lifted code gets an initial value; the descriptor's stack pointer first, so that a
    // scalar of the same name in the lifted code decides the width
    let mut pool = vec![arch.stack_pointer()];
    for b in f.blocks() {
        for i in b.instructions() {
            for sc in i.scalars().unwrap_or_default() {
                if !pool.iter().skip(1).any(|p| p.name() == sc.name()) {
                    pool.push(sc.clone());
                }
            }
        }
    }
    for e in f.edges() {
        if let Some(c) = e.condition() {
            for sc in c.scalars() {
                if !pool.iter().skip(1).any(|p| p.name() == sc.name()) {
                    pool.push(sc.clone());
                }
            }
        }
    }
    Some(ilgen::Gen { f, pool, addr_base: 0x1000 })
}

impl Check for C17 {
    fn directed(&self) -> u64 {
        7
    }
    fn run(&mut self, ctx: &mut Ctx, rng: &mut Rng, case: u64) {
        let archs = all_architectures();
        let arch: &dyn Architecture = if case < 7 { archs[case as usize].as_ref() } else { archs[rng.usize(7)].as_ref() };
        if case >= 7 && rng.chance(1, 8) {
            // stack idioms lifted from machine code by the architecture's own translator
            match lifted_function(rng, arch) {
                Some(g) => self.check(ctx, rng, arch, &g, "lifted"),
                None => ctx.count("lifted_function_not_available"),
            }
            return;
        }
        let sp = arch.stack_pointer();
        let w = sp.bits();
        let o = GenOpts {
            max_blocks: 7,
            max_instrs: 4,
            widths: vec![1, 8, w, w, 16, 64],
            all_reachable: true,
            entry_no_preds: true,
            intrinsics: false,
            indirect_branches: rng.chance(1, 5),
            memory: true,
            expr_depth: 1,
            sp: Some(sp),
            ..GenOpts::default()
        };
        let g = ilgen::generate(rng, &o);
        self.check(ctx, rng, arch, &g, "ilgen");
    }
}
