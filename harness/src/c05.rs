//! C05 — Lifting any bytes is total and yields well-formed, deterministic IL.
//!
//! Monitor: every translator x both unsupported-instruction policies is fed
//! hostile byte strings under catch_unwind; a well-formedness checker written in
//! the harness (it re-derives the width rules instead of reusing the constructors)
//! judges every result; guards of each block / the successor list must have
//! exactly one enabled member in every valuation tried.

use crate::fw::*;
use crate::refeval::{self as re, Bv};
use falcon::il::{ControlFlowGraph, Expression, Operation, Scalar};
use falcon::translator::{aarch64, mips, ppc, x86, BlockTranslationResult, Options, OptionsBuilder, Translator};
use serde_json::{json, Value};
use std::collections::{BTreeMap, BTreeSet};

pub struct C05 {
    sweep: bool,
}
impl C05 {
    pub fn new(t: Tier) -> C05 {
        C05 { sweep: t == Tier::Thorough }
    }
}

pub const TRANSLATORS: [&str; 7] = ["x86", "amd64", "mips", "mipsel", "ppc", "aarch64", "aarch64eb"];

pub fn translator(name: &str) -> Box<dyn Translator> {
    match name {
        "x86" => Box::new(x86::X86::new()),
        "amd64" => Box::new(x86::Amd64::new()),
        "mips" => Box::new(mips::Mips::new()),
        "mipsel" => Box::new(mips::Mipsel::new()),
        "ppc" => Box::new(ppc::Ppc::new()),
        "aarch64" => Box::new(aarch64::AArch64::new()),
        _ => Box::new(aarch64::AArch64Eb::new()),
    }
}

fn expr_ok(e: &Expression) -> bool {
    re::sort_of(e).is_some()
}

/// returns a list of (kind, description) problems
pub fn wellformed_graph(cfg: &ControlFlowGraph, problems: &mut Vec<(String, String)>) {
    let blocks: BTreeSet<usize> = cfg.blocks().iter().map(|b| b.index()).collect();
    match (cfg.entry(), cfg.exit()) {
        (Some(en), Some(ex)) => {
            if !blocks.contains(&en) || !blocks.contains(&ex) {
                problems.push(("graph-shape".into(), format!("entry {} / exit {} name a missing block", en, ex)));
            } else {
                // exit reachable from entry
                let mut seen = BTreeSet::new();
                let mut stack = vec![en];
                seen.insert(en);
                while let Some(x) = stack.pop() {
                    for e in cfg.edges() {
                        if e.head() == x && seen.insert(e.tail()) {
                            stack.push(e.tail());
                        }
                    }
                }
                if !seen.contains(&ex) {
                    problems.push(("graph-shape".into(), format!("exit {} not reachable from entry {}", ex, en)));
                }
            }
        }
        _ => problems.push(("graph-shape".into(), "instruction graph without entry or exit".into())),
    }
    for e in cfg.edges() {
        if !blocks.contains(&e.head()) || !blocks.contains(&e.tail()) {
            problems.push(("graph-shape".into(), format!("edge {}->{} joins a missing block", e.head(), e.tail())));
        }
        if let Some(c) = e.condition() {
            match re::sort_of(c) {
                Some(1) => {}
                Some(w) => problems.push(("guard-width".into(), format!("edge guard {} has width {}", c, w))),
                None => problems.push(("ill-sorted-expr".into(), format!("edge guard {}", c))),
            }
        }
    }
    for b in cfg.blocks() {
        for i in b.instructions() {
            match i.operation() {
                Operation::Assign { dst, src } => match re::sort_of(src) {
                    None => problems.push(("ill-sorted-expr".into(), format!("{}", i.operation()))),
                    Some(w) => {
                        if w != dst.bits() || w == 0 {
                            problems.push(("assign-width".into(), format!("{} (src width {})", i.operation(), w)));
                        }
                    }
                },
                Operation::Load { dst, index } => {
                    if dst.bits() == 0 || dst.bits() % 8 != 0 {
                        problems.push(("mem-width".into(), format!("{}", i.operation())));
                    }
                    match re::sort_of(index) {
                        None => problems.push(("ill-sorted-expr".into(), format!("{}", i.operation()))),
                        Some(w) if w > 64 => problems.push(("addr-width".into(), format!("{} (address width {})", i.operation(), w))),
                        _ => {}
                    }
                }
                Operation::Store { index, src } => {
                    match re::sort_of(src) {
                        None => problems.push(("ill-sorted-expr".into(), format!("{}", i.operation()))),
                        Some(w) if w % 8 != 0 => problems.push(("mem-width".into(), format!("{} (value width {})", i.operation(), w))),
                        _ => {}
                    }
                    match re::sort_of(index) {
                        None => problems.push(("ill-sorted-expr".into(), format!("{}", i.operation()))),
                        Some(w) if w > 64 => problems.push(("addr-width".into(), format!("{} (address width {})", i.operation(), w))),
                        _ => {}
                    }
                }
                Operation::Branch { target } => match re::sort_of(target) {
                    None => problems.push(("ill-sorted-expr".into(), format!("{}", i.operation()))),
                    Some(w) if w > 64 => problems.push(("addr-width".into(), format!("{} (target width {})", i.operation(), w))),
                    _ => {}
                },
                Operation::Intrinsic { intrinsic } => {
                    for e in intrinsic.arguments().iter().chain(intrinsic.written_expressions().unwrap_or(&[]).iter()).chain(intrinsic.read_expressions().unwrap_or(&[]).iter()) {
                        if !expr_ok(e) {
                            problems.push(("ill-sorted-expr".into(), format!("intrinsic operand {}", e)));
                        }
                    }
                }
                Operation::Nop { .. } => {}
            }
        }
    }
}

/// exactly one of `guards` (None = unconditional) enabled in every valuation tried
fn guards_deterministic(rng: &mut Rng, guards: &[Option<Expression>]) -> Result<u64, String> {
    if guards.is_empty() {
        return Ok(0);
    }
    let mut scalars: BTreeMap<String, Scalar> = BTreeMap::new();
    for g in guards.iter().flatten() {
        if re::sort_of(g) != Some(1) {
            return Ok(0); // reported elsewhere
        }
        for s in g.scalars() {
            scalars.insert(s.name().to_string(), s.clone());
        }
    }
    let list: Vec<Scalar> = scalars.values().cloned().collect();
    let total_bits: usize = list.iter().map(|s| s.bits()).sum();
    let mut tried = 0;
    let mut check = |vals: &BTreeMap<String, Bv>| -> Result<(), String> {
        let mut enabled = 0;
        for g in guards {
            match g {
                None => enabled += 1,
                Some(c) => match re::eval(c, &|s| vals.get(s.name()).cloned()) {
                    Ok(v) => {
                        if v.is_one() {
                            enabled += 1;
                        }
                    }
                    Err(re::EvalErr::DivZero) => return Ok(()), // undefined valuation
                    Err(e) => return Err(format!("guard {} cannot be evaluated: {:?}", c, e)),
                },
            }
        }
        if enabled != 1 {
            return Err(format!(
                "{} guards enabled with {:?}; guards: {:?}",
                enabled,
                vals.iter().map(|(k, v)| format!("{}={}", k, v.hex())).collect::<Vec<_>>(),
                guards.iter().map(|g| g.as_ref().map(|c| format!("{}", c)).unwrap_or("unconditional".into())).collect::<Vec<_>>()
            ));
        }
        Ok(())
    };
    if total_bits <= 12 {
        for m in 0..(1u64 << total_bits) {
            let mut vals = BTreeMap::new();
            let mut sh = 0;
            for s in &list {
                vals.insert(s.name().to_string(), Bv::from_u64((m >> sh) & ((1u64 << s.bits()) - 1), s.bits()));
                sh += s.bits();
            }
            check(&vals)?;
            tried += 1;
        }
    } else {
        for _ in 0..48 {
            let vals: BTreeMap<String, Bv> = list.iter().map(|s| (s.name().to_string(), Bv::new(rng.corner_big(s.bits()), s.bits()))).collect();
            check(&vals)?;
            tried += 1;
        }
    }
    Ok(tried)
}

/// width of an address in the IL of each translator (what its loads, stores and indirect branch targets must have)
pub fn address_bits(tname: &str) -> usize {
    match tname {
        "amd64" | "aarch64" | "aarch64eb" => 64,
        _ => 32,
    }
}

/// loads and stores must address memory at the translator's address width
fn address_widths(cfg: &ControlFlowGraph, want: usize, problems: &mut Vec<(String, String)>) {
    for b in cfg.blocks() {
        for i in b.instructions() {
            let a = match i.operation() {
                Operation::Load { index, .. } | Operation::Store { index, .. } => Some(index),
                // (an indirect branch target legitimately has the operand size of the instruction: 66h-prefixed
                // near branches truncate the instruction pointer to 16 bits)
                _ => None,
            };
            if let Some(a) = a {
                if let Some(w) = re::sort_of(a) {
                    if w != want {
                        problems.push(("addr-width".into(), format!("{} (address width {}, the architecture's is {})", i.operation(), w, want)));
                    }
                }
            }
        }
    }
}

pub fn check_result(rng: &mut Rng, btr: &BlockTranslationResult) -> (Vec<(String, String)>, u64) {
    check_result_for(rng, btr, None)
}

pub fn check_result_for(rng: &mut Rng, btr: &BlockTranslationResult, tname: Option<&str>) -> (Vec<(String, String)>, u64) {
    let mut problems = Vec::new();
    let mut valuations = 0;
    for (_, cfg) in btr.instructions() {
        wellformed_graph(cfg, &mut problems);
        if let Some(t) = tname {
            address_widths(cfg, address_bits(t), &mut problems);
        }
        for b in cfg.blocks() {
            let guards: Vec<Option<Expression>> = cfg.edges().iter().filter(|e| e.head() == b.index()).map(|e| e.condition().cloned()).collect();
            match guards_deterministic(rng, &guards) {
                Ok(n) => valuations += n,
                Err(why) => problems.push(("nondeterministic-edges".into(), format!("block {}: {}", b.index(), why))),
            }
        }
    }
    let guards: Vec<Option<Expression>> = btr.successors().iter().map(|s| s.1.clone()).collect();
    for g in guards.iter().flatten() {
        match re::sort_of(g) {
            Some(1) => {}
            Some(w) => problems.push(("guard-width".into(), format!("successor condition {} has width {}", g, w))),
            None => problems.push(("ill-sorted-expr".into(), format!("successor condition {}", g))),
        }
    }
    // the successor list may name the same address twice (branch to the next instruction): group by address is not needed for determinism
    if !guards.is_empty() {
        match guards_deterministic(rng, &guards) {
            Ok(n) => valuations += n,
            Err(why) => problems.push(("nondeterministic-successors".into(), why)),
        }
    }
    (problems, valuations)
}

fn result_fingerprint(r: &Result<BlockTranslationResult, falcon::Error>) -> String {
    match r {
        Err(e) => format!("Err({:?})", e).chars().take(200).collect(),
        Ok(b) => format!("{:?}", (b.instructions(), b.successors(), b.length(), b.address())),
    }
}

impl C05 {
    fn one(&self, ctx: &mut Ctx, rng: &mut Rng, tname: &str, unsupported_are_intrinsics: bool, bytes: &[u8], address: u64, kind: &str) {
        let t = translator(tname);
        let options: Options = OptionsBuilder::new().unsupported_are_intrinsics(unsupported_are_intrinsics).build();
        ctx.trace(|| format!("lift {} intrinsics={} addr=0x{:x} bytes={}", tname, unsupported_are_intrinsics, address, hex(bytes)));
        let input = || json!({"translator": tname, "unsupported_are_intrinsics": unsupported_are_intrinsics, "address": format!("0x{:x}", address), "bytes": hex(bytes), "kind": kind});
        let r = guard(|| t.translate_block(bytes, address, &options));
        ctx.eval();
        let r = match r {
            Err(p) => {
                ctx.panic_violation(&format!("{}:{}", tname, if unsupported_are_intrinsics {"intr"} else {"err"}), &p, input());
                return;
            }
            Ok(r) => r,
        };
        // determinism: lifting the same input again gives the same answer
        if rng.chance(1, 8) {
            let r2 = guard(|| t.translate_block(bytes, address, &options));
            if let Ok(r2) = r2 {
                if result_fingerprint(&r) != result_fingerprint(&r2) {
                    ctx.violation(&format!("{}:nondeterministic-lift", tname), input());
                }
            }
        }
        // ... and so does a thread that has never lifted anything before (the answer must not depend on what
        // this thread lifted earlier, e.g. with another translator)
        if rng.chance(1, 300) {
            let (tn, b, o) = (tname.to_string(), bytes.to_vec(), options.clone());
            let fresh = std::thread::spawn(move || {
                let t = translator(&tn);
                guard(|| t.translate_block(&b, address, &o)).ok().map(|r| result_fingerprint(&r))
            })
            .join();
            ctx.count("fresh_thread_comparisons");
            if let Ok(Some(fp)) = fresh {
                if fp != result_fingerprint(&r) {
                    ctx.violation(&format!("{}:lift-depends-on-earlier-lifts", tname), input());
                }
            }
        }
        match r {
            Err(_) => {
                ctx.count(&format!("{}.rejected", tname));
            }
            Ok(btr) => {
                let (problems, vals) = check_result_for(rng, &btr, Some(tname));
                ctx.evals(vals);
                if !problems.is_empty() {
                    let kinds: BTreeSet<&String> = problems.iter().map(|p| &p.0).collect();
                    for k in kinds {
                        let first = problems.iter().find(|p| &p.0 == k).unwrap();
                        // class of the offending instruction: first mnemonic-ish token of the comment / op
                        ctx.violation(
                            &format!("{}:{}:{}", tname, k, normalise(&first.1, tname, bytes)),
                            json!({"input": input(), "problem": first.1, "all": problems.iter().take(6).map(|p| format!("{}: {}", p.0, p.1)).collect::<Vec<_>>()}),
                        );
                    }
                    return;
                }
                let n = btr.instructions().len();
                ctx.class(&format!("{}/{}/{}/n{}", tname, if unsupported_are_intrinsics {"intr"} else {"err"}, kind, n.min(6)));
                ctx.count(&format!("{}.accepted", tname));
                if ctx.want_sample() && n > 0 {
                    ctx.sample(input());
                }
            }
        }
    }
}

/// stable description of a problem: numbers and temporaries are abstracted; for the
/// fixed-width ISAs the class of the (single-instruction) input is added
fn normalise(problem: &str, tname: &str, bytes: &[u8]) -> String {
    let mut out = String::new();
    let cs: Vec<char> = problem.chars().collect();
    let mut i = 0;
    while i < cs.len() {
        if cs[i] == '0' && i + 1 < cs.len() && cs[i + 1] == 'x' {
            i += 2;
            while i < cs.len() && cs[i].is_ascii_hexdigit() {
                i += 1;
            }
            out.push('N');
        } else {
            out.push(cs[i]);
            i += 1;
        }
    }
    let out: String = out.chars().take(90).collect();
    if bytes.len() == 4 && !tname.contains("86") && !tname.contains("amd") {
        format!("{}|{}", instr_class(tname, bytes), out)
    } else {
        out
    }
}

/// coarse class of the first instruction, for signatures
fn instr_class(tname: &str, bytes: &[u8]) -> String {
    match tname {
        "aarch64" | "aarch64eb" => {
            if bytes.len() >= 4 {
                let w = u32::from_le_bytes([bytes[0], bytes[1], bytes[2], bytes[3]]);
                crate::a64ref::class_of(w).unwrap_or("other").to_string()
            } else {
                "short".into()
            }
        }
        "mips" | "mipsel" => {
            if bytes.len() >= 4 {
                let w = if tname == "mips" { u32::from_be_bytes([bytes[0], bytes[1], bytes[2], bytes[3]]) } else { u32::from_le_bytes([bytes[0], bytes[1], bytes[2], bytes[3]]) };
                crate::mipsref::mnemonic(w).unwrap_or("other").to_string()
            } else {
                "short".into()
            }
        }
        "ppc" => {
            if bytes.len() >= 4 {
                crate::ppcref::mnemonic(u32::from_be_bytes([bytes[0], bytes[1], bytes[2], bytes[3]])).unwrap_or("other").to_string()
            } else {
                "short".into()
            }
        }
        _ => {
            // x86: first non-prefix opcode byte
            let mut i = 0;
            while i < bytes.len() && [0x66, 0x67, 0xf2, 0xf3, 0x2e, 0x36, 0x3e, 0x26, 0x64, 0x65, 0xf0].contains(&bytes[i]) {
                i += 1;
            }
            if tname == "amd64" && i < bytes.len() && bytes[i] & 0xf0 == 0x40 {
                i += 1;
            }
            match bytes.get(i) {
                Some(0x0f) => format!("op0f{:02x}", bytes.get(i + 1).cloned().unwrap_or(0)),
                Some(b) => format!("op{:02x}", b),
                None => "prefix_only".into(),
            }
        }
    }
}

fn gen_address(rng: &mut Rng) -> u64 {
    match rng.below(8) {
        0 => 0,
        // high, but far enough from 2^64 that no block wraps around the address space
        1 => u64::MAX - 0xffff - rng.below(16),
        2 => 0xffc + rng.below(8),
        3 => 0xffff_fff8 + rng.below(16),
        _ => 0x40_0000 + 4 * rng.below(0x10000),
    }
}

impl Check for C05 {
    fn directed(&self) -> u64 {
        1 + if self.sweep { 7 * 64 } else { 0 }
    }
    fn run(&mut self, ctx: &mut Ctx, rng: &mut Rng, case: u64) {
        if case == 0 {
            // regression inputs: A64 ldr literal, x86 jcc to next, trailing branch without delay slot, short reads
            for intr in [false, true] {
                self.one(ctx, rng, "aarch64", intr, &0x58000040u32.to_le_bytes(), 0x1000, "directed");
                self.one(ctx, rng, "aarch64", intr, &0x1c55f11cu32.to_le_bytes(), 0x1000, "directed");
                self.one(ctx, rng, "amd64", intr, &[0x74, 0x00], 0x1000, "directed");
                self.one(ctx, rng, "x86", intr, &[0x74, 0x00, 0x90], 0x1000, "directed");
                self.one(ctx, rng, "mips", intr, &[0x10, 0x00, 0x00, 0x01], 0x1000, "directed");
                self.one(ctx, rng, "mipsel", intr, &[0x08, 0x00, 0xe0, 0x03], 0x1000, "directed");
                self.one(ctx, rng, "ppc", intr, &[0x2c, 0x03, 0xff, 0xff], 0x1000, "directed");
                for t in TRANSLATORS {
                    self.one(ctx, rng, t, intr, &[], 0x1000, "directed");
                    self.one(ctx, rng, t, intr, &[0x00], 0x1000, "directed");
                    self.one(ctx, rng, t, intr, &[0xff, 0xff, 0xff], u64::MAX - 0xffff, "directed");
                }
            }
            return;
        }
        if case < self.directed() {
            // thorough: stratified sweep of the fixed-width ISAs: every value of the top 16 bits x random low halves
            let k = case - 1;
            let t = TRANSLATORS[(k / 64) as usize];
            if t == "x86" || t == "amd64" {
                return;
            }
            let slice = k % 64;
            for hi in (0..0x10000u32).filter(|h| (*h as u64) % 64 == slice) {
                for _ in 0..4 {
                    let w = hi << 16 | (rng.u32() & 0xffff);
                    let bytes = if t == "mips" || t == "ppc" { w.to_be_bytes() } else { w.to_le_bytes() };
                    let intr = rng.bool();
                    self.one(ctx, rng, t, intr, &bytes, 0x40_0000, "sweep");
                }
            }
            return;
        }
        for _ in 0..24 {
            let t = TRANSLATORS[rng.usize(7)];
            let intr = rng.bool();
            let addr = gen_address(rng);
            let (bytes, kind): (Vec<u8>, &str) = if t == "x86" || t == "amd64" {
                match rng.below(5) {
                    4 => {
                        // a well-formed ModRM instruction of the opcodes the lifter knows, under every prefix
                        // constellation: [66] [67] [seg] [REX] opcode modrm [sib] [disp] [imm]
                        let mut b = Vec::new();
                        for p in [0x66u8, 0x67] {
                            if rng.chance(1, 3) {
                                b.push(p);
                            }
                        }
                        if rng.chance(1, 5) {
                            b.push(*rng.pick(&[0x64u8, 0x65, 0x2e, 0x36, 0x3e, 0x26]));
                        }
                        if t == "amd64" && rng.chance(1, 2) {
                            b.push(0x40 | rng.below(16) as u8);
                        }
                        let (op, imm): (&[u8], usize) = *rng.pick(&[
                            (&[0x8b][..], 0usize), (&[0x89], 0), (&[0x8a], 0), (&[0x88], 0), (&[0x8c], 0), (&[0x8e], 0), (&[0x8d], 0), (&[0x03], 0), (&[0x01], 0), (&[0x2b], 0),
                            (&[0x39], 0), (&[0x85], 0), (&[0x87], 0), (&[0x63], 0), (&[0xc7], 4), (&[0xc6], 1), (&[0x81], 4), (&[0x83], 1), (&[0xff], 0), (&[0xfe], 0),
                            (&[0xf7], 0), (&[0xd3], 0), (&[0xc1], 1), (&[0x0f, 0xb6], 0), (&[0x0f, 0xbe], 0), (&[0x0f, 0xaf], 0), (&[0x0f, 0x44], 0), (&[0x0f, 0x94], 0), (&[0x0f, 0xa3], 0),
                            (&[0x0f, 0xb1], 0), (&[0x0f, 0xc1], 0), (&[0x0f, 0x10], 0), (&[0x0f, 0x6f], 0), (&[0x0f, 0x7f], 0), (&[0x0f, 0xd6], 0), (&[0x8f], 0), (&[0x6b], 1), (&[0x69], 4),
                        ]);
                        b.extend_from_slice(op);
                        let md = rng.below(4) as u8;
                        let rm = rng.below(8) as u8;
                        b.push(md << 6 | (rng.below(8) as u8) << 3 | rm);
                        let a16 = b.contains(&0x67) && t == "x86";
                        let mut disp = match md {
                            1 => 1,
                            2 => if a16 { 2 } else { 4 },
                            _ => 0,
                        };
                        if md != 3 && !a16 {
                            if rm == 4 {
                                let sib = rng.u64() as u8;
                                b.push(sib);
                                if md == 0 && sib & 7 == 5 {
                                    disp = 4;
                                }
                            } else if md == 0 && rm == 5 {
                                disp = 4;
                            }
                        } else if md == 0 && a16 && rm == 6 {
                            disp = 2;
                        }
                        b.extend(rng.bytes(disp));
                        b.extend(rng.bytes(imm));
                        (b, "modrm_form")
                    }
                    0 => {
                        let n = 1 + rng.usize(15);
                        (rng.bytes(n), "random")
                    }
                    1 => {
                        // common opcode, random tail
                        let mut b = Vec::new();
                        if rng.chance(1, 3) {
                            b.push(*rng.pick(&[0x66u8, 0x67, 0xf2, 0xf3, 0x64, 0x65, 0xf0, 0x2e]));
                        }
                        if t == "amd64" && rng.chance(1, 2) {
                            b.push(0x40 | rng.below(16) as u8);
                        }
                        b.push(rng.u64() as u8);
                        let n = rng.usize(10);
                        b.extend(rng.bytes(n));
                        (b, "prefixed")
                    }
                    2 => {
                        let mut b = vec![0x0f, rng.u64() as u8];
                        let n = rng.usize(8);
                        b.extend(rng.bytes(n));
                        (b, "two_byte")
                    }
                    _ => {
                        // several instructions in a row
                        let n = 8 + rng.usize(40);
                        (rng.bytes(n), "stream")
                    }
                }
            } else {
                let nwords = 1 + rng.usize(3);
                let mut b = Vec::new();
                let mut kind = "random";
                for _ in 0..nwords {
                    let w = match (t, rng.below(3)) {
                        ("aarch64", 0) | ("aarch64eb", 0) => {
                            kind = "template";
                            // class templates with a random bit flipped
                            let w = crate::c03::template_word(rng);
                            if rng.bool() { w ^ (1 << rng.below(32)) } else { w }
                        }
                        ("mips", 0) | ("mipsel", 0) => {
                            kind = "template";
                            let w = crate::c02::mips_template_word(rng);
                            if rng.bool() { w ^ (1 << rng.below(32)) } else { w }
                        }
                        ("ppc", 0) => {
                            kind = "template";
                            let w = crate::c02::ppc_template_word(rng);
                            if rng.bool() { w ^ (1 << rng.below(32)) } else { w }
                        }
                        _ => rng.u32(),
                    };
                    b.extend_from_slice(&if t == "mips" || t == "ppc" { w.to_be_bytes() } else { w.to_le_bytes() });
                }
                // sometimes a length that is not a multiple of 4
                if rng.chance(1, 6) {
                    let cut = rng.usize(3) + 1;
                    b.truncate(b.len() - cut);
                    kind = "truncated";
                }
                (b, kind)
            };
            self.one(ctx, rng, t, intr, &bytes, addr, kind);
        }
    }
}

#[allow(dead_code)]
fn unused(_: Value) {}
