//! Reference evaluator for IL expressions: exact fixed-width bit-vector arithmetic
//! over BigUint, written from the IL documentation and the statement of C04 —
//! it does not call falcon's `Constant` arithmetic or `executor::eval`.

use falcon::il::{Expression, Scalar};
use num_bigint::BigUint;
use num_traits::{One, Zero};

#[derive(Clone, Debug, PartialEq, Eq)]
pub enum EvalErr {
    Sort,
    DivZero,
    /// scalar with no value in the environment
    Undefined(String),
}

/// A bit-vector value: (value < 2^bits, bits)
#[derive(Clone, Debug, PartialEq, Eq, Hash)]
pub struct Bv {
    pub v: BigUint,
    pub bits: usize,
}

pub fn mask(bits: usize) -> BigUint {
    (BigUint::one() << bits) - BigUint::one()
}

impl Bv {
    pub fn new(v: BigUint, bits: usize) -> Bv {
        Bv {
            v: v & mask(bits),
            bits,
        }
    }
    pub fn from_u64(v: u64, bits: usize) -> Bv {
        Bv::new(BigUint::from(v), bits)
    }
    pub fn from_u128(v: u128, bits: usize) -> Bv {
        Bv::new(BigUint::from(v), bits)
    }
    pub fn is_neg(&self) -> bool {
        self.bits > 0 && self.v.bit((self.bits - 1) as u64)
    }
    /// magnitude of the two's complement value (|x|), and sign
    fn sign_mag(&self) -> (bool, BigUint) {
        if self.is_neg() {
            (true, (BigUint::one() << self.bits) - &self.v)
        } else {
            (false, self.v.clone())
        }
    }
    fn from_sign_mag(neg: bool, mag: BigUint, bits: usize) -> Bv {
        let m = mag & mask(bits);
        if neg && !m.is_zero() {
            Bv::new((BigUint::one() << bits) - m, bits)
        } else {
            Bv::new(m, bits)
        }
    }
    pub fn to_u64(&self) -> Option<u64> {
        let d = self.v.to_u64_digits();
        match d.len() {
            0 => Some(0),
            1 => Some(d[0]),
            _ => None,
        }
    }
    pub fn to_u128(&self) -> Option<u128> {
        let d = self.v.to_u64_digits();
        match d.len() {
            0 => Some(0),
            1 => Some(d[0] as u128),
            2 => Some(d[0] as u128 | (d[1] as u128) << 64),
            _ => None,
        }
    }
    pub fn bit1(b: bool) -> Bv {
        Bv::from_u64(b as u64, 1)
    }
    pub fn is_one(&self) -> bool {
        self.v.is_one()
    }
    pub fn hex(&self) -> String {
        format!("0x{:x}:{}", self.v, self.bits)
    }
}

#[derive(Clone, Copy, Debug, PartialEq, Eq, Hash, PartialOrd, Ord)]
pub enum BinOp {
    Add,
    Sub,
    Mul,
    Divu,
    Modu,
    Divs,
    Mods,
    And,
    Or,
    Xor,
    Shl,
    Shr,
    AShr,
    Cmpeq,
    Cmpneq,
    Cmplts,
    Cmpltu,
}

pub const ALL_BINOPS: [BinOp; 17] = [
    BinOp::Add,
    BinOp::Sub,
    BinOp::Mul,
    BinOp::Divu,
    BinOp::Modu,
    BinOp::Divs,
    BinOp::Mods,
    BinOp::And,
    BinOp::Or,
    BinOp::Xor,
    BinOp::Shl,
    BinOp::Shr,
    BinOp::AShr,
    BinOp::Cmpeq,
    BinOp::Cmpneq,
    BinOp::Cmplts,
    BinOp::Cmpltu,
];

pub fn binop(op: BinOp, l: &Bv, r: &Bv) -> Result<Bv, EvalErr> {
    if l.bits != r.bits || l.bits == 0 {
        return Err(EvalErr::Sort);
    }
    let w = l.bits;
    Ok(match op {
        BinOp::Add => Bv::new(&l.v + &r.v, w),
        BinOp::Sub => Bv::new((BigUint::one() << w) + &l.v - &r.v, w),
        BinOp::Mul => Bv::new(&l.v * &r.v, w),
        BinOp::Divu => {
            if r.v.is_zero() {
                return Err(EvalErr::DivZero);
            }
            Bv::new(&l.v / &r.v, w)
        }
        BinOp::Modu => {
            if r.v.is_zero() {
                return Err(EvalErr::DivZero);
            }
            Bv::new(&l.v % &r.v, w)
        }
        BinOp::Divs => {
            if r.v.is_zero() {
                return Err(EvalErr::DivZero);
            }
            let (ln, lm) = l.sign_mag();
            let (rn, rm) = r.sign_mag();
            Bv::from_sign_mag(ln != rn, lm / rm, w)
        }
        BinOp::Mods => {
            if r.v.is_zero() {
                return Err(EvalErr::DivZero);
            }
            let (ln, lm) = l.sign_mag();
            let (_, rm) = r.sign_mag();
            Bv::from_sign_mag(ln, lm % rm, w)
        }
        BinOp::And => Bv::new(&l.v & &r.v, w),
        BinOp::Or => Bv::new(&l.v | &r.v, w),
        BinOp::Xor => Bv::new(&l.v ^ &r.v, w),
        BinOp::Shl => match r.to_u64() {
            Some(n) if (n as u128) < w as u128 => Bv::new(&l.v << (n as usize), w),
            _ => Bv::new(BigUint::zero(), w),
        },
        BinOp::Shr => match r.to_u64() {
            Some(n) if (n as u128) < w as u128 => Bv::new(&l.v >> (n as usize), w),
            _ => Bv::new(BigUint::zero(), w),
        },
        BinOp::AShr => {
            let neg = l.is_neg();
            match r.to_u64() {
                Some(n) if (n as u128) < w as u128 => {
                    let n = n as usize;
                    let mut v = &l.v >> n;
                    if neg && n > 0 {
                        // fill the top n bits
                        v |= mask(n) << (w - n);
                    }
                    Bv::new(v, w)
                }
                _ => {
                    if neg {
                        Bv::new(mask(w), w)
                    } else {
                        Bv::new(BigUint::zero(), w)
                    }
                }
            }
        }
        BinOp::Cmpeq => Bv::bit1(l.v == r.v),
        BinOp::Cmpneq => Bv::bit1(l.v != r.v),
        BinOp::Cmpltu => Bv::bit1(l.v < r.v),
        BinOp::Cmplts => {
            let (ln, rn) = (l.is_neg(), r.is_neg());
            Bv::bit1(if ln != rn { ln } else { l.v < r.v })
        }
    })
}

pub fn zext(bits: usize, x: &Bv) -> Result<Bv, EvalErr> {
    if x.bits == 0 || bits <= x.bits {
        return Err(EvalErr::Sort);
    }
    Ok(Bv::new(x.v.clone(), bits))
}

pub fn sext(bits: usize, x: &Bv) -> Result<Bv, EvalErr> {
    if x.bits == 0 || bits <= x.bits {
        return Err(EvalErr::Sort);
    }
    if x.is_neg() {
        Ok(Bv::new(&x.v | (mask(bits - x.bits) << x.bits), bits))
    } else {
        Ok(Bv::new(x.v.clone(), bits))
    }
}

pub fn trun(bits: usize, x: &Bv) -> Result<Bv, EvalErr> {
    if bits == 0 || bits >= x.bits {
        return Err(EvalErr::Sort);
    }
    Ok(Bv::new(x.v.clone(), bits))
}

pub fn ite(c: &Bv, t: &Bv, e: &Bv) -> Result<Bv, EvalErr> {
    if c.bits != 1 || t.bits != e.bits || t.bits == 0 {
        return Err(EvalErr::Sort);
    }
    Ok(if c.is_one() { t.clone() } else { e.clone() })
}

pub fn binop_of(e: &Expression) -> Option<(BinOp, &Expression, &Expression)> {
    Some(match e {
        Expression::Add(l, r) => (BinOp::Add, l, r),
        Expression::Sub(l, r) => (BinOp::Sub, l, r),
        Expression::Mul(l, r) => (BinOp::Mul, l, r),
        Expression::Divu(l, r) => (BinOp::Divu, l, r),
        Expression::Modu(l, r) => (BinOp::Modu, l, r),
        Expression::Divs(l, r) => (BinOp::Divs, l, r),
        Expression::Mods(l, r) => (BinOp::Mods, l, r),
        Expression::And(l, r) => (BinOp::And, l, r),
        Expression::Or(l, r) => (BinOp::Or, l, r),
        Expression::Xor(l, r) => (BinOp::Xor, l, r),
        Expression::Shl(l, r) => (BinOp::Shl, l, r),
        Expression::Shr(l, r) => (BinOp::Shr, l, r),
        Expression::AShr(l, r) => (BinOp::AShr, l, r),
        Expression::Cmpeq(l, r) => (BinOp::Cmpeq, l, r),
        Expression::Cmpneq(l, r) => (BinOp::Cmpneq, l, r),
        Expression::Cmplts(l, r) => (BinOp::Cmplts, l, r),
        Expression::Cmpltu(l, r) => (BinOp::Cmpltu, l, r),
        _ => return None,
    })
}

/// Evaluate a falcon expression tree. `env` supplies scalar values (already of the
/// scalar's width). The full tree is sort-checked as it is evaluated: both arms of
/// an `ite` are evaluated (an ill-sorted or faulting untaken arm is still an error
/// only for sort errors; a division by zero in the untaken arm is not taken).
pub fn eval(e: &Expression, env: &dyn Fn(&Scalar) -> Option<Bv>) -> Result<Bv, EvalErr> {
    match e {
        Expression::Scalar(s) => match env(s) {
            Some(v) => {
                if v.bits != s.bits() {
                    Err(EvalErr::Sort)
                } else {
                    Ok(v)
                }
            }
            None => Err(EvalErr::Undefined(s.name().to_string())),
        },
        Expression::Constant(c) => {
            if c.bits() == 0 {
                return Err(EvalErr::Sort);
            }
            Ok(Bv::new(c.value().clone(), c.bits()))
        }
        Expression::Zext(bits, x) => zext(*bits, &eval(x, env)?),
        Expression::Sext(bits, x) => sext(*bits, &eval(x, env)?),
        Expression::Trun(bits, x) => trun(*bits, &eval(x, env)?),
        Expression::Ite(c, t, el) => {
            let c = eval(c, env)?;
            if c.bits != 1 {
                return Err(EvalErr::Sort);
            }
            // the selected arm decides value and dynamic errors
            if c.is_one() {
                eval(t, env)
            } else {
                eval(el, env)
            }
        }
        _ => {
            let (op, l, r) = binop_of(e).expect("all variants covered");
            let l = eval(l, env)?;
            let r = eval(r, env)?;
            binop(op, &l, &r)
        }
    }
}

/// Static width of an expression per the IL rules, or None if ill-sorted anywhere.
pub fn sort_of(e: &Expression) -> Option<usize> {
    match e {
        Expression::Scalar(s) => {
            if s.bits() == 0 {
                None
            } else {
                Some(s.bits())
            }
        }
        Expression::Constant(c) => {
            if c.bits() == 0 {
                None
            } else {
                Some(c.bits())
            }
        }
        Expression::Zext(bits, x) | Expression::Sext(bits, x) => {
            let w = sort_of(x)?;
            if *bits > w {
                Some(*bits)
            } else {
                None
            }
        }
        Expression::Trun(bits, x) => {
            let w = sort_of(x)?;
            if *bits < w && *bits > 0 {
                Some(*bits)
            } else {
                None
            }
        }
        Expression::Ite(c, t, el) => {
            if sort_of(c)? != 1 {
                return None;
            }
            let a = sort_of(t)?;
            let b = sort_of(el)?;
            if a == b {
                Some(a)
            } else {
                None
            }
        }
        _ => {
            let (op, l, r) = binop_of(e)?;
            let a = sort_of(l)?;
            let b = sort_of(r)?;
            if a != b {
                return None;
            }
            Some(match op {
                BinOp::Cmpeq | BinOp::Cmpneq | BinOp::Cmplts | BinOp::Cmpltu => 1,
                _ => a,
            })
        }
    }
}

#[cfg(test)]
mod tests {
    use super::*;
    fn b(v: u64, w: usize) -> Bv {
        Bv::from_u64(v, w)
    }
    #[test]
    fn native_crosscheck_8bit_exhaustive() {
        for x in 0u64..256 {
            for y in 0u64..256 {
                let (l, r) = (b(x, 8), b(y, 8));
                let (sx, sy) = (x as u8 as i8, y as u8 as i8);
                assert_eq!(binop(BinOp::Add, &l, &r).unwrap(), b((x + y) & 0xff, 8));
                assert_eq!(
                    binop(BinOp::Sub, &l, &r).unwrap(),
                    b(x.wrapping_sub(y) & 0xff, 8)
                );
                assert_eq!(binop(BinOp::Mul, &l, &r).unwrap(), b((x * y) & 0xff, 8));
                if y != 0 {
                    assert_eq!(binop(BinOp::Divu, &l, &r).unwrap(), b(x / y, 8));
                    assert_eq!(binop(BinOp::Modu, &l, &r).unwrap(), b(x % y, 8));
                    assert_eq!(
                        binop(BinOp::Divs, &l, &r).unwrap(),
                        b(sx.wrapping_div(sy) as u8 as u64, 8)
                    );
                    assert_eq!(
                        binop(BinOp::Mods, &l, &r).unwrap(),
                        b(sx.wrapping_rem(sy) as u8 as u64, 8)
                    );
                } else {
                    assert_eq!(binop(BinOp::Divu, &l, &r), Err(EvalErr::DivZero));
                    assert_eq!(binop(BinOp::Mods, &l, &r), Err(EvalErr::DivZero));
                }
                let shl = if y < 8 { (x << y) & 0xff } else { 0 };
                let shr = if y < 8 { x >> y } else { 0 };
                let sar = if y < 8 {
                    (sx >> y) as u8 as u64
                } else if sx < 0 {
                    0xff
                } else {
                    0
                };
                assert_eq!(binop(BinOp::Shl, &l, &r).unwrap(), b(shl, 8));
                assert_eq!(binop(BinOp::Shr, &l, &r).unwrap(), b(shr, 8));
                assert_eq!(binop(BinOp::AShr, &l, &r).unwrap(), b(sar, 8));
                assert_eq!(binop(BinOp::Cmplts, &l, &r).unwrap(), Bv::bit1(sx < sy));
                assert_eq!(binop(BinOp::Cmpltu, &l, &r).unwrap(), Bv::bit1(x < y));
            }
        }
    }
    #[test]
    fn wide_and_ext() {
        let x = Bv::from_u128(0x8000_0000_0000_0000_0000_0000_0000_0001, 128);
        let one = Bv::from_u128(1, 128);
        assert_eq!(
            binop(BinOp::AShr, &x, &one).unwrap(),
            Bv::from_u128(0xC000_0000_0000_0000_0000_0000_0000_0000, 128)
        );
        assert_eq!(sext(16, &b(0x80, 8)).unwrap(), b(0xff80, 16));
        assert_eq!(sext(13, &b(0x5, 3)).unwrap(), b(0x1ffd, 13));
        assert_eq!(zext(9, &b(0xff, 8)).unwrap(), b(0xff, 9));
        assert_eq!(trun(4, &b(0xab, 8)).unwrap(), b(0xb, 4));
        assert_eq!(zext(8, &b(1, 8)), Err(EvalErr::Sort));
        assert_eq!(trun(8, &b(1, 8)), Err(EvalErr::Sort));
        // INT_MIN / -1 wraps
        assert_eq!(
            binop(BinOp::Divs, &b(0x80, 8), &b(0xff, 8)).unwrap(),
            b(0x80, 8)
        );
        assert_eq!(
            binop(BinOp::Mods, &b(0x80, 8), &b(0xff, 8)).unwrap(),
            b(0, 8)
        );
        assert_eq!(binop(BinOp::Add, &b(1, 8), &b(1, 9)), Err(EvalErr::Sort));
    }
}


// ---------------------------------------------------------------- independent IL walkers

/// the scalars an expression mentions, in order of appearance (own recursion over the variants; falcon's
/// `Expression::scalars` is one of the things under test)
pub fn expr_scalars(e: &Expression, out: &mut Vec<falcon::il::Scalar>) {
    use Expression as E;
    match e {
        E::Scalar(s) => out.push(s.clone()),
        E::Constant(_) => {}
        E::Add(a, b) | E::Sub(a, b) | E::Mul(a, b) | E::Divu(a, b) | E::Modu(a, b) | E::Divs(a, b) | E::Mods(a, b) | E::And(a, b) | E::Or(a, b) | E::Xor(a, b)
        | E::Shl(a, b) | E::Shr(a, b) | E::AShr(a, b) | E::Cmpeq(a, b) | E::Cmpneq(a, b) | E::Cmplts(a, b) | E::Cmpltu(a, b) => {
            expr_scalars(a, out);
            expr_scalars(b, out);
        }
        E::Zext(_, a) | E::Sext(_, a) | E::Trun(_, a) => expr_scalars(a, out),
        E::Ite(c, t, f) => {
            expr_scalars(c, out);
            expr_scalars(t, out);
            expr_scalars(f, out);
        }
    }
}

/// the scalars an operation reads (intrinsics: what they declare)
pub fn op_reads(op: &falcon::il::Operation) -> Vec<falcon::il::Scalar> {
    use falcon::il::Operation as O;
    let mut out = Vec::new();
    match op {
        O::Assign { src, .. } => expr_scalars(src, &mut out),
        O::Store { index, src } => {
            expr_scalars(index, &mut out);
            expr_scalars(src, &mut out);
        }
        O::Load { index, .. } => expr_scalars(index, &mut out),
        O::Branch { target } => expr_scalars(target, &mut out),
        O::Intrinsic { intrinsic } => out.extend(intrinsic.scalars_read().unwrap_or_default().into_iter().cloned()),
        O::Nop { .. } => {}
    }
    out
}
