//! Execute a lifted block (`BlockTranslationResult`) in the reference interpreter:
//! the per-instruction graphs in order, then the successor conditions.

use crate::refeval::Bv;
use crate::refinterp::{Fault, IntrinsicMode, Key, Machine, StepOut};
use falcon::il::{Function, FunctionLocation as Loc, Operation};
use falcon::translator::BlockTranslationResult;
use std::collections::{BTreeMap, HashMap};

#[derive(Clone, Debug, PartialEq, Eq)]
pub enum LiftEnd {
    /// all instruction graphs ran; `next` is where control goes
    Next(u64),
    /// the IL executed an intrinsic (mnemonic given)
    Intrinsic(String),
    Fault(Fault),
    /// ran out of steps inside an instruction graph
    StepCap,
    /// no successor condition holds / several hold
    NoSuccessor,
    AmbiguousSuccessor,
}

#[derive(Clone, Debug)]
pub struct IlState {
    pub scalars: HashMap<Key, Bv>,
    pub mem: BTreeMap<u64, u8>,
    pub big_endian: bool,
    /// addresses written by stores (for comparison of touched memory)
    pub stores: Vec<(u64, usize)>,
    /// native addresses of the instruction graphs executed, in order
    pub executed: Vec<u64>,
}

impl IlState {
    pub fn new(big_endian: bool) -> IlState {
        IlState { scalars: HashMap::new(), mem: BTreeMap::new(), big_endian, stores: Vec::new(), executed: Vec::new() }
    }
    pub fn set(&mut self, name: &str, v: Bv) {
        self.scalars.insert((name.to_string(), None), v);
    }
    pub fn get(&self, name: &str) -> Option<&Bv> {
        self.scalars.get(&(name.to_string(), None))
    }
    pub fn get_u64(&self, name: &str) -> Option<u64> {
        self.get(name).and_then(|b| b.to_u64())
    }
}

/// Run one instruction graph. Returns Ok(Some(target)) if it executed an indirect branch.
pub fn run_graph(f: &Function, st: &mut IlState, cap: usize) -> Result<Option<u64>, LiftEnd> {
    let mut m = match Machine::new(f, st.big_endian, false) {
        Some(m) => m,
        None => return Err(LiftEnd::Fault(Fault::BadLocation("instruction graph without entry".into()))),
    };
    m.intrinsics = IntrinsicMode::Fault;
    m.scalars = std::mem::take(&mut st.scalars);
    m.mem = std::mem::take(&mut st.mem);
    let mut result: Result<Option<u64>, LiftEnd> = Err(LiftEnd::StepCap);
    for _ in 0..cap {
        let loc = m.loc.clone();
        match m.step(f) {
            StepOut::Moved => {}
            StepOut::Terminal => {
                result = Ok(None);
                break;
            }
            StepOut::Branched(t) => {
                result = Ok(Some(t));
                break;
            }
            StepOut::Fault(Fault::Intrinsic) => {
                let name = match &loc {
                    Loc::Instruction(b, i) => match f.block(*b).ok().and_then(|b| b.instruction(*i)).map(|i| i.operation()) {
                        Some(Operation::Intrinsic { intrinsic }) => intrinsic.mnemonic().to_string(),
                        _ => "?".to_string(),
                    },
                    _ => "?".to_string(),
                };
                result = Err(LiftEnd::Intrinsic(name));
                break;
            }
            StepOut::Fault(fl) => {
                result = Err(LiftEnd::Fault(fl));
                break;
            }
        }
    }
    for e in &m.events {
        if let crate::refinterp::Event::Store { addr, bits, .. } = e {
            st.stores.push((*addr, *bits / 8));
        }
    }
    st.scalars = std::mem::take(&mut m.scalars);
    st.mem = std::mem::take(&mut m.mem);
    result
}

/// Run a whole lifted block from `st`.
pub fn run_block(btr: &BlockTranslationResult, st: &mut IlState) -> LiftEnd {
    let mut branch: Option<u64> = None;
    for (addr, cfg) in btr.instructions() {
        let f = Function::new(*addr, cfg.clone());
        st.executed.push(*addr);
        match run_graph(&f, st, 4000) {
            Ok(None) => {}
            Ok(Some(t)) => {
                branch = Some(t);
            }
            Err(e) => return e,
        }
    }
    if let Some(t) = branch {
        return LiftEnd::Next(t);
    }
    select_successor(btr, st)
}

/// Run a lifted block the way the executor would: a `Branch` operation hands control to its target at once
/// (nothing behind it in the block is executed); without one, the enabled successor decides.
pub fn run_block_until_branch(btr: &BlockTranslationResult, st: &mut IlState) -> LiftEnd {
    for (addr, cfg) in btr.instructions() {
        let f = Function::new(*addr, cfg.clone());
        st.executed.push(*addr);
        match run_graph(&f, st, 4000) {
            Ok(None) => {}
            Ok(Some(t)) => return LiftEnd::Next(t),
            Err(e) => return e,
        }
    }
    select_successor(btr, st)
}

pub fn select_successor(btr: &BlockTranslationResult, st: &IlState) -> LiftEnd {
    let sc = &st.scalars;
    let mut enabled = Vec::new();
    for (addr, cond) in btr.successors() {
        match cond {
            None => enabled.push(*addr),
            Some(c) => match crate::refeval::eval(c, &|s| sc.get(&(s.name().to_string(), None)).cloned()) {
                Ok(v) => {
                    if v.bits != 1 {
                        return LiftEnd::Fault(Fault::Sort);
                    }
                    if v.is_one() {
                        enabled.push(*addr);
                    }
                }
                Err(e) => return LiftEnd::Fault(e.into()),
            },
        }
    }
    enabled.dedup();
    match enabled.len() {
        0 => LiftEnd::NoSuccessor,
        1 => LiftEnd::Next(enabled[0]),
        _ => {
            // the same address listed twice is fine
            if enabled.iter().all(|a| *a == enabled[0]) {
                LiftEnd::Next(enabled[0])
            } else {
                LiftEnd::AmbiguousSuccessor
            }
        }
    }
}
