//! C16 — Backing memory is a permissioned byte map under overlapping writes.
//!
//! Oracle: BTreeMap<u64,(byte, perms, write-id)>. After a history of
//! set_memory/set32 calls every read API is swept over the hot window.

use crate::fw::*;
use falcon::architecture::Endian;
use falcon::memory::backing::Memory;
use falcon::memory::MemoryPermissions;
use serde_json::{json, Value};
use std::collections::BTreeMap;

pub struct C16 {}

impl C16 {
    pub fn new(_tier: Tier) -> C16 {
        C16 {}
    }
}

#[derive(Clone, Debug)]
enum Op {
    Set { addr: u64, data: Vec<u8>, perm: u32 },
    Set32 { addr: u64, value: u32 },
}

fn perms(p: u32) -> MemoryPermissions {
    MemoryPermissions::from_bits_truncate(p)
}

type Model = BTreeMap<u64, (u8, u32, u32)>;

fn op_json(op: &Op) -> Value {
    match op {
        Op::Set { addr, data, perm } => json!({"set_memory": format!("0x{:x}", addr), "len": data.len(), "data": hex(&data[..data.len().min(24)]), "perm": perm}),
        Op::Set32 { addr, value } => json!({"set32": format!("0x{:x}", addr), "value": format!("0x{:08x}", value)}),
    }
}

fn classify_overlap(model: &Model, addr: u64, len: usize) -> &'static str {
    if len == 0 {
        return if model.contains_key(&addr) { "empty_on_mapped" } else { "empty" };
    }
    let end = addr + len as u64;
    let covered = (addr..end).filter(|a| model.contains_key(a)).count();
    let before = addr > 0 && model.contains_key(&(addr - 1));
    let after = model.contains_key(&end);
    if covered == 0 {
        if before || after {
            "adjacent"
        } else {
            "disjoint"
        }
    } else if covered == len {
        // inside existing data: identical / nested / spanning several regions
        let ids: std::collections::BTreeSet<u32> = (addr..end).map(|a| model[&a].2).collect();
        if ids.len() > 1 {
            "inside_multi"
        } else if before && after {
            "nested"
        } else if !before && !after {
            "identical_or_cover"
        } else {
            "inside_edge"
        }
    } else {
        let first = model.contains_key(&addr);
        let last = model.contains_key(&(end - 1));
        match (first, last) {
            (true, true) => "bridges_gap",
            (true, false) => "overlaps_tail_of_old",
            (false, true) => "overlaps_head_of_old",
            (false, false) => "covers_old",
        }
    }
}

impl C16 {
    fn run_history(&self, ctx: &mut Ctx, big: bool, ops: &[Op], lo: u64, hi: u64, tag: &str) {
        let endian = if big { Endian::Big } else { Endian::Little };
        let mut model: Model = BTreeMap::new();
        let mut mem = Memory::new(endian);
        let hist = |n: usize| -> Value { json!({"endian": if big {"big"} else {"little"}, "ops": ops[..n].iter().map(op_json).collect::<Vec<_>>()}) };
        let mut kinds: Vec<&'static str> = Vec::new();
        for (i, op) in ops.iter().enumerate() {
            ctx.trace(|| format!("history {}", hist(i + 1)));
            match op {
                Op::Set { addr, data, perm } => {
                    kinds.push(classify_overlap(&model, *addr, data.len()));
                    let r = guard(|| mem.set_memory(*addr, data.clone(), perms(*perm)));
                    ctx.eval();
                    if let Err(p) = r {
                        ctx.panic_violation("set_memory", &p, hist(i + 1));
                        return;
                    }
                    for (k, b) in data.iter().enumerate() {
                        model.insert(addr + k as u64, (*b, *perm, i as u32));
                    }
                }
                Op::Set32 { addr, value } => {
                    // only issued when the four bytes were last written by one set_memory call
                    let r = guard(|| mem.set32(*addr, *value));
                    ctx.eval();
                    match r {
                        Err(p) => {
                            ctx.panic_violation("set32", &p, hist(i + 1));
                            return;
                        }
                        Ok(Err(e)) => {
                            ctx.violation("set32:error_within_one_region", json!({"history": hist(i + 1), "error": format!("{:?}", e)}));
                            return;
                        }
                        Ok(Ok(())) => {}
                    }
                    let bytes = if big { value.to_be_bytes() } else { value.to_le_bytes() };
                    for k in 0..4u64 {
                        let e = model.get_mut(&(addr + k)).unwrap();
                        e.0 = bytes[k as usize];
                    }
                    kinds.push("set32");
                }
            }
        }
        let last_kind = kinds.last().copied().unwrap_or("none");
        // ---- sweep all reads
        let h = || hist(ops.len());
        // sections: disjoint and equal to the model when flattened
        let secs = mem.sections();
        let mut flat: BTreeMap<u64, (u8, u32)> = BTreeMap::new();
        let mut prev_end: Option<u64> = None;
        for (a, s) in secs.iter() {
            if let Some(pe) = prev_end {
                if *a < pe {
                    ctx.violation(&format!("sections:overlap:{}", tag), json!({"history": h(), "section_at": format!("0x{:x}", a), "previous_end": format!("0x{:x}", pe)}));
                    return;
                }
            }
            if s.len() > 0 {
                prev_end = Some(a + s.len() as u64);
            }
            for (k, b) in s.data().iter().enumerate() {
                flat.insert(a + k as u64, (*b, s.permissions().bits()));
            }
        }
        ctx.eval();
        let model_flat: BTreeMap<u64, (u8, u32)> = model.iter().map(|(a, v)| (*a, (v.0, v.1))).collect();
        if flat != model_flat {
            let diff = model_flat
                .iter()
                .find(|(a, v)| flat.get(a) != Some(v))
                .map(|(a, v)| (*a, Some(*v), flat.get(a).cloned()))
                .or_else(|| flat.iter().find(|(a, _)| !model_flat.contains_key(a)).map(|(a, v)| (*a, None, Some(*v))));
            let kind = match diff {
                Some((_, Some(_), None)) => "lost_bytes",
                Some((_, None, Some(_))) => "extra_bytes",
                _ => "wrong_bytes",
            };
            ctx.violation(&format!("sections:{}:{}", kind, tag), json!({"history": h(), "first_difference": format!("{:x?}", diff)}));
            return;
        }
        for a in lo..hi {
            let want = model.get(&a);
            let r = guard(|| (mem.get8(a), mem.permissions(a)));
            ctx.evals(2);
            match r {
                Err(p) => {
                    ctx.panic_violation("get8/permissions", &p, h());
                    return;
                }
                Ok((b, pm)) => {
                    if b != want.map(|w| w.0) {
                        ctx.violation(&format!("get8:wrong:{}", tag), json!({"history": h(), "address": format!("0x{:x}", a), "expected": want.map(|w| w.0), "actual": b}));
                        return;
                    }
                    if pm.map(|p| p.bits()) != want.map(|w| w.1) {
                        ctx.violation(&format!("permissions:wrong:{}", tag), json!({"history": h(), "address": format!("0x{:x}", a), "expected": want.map(|w| w.1), "actual": pm.map(|p| p.bits())}));
                        return;
                    }
                }
            }
        }
        // arbitrary-width gets
        for a in lo..hi {
            for bytes in [2usize, 3, 4, 8, 16] {
                let all: Option<Vec<u8>> = (0..bytes as u64).map(|k| model.get(&(a + k)).map(|w| w.0)).collect();
                let r = guard(|| mem.get(a, bytes * 8));
                ctx.eval();
                match r {
                    Err(p) => {
                        let cls = if all.is_none() { "unmapped_byte_in_range" } else { "mapped" };
                        ctx.panic_violation(&format!("get:{}", cls), &p, json!({"history": h(), "address": format!("0x{:x}", a), "bits": bytes * 8}));
                        return;
                    }
                    Ok(got) => {
                        let want: Option<num_bigint::BigUint> = all.as_ref().map(|bs| {
                            if big {
                                num_bigint::BigUint::from_bytes_be(bs)
                            } else {
                                num_bigint::BigUint::from_bytes_le(bs)
                            }
                        });
                        let gotv = got.as_ref().map(|c| (c.value().clone(), c.bits()));
                        if gotv != want.clone().map(|w| (w, bytes * 8)) {
                            ctx.violation(
                                &format!("get:wrong:{}:{}", if all.is_none() {"unmapped"} else {"mapped"}, tag),
                                json!({"history": h(), "address": format!("0x{:x}", a), "bits": bytes * 8,
                                       "expected": want.map(|w| format!("0x{:x}", w)), "actual": got.map(|c| format!("{}", c))}),
                            );
                            return;
                        }
                        if all.is_some() {
                            let ids: std::collections::BTreeSet<u32> = (0..bytes as u64).map(|k| model[&(a + k)].2).collect();
                            if ids.len() > 1 {
                                ctx.count("get_across_regions");
                            }
                        } else {
                            ctx.count("get_absent");
                        }
                    }
                }
            }
            // get32
            let four: Option<Vec<(u8, u32)>> = (0..4u64).map(|k| model.get(&(a + k)).map(|w| (w.0, w.2))).collect();
            let r = guard(|| mem.get32(a));
            ctx.eval();
            match r {
                Err(p) => {
                    ctx.panic_violation("get32", &p, json!({"history": h(), "address": format!("0x{:x}", a)}));
                    return;
                }
                Ok(got) => match &four {
                    None => {
                        if got.is_some() {
                            ctx.violation(&format!("get32:value_for_unmapped:{}", tag), json!({"history": h(), "address": format!("0x{:x}", a), "actual": got}));
                            return;
                        }
                    }
                    Some(bs) => {
                        let arr = [bs[0].0, bs[1].0, bs[2].0, bs[3].0];
                        let want = if big { u32::from_be_bytes(arr) } else { u32::from_le_bytes(arr) };
                        let one_region = bs.iter().all(|b| b.1 == bs[0].1);
                        if one_region {
                            if got != Some(want) {
                                ctx.violation(&format!("get32:wrong_within_region:{}", tag), json!({"history": h(), "address": format!("0x{:x}", a), "expected": want, "actual": got}));
                                return;
                            }
                        } else if let Some(g) = got {
                            // spanning regions: the statement leaves it open, but a value must be the right one
                            if g != want {
                                ctx.violation(&format!("get32:wrong_across_regions:{}", tag), json!({"history": h(), "address": format!("0x{:x}", a), "expected": want, "actual": g}));
                                return;
                            }
                        }
                    }
                },
            }
        }
        ctx.class(&format!("{}/{}/n{}", last_kind, if big {"be"} else {"le"}, (ops.len() / 8).min(4)));
        for k in kinds {
            ctx.count(&format!("write_kind.{}", k));
        }
        if ctx.want_sample() {
            ctx.sample(h());
        }
    }

    fn gen_history(&self, rng: &mut Rng) -> (bool, Vec<Op>, u64, u64) {
        let big = rng.bool();
        let base = match rng.below(6) {
            0 => 0u64,
            1 => 0xffff_ffff_ffff_0000,
            2 => 0x7fff_ffff_ffff_ff80,
            _ => 0x1000,
        };
        let win = 96u64;
        let nmax = if rng.chance(1, 4) { 38 } else { 12 };
        let n = 2 + rng.usize(nmax);
        let mut ops = Vec::new();
        // shadow of write ids to place set32 legally
        let mut ids: BTreeMap<u64, u32> = BTreeMap::new();
        for i in 0..n {
            if !ids.is_empty() && rng.chance(1, 6) {
                // set32 inside one region
                let cands: Vec<u64> = ids
                    .keys()
                    .cloned()
                    .filter(|a| (1..4u64).all(|k| ids.get(&(a + k)) == ids.get(a)))
                    .collect();
                if !cands.is_empty() {
                    let a = *rng.pick(&cands);
                    ops.push(Op::Set32 { addr: a, value: rng.u32() });
                    continue;
                }
            }
            let len = match rng.below(12) {
                0 => 0usize,
                1 => 1,
                2 => 4,
                3 => 2 + rng.usize(3),
                _ => 1 + rng.usize(40),
            };
            // bias starts towards existing region boundaries
            let addr = if !ids.is_empty() && rng.chance(1, 2) {
                let keys: Vec<u64> = ids.keys().cloned().collect();
                let k = *rng.pick(&keys);
                let d = rng.below(5) as i64 - 2;
                let a = (k as i64).wrapping_add(d) as u64;
                a.clamp(base + 8, base + 8 + win)
            } else {
                base + 8 + rng.below(win)
            };
            let data = rng.bytes(len);
            for k in 0..len {
                ids.insert(addr + k as u64, i as u32);
            }
            ops.push(Op::Set { addr, data, perm: rng.below(8) as u32 });
        }
        (big, ops, base, base + 8 + win + 64)
    }
}

impl Check for C16 {
    fn directed(&self) -> u64 {
        4
    }
    fn run(&mut self, ctx: &mut Ctx, rng: &mut Rng, case: u64) {
        match case {
            0 => {
                // get() running past the end of a region
                let ops = vec![Op::Set { addr: 0x1010, data: vec![1, 2, 3, 4, 5, 6], perm: 5 }];
                for big in [false, true] {
                    self.run_history(ctx, big, &ops, 0x1000, 0x1030, "directed");
                }
            }
            1 => {
                // empty write at the key of an existing region
                let ops = vec![
                    Op::Set { addr: 0x1010, data: vec![9; 16], perm: 3 },
                    Op::Set { addr: 0x1010, data: vec![], perm: 7 },
                ];
                self.run_history(ctx, false, &ops, 0x1000, 0x1030, "directed");
                let ops = vec![
                    Op::Set { addr: 0x1010, data: vec![9; 16], perm: 3 },
                    Op::Set { addr: 0x1018, data: vec![], perm: 7 },
                ];
                self.run_history(ctx, true, &ops, 0x1000, 0x1030, "directed");
            }
            2 => {
                // nested, identical, head/tail overlaps, adjacency
                let ops = vec![
                    Op::Set { addr: 0x1010, data: (0..32).collect(), perm: 1 },
                    Op::Set { addr: 0x1018, data: vec![0xaa; 8], perm: 2 },
                    Op::Set { addr: 0x1008, data: vec![0xbb; 12], perm: 3 },
                    Op::Set { addr: 0x102c, data: vec![0xcc; 12], perm: 4 },
                    Op::Set { addr: 0x1038, data: vec![0xdd; 4], perm: 5 },
                    Op::Set32 { addr: 0x1038, value: 0x11223344 },
                    Op::Set { addr: 0x1000, data: vec![0xee; 80], perm: 6 },
                    Op::Set { addr: 0x1000, data: vec![0x77; 80], perm: 7 },
                ];
                for big in [false, true] {
                    for n in 1..=ops.len() {
                        self.run_history(ctx, big, &ops[..n], 0x0ff8, 0x1060, "directed");
                    }
                }
            }
            3 => {
                let ops = vec![
                    Op::Set { addr: 0, data: vec![1, 2, 3, 4], perm: 1 },
                    Op::Set { addr: 2, data: vec![5, 6, 7, 8], perm: 2 },
                    Op::Set32 { addr: 2, value: 0xdeadbeef },
                ];
                self.run_history(ctx, true, &ops, 0, 0x20, "directed");
            }
            _ => {
                let (big, ops, lo, hi) = self.gen_history(rng);
                self.run_history(ctx, big, &ops, lo, hi, "rnd");
            }
        }
    }
}
