//! C06 — Function recovery reproduces sequential machine-code execution.
//!
//! Monitor: generated machine-code programs (7 translators) are lifted with
//! `translate_function_extended` from a memory image, and the resulting CFG is
//! executed by the reference IL interpreter. The oracle executes the same bytes
//! one machine instruction at a time: at each pc it lifts the single instruction
//! found there (falcon's per-instruction lifting, judged by C01/C02/C03) and runs
//! it, then goes where that instruction says. The two executions must perform the
//! same sequence of (instruction address, IL operation) and end the same way.
//! Structural clauses (entry, one block per instruction, no dangling edge) are
//! checked on every recovered function.

use crate::c05::translator;
use crate::fw::*;
use crate::refeval::{self as re, Bv};
use crate::refinterp::{Fault, IntrinsicMode, Key, Machine, StepOut};
use falcon::il::{self, Function, FunctionLocation as Loc};
use falcon::memory::backing::Memory;
use falcon::memory::MemoryPermissions;
use falcon::translator::{BlockTranslationResult, ManualEdge, Options, Translator};
use falcon::architecture::Endian;
use serde_json::{json, Value};
use std::collections::{BTreeMap, BTreeSet, HashMap};

const ARENA: u64 = 0x20_0000;
const ARENA_SIZE: usize = 0x1000;
const OP_BUDGET: usize = 1500;
const STEP_BUDGET: u64 = 20_000;

pub struct C06 {
    thorough: bool,
}
impl C06 {
    pub fn new(t: Tier) -> C06 {
        C06 { thorough: t == Tier::Thorough }
    }
}

// ---------------------------------------------------------------- programs

#[derive(Clone, Debug, PartialEq)]
enum Ctl {
    Plain,
    /// conditional direct branch to item `target` (falls through otherwise)
    Cond(usize),
    /// unconditional direct branch
    Jump(usize),
    /// return / halt: no direct successor
    End,
    /// indirect jump through the reserved register
    Indirect,
}

#[derive(Clone, Debug)]
struct Item {
    bytes: Vec<u8>,
    ctl: Ctl,
    /// x86: relative displacement is 1 or 4 bytes (at the end of `bytes`)
    rel: usize,
    /// MIPS: this item is the delay slot of the previous one
    slot: bool,
}

struct Program {
    arch: &'static str,
    base: u64,
    items: Vec<Item>,
    addrs: Vec<u64>,
    bytes: Vec<u8>,
    /// item index the function starts at
    entry: usize,
    /// (head item, tail item, conditional?)
    manual: Vec<(usize, usize, bool)>,
    /// true target of the reserved indirect-jump register (item index)
    indirect_target: usize,
    /// x86 only: byte offset added to a branch target so that it lands inside an instruction
    overlap: bool,
    tags: BTreeSet<&'static str>,
}

fn is_x86(a: &str) -> bool {
    a == "x86" || a == "amd64"
}
fn big_endian_code(a: &str) -> bool {
    a == "mips" || a == "ppc"
}
fn big_endian_data(a: &str) -> bool {
    a == "mips" || a == "ppc" || a == "aarch64eb"
}
fn word(a: &str, w: u32) -> Vec<u8> {
    if big_endian_code(a) {
        w.to_be_bytes().to_vec()
    } else {
        w.to_le_bytes().to_vec()
    }
}

/// name of the register reserved for indirect jumps
fn jreg(a: &str) -> &'static str {
    match a {
        "x86" => "ebp",
        "amd64" => "rbp",
        "mips" | "mipsel" => "$t9",
        "ppc" => "ctr",
        _ => "x17",
    }
}
fn jreg_bits(a: &str) -> usize {
    match a {
        "amd64" | "aarch64" | "aarch64eb" => 64,
        _ => 32,
    }
}

// ---- x86

const X86_CC: [u8; 14] = [0, 1, 2, 3, 4, 5, 6, 7, 8, 9, 0xc, 0xd, 0xe, 0xf];

fn x86_dst(rng: &mut Rng, m64: bool) -> u8 {
    loop {
        let r = rng.below(if m64 { 16 } else { 8 }) as u8;
        if r != 3 && r != 4 && r != 5 {
            return r;
        }
    }
}
fn x86_src(rng: &mut Rng, m64: bool) -> u8 {
    rng.below(if m64 { 16 } else { 8 }) as u8
}
/// [rex] opcode modrm(mod=11)
fn x86_rr(m64: bool, w: bool, op: &[u8], reg: u8, rm: u8) -> Vec<u8> {
    let mut v = Vec::new();
    let rex = 0x40 | (w as u8) << 3 | (reg >> 3) << 2 | (rm >> 3);
    if m64 && rex != 0x40 {
        v.push(rex);
    }
    v.extend_from_slice(op);
    v.push(0xc0 | (reg & 7) << 3 | (rm & 7));
    v
}
fn x86_plain(rng: &mut Rng, m64: bool) -> Vec<u8> {
    let w = m64 && rng.chance(1, 3);
    let d = x86_dst(rng, m64);
    let s = x86_src(rng, m64);
    match rng.below(19) {
        // direction flag and string instructions: what a string instruction does depends on a flag set by an
        // earlier instruction, possibly of another block that shares it
        17 => vec![if rng.bool() { 0xfc } else { 0xfd }],
        18 => match rng.below(6) {
            0 => vec![0xa4],
            1 => vec![0xaa],
            2 => vec![0xac],
            3 => vec![0xae],
            4 => vec![0xab],
            _ => vec![0xa5],
        },
        0 => {
            let mut v = Vec::new();
            if d >= 8 {
                v.push(0x41);
            }
            v.push(0xb8 + (d & 7));
            let imm = if rng.bool() { rng.below(6) as u32 } else { rng.corner64(32) as u32 };
            v.extend_from_slice(&imm.to_le_bytes());
            v
        }
        1 | 2 => {
            let op = *rng.pick(&[0x01u8, 0x29, 0x31, 0x21, 0x09, 0x39, 0x85, 0x11, 0x19]);
            x86_rr(m64, w, &[op], s, d)
        }
        3 => {
            let n = *rng.pick(&[0u8, 1, 4, 5, 6, 7]);
            let mut v = x86_rr(m64, w, &[0x83], n, d);
            v.push(rng.corner64(8) as u8);
            v
        }
        4 => {
            if !m64 && rng.bool() {
                vec![if rng.bool() { 0x40 } else { 0x48 } + d]
            } else {
                x86_rr(m64, w, &[0xff], rng.below(2) as u8, d)
            }
        }
        5 => {
            // lea d, [rbx + disp8]
            let mut v = Vec::new();
            let rex = 0x40 | (w as u8) << 3 | (d >> 3) << 2;
            if m64 && rex != 0x40 {
                v.push(rex);
            }
            v.extend_from_slice(&[0x8d, 0x40 | (d & 7) << 3 | 3, rng.below(128) as u8]);
            v
        }
        6 | 7 => {
            // mov [rbx+disp8], s / mov d, [rbx+disp8]
            let store = rng.bool();
            let r = if store { s } else { d };
            let mut v = Vec::new();
            let rex = 0x40 | (w as u8) << 3 | (r >> 3) << 2;
            if m64 && rex != 0x40 {
                v.push(rex);
            }
            v.extend_from_slice(&[if store { 0x89 } else { 0x8b }, 0x40 | (r & 7) << 3 | 3, rng.below(120) as u8]);
            v
        }
        8 => {
            let n = *rng.pick(&[4u8, 5, 7]);
            let mut v = x86_rr(m64, w, &[0xc1], n, d);
            v.push(rng.below(9) as u8);
            v
        }
        9 => x86_rr(m64, w, &[0x0f, 0xaf], d, s),
        10 => match rng.below(7) {
            0 => vec![0x90],
            1 => vec![0x66, 0x90],
            2 => vec![0x0f, 0x1f, 0x00],
            3 => vec![0x0f, 0x1f, 0x40, 0x00],
            4 => vec![0x0f, 0x1f, 0x44, 0x00, 0x00],
            5 => vec![0x66, 0x0f, 0x1f, 0x44, 0x00, 0x00],
            _ => vec![0x0f, 0x1f, 0x80, 0x00, 0x00, 0x00, 0x00],
        },
        11 => {
            let cc = *rng.pick(&X86_CC);
            if rng.bool() {
                x86_rr(m64, w, &[0x0f, 0x40 + cc], d, s)
            } else {
                vec![0x0f, 0x90 + cc, 0xc0 | rng.below(3) as u8]
            }
        }
        12 => {
            // push s / pop d
            let mut v = Vec::new();
            let (r, op) = if rng.bool() { (s, 0x50) } else { (d, 0x58) };
            if r >= 8 {
                v.push(0x41);
            }
            v.push(op + (r & 7));
            v
        }
        13 => x86_rr(m64, false, &[0x0f, 0xb6], d, rng.below(4) as u8),
        14 => x86_rr(m64, w, &[0xf7], if rng.bool() { 2 } else { 3 }, d),
        15 => {
            if m64 && rng.bool() {
                // mov r64, imm64 (10 bytes)
                let mut v = vec![0x48 | (d >> 3), 0xb8 + (d & 7)];
                v.extend_from_slice(&rng.u64().to_le_bytes());
                v
            } else {
                // mov dword [rbx+disp32], imm32 (10 bytes)
                let mut v = vec![0xc7, 0x83];
                v.extend_from_slice(&(rng.below(0x100) as u32 * 4).to_le_bytes());
                v.extend_from_slice(&rng.u32().to_le_bytes());
                v
            }
        }
        _ => {
            // xchg writes both operands: neither may be the base, stack or jump register
            let d2 = x86_dst(rng, m64);
            x86_rr(m64, w, &[0x87], d2, d)
        }
    }
}
fn x86_branch(rng: &mut Rng, target: usize, m64: bool) -> Item {
    let rel = if rng.chance(2, 3) { 1 } else { 4 };
    let _ = m64;
    match rng.below(10) {
        0 | 1 => {
            let bytes = if rel == 1 { vec![0xeb, 0] } else { vec![0xe9, 0, 0, 0, 0] };
            Item { bytes, ctl: Ctl::Jump(target), rel, slot: false }
        }
        2 => Item { bytes: vec![if rng.bool() { 0xe2 } else { 0xe3 }, 0], ctl: Ctl::Cond(target), rel: 1, slot: false },
        _ => {
            let cc = *rng.pick(&X86_CC);
            let bytes = if rel == 1 { vec![0x70 + cc, 0] } else { vec![0x0f, 0x80 + cc, 0, 0, 0, 0] };
            Item { bytes, ctl: Ctl::Cond(target), rel, slot: false }
        }
    }
}

// ---- MIPS

fn mips_dst(rng: &mut Rng) -> u32 {
    loop {
        let r = rng.below(26) as u32; // $0..$t9 excluded below, no $k/$gp/$sp/$fp/$ra
        if r != 16 && r != 25 {
            return r;
        }
    }
}
fn mips_src(rng: &mut Rng) -> u32 {
    rng.below(26) as u32
}
fn mips_plain(rng: &mut Rng) -> u32 {
    let (rs, rt, rd) = (mips_src(rng), mips_src(rng), mips_dst(rng));
    let imm = if rng.bool() { rng.below(8) as u32 } else { rng.corner64(16) as u32 };
    match rng.below(8) {
        0 | 1 => {
            let op = *rng.pick(&[0x09u32, 0x0d, 0x0c, 0x0e, 0x0a, 0x0b]);
            op << 26 | rs << 21 | rd << 16 | imm
        }
        2 | 3 => {
            let f = *rng.pick(&[0x21u32, 0x23, 0x24, 0x25, 0x26, 0x27, 0x2a, 0x2b]);
            rs << 21 | rt << 16 | rd << 11 | f
        }
        4 => {
            let f = *rng.pick(&[0u32, 2, 3]);
            rt << 16 | rd << 11 | (rng.below(32) as u32) << 6 | f
        }
        5 => 0x0f << 26 | rd << 16 | imm,
        6 => {
            // memory access through $s0
            let (op, align) = *rng.pick(&[(0x23u32, 4u32), (0x2b, 4), (0x20, 1), (0x24, 1), (0x28, 1), (0x21, 2), (0x29, 2)]);
            let store = op == 0x2b || op == 0x28 || op == 0x29;
            let r = if store { rt } else { rd };
            op << 26 | 16 << 21 | r << 16 | (rng.below(64) as u32 * align)
        }
        _ => 0,
    }
}
fn mips_branch(rng: &mut Rng) -> (u32, Ctl) {
    let (rs, mut rt) = (mips_src(rng), mips_src(rng));
    if rs == rt {
        // beq $r, $r is the unconditional `b`: generated separately
        rt = (rt + 1) % 16;
    }
    match rng.below(9) {
        0 => (4 << 26, Ctl::Jump(0)),  // b
        1 => (2 << 26, Ctl::Jump(0)),  // j
        2 | 3 => (4 << 26 | rs << 21 | rt << 16, Ctl::Cond(0)),
        4 | 5 => (5 << 26 | rs << 21 | rt << 16, Ctl::Cond(0)),
        6 => ((6 + rng.below(2) as u32) << 26 | rs << 21, Ctl::Cond(0)),
        _ => (1 << 26 | rs << 21 | (rng.below(2) as u32) << 16, Ctl::Cond(0)),
    }
}

// ---- PPC

fn ppc_dst(rng: &mut Rng) -> u32 {
    rng.range(3, 30) as u32
}
fn ppc_src(rng: &mut Rng) -> u32 {
    rng.range(0, 30) as u32
}
fn ppc_plain(rng: &mut Rng, use_ctr: bool) -> u32 {
    let (ra, rb, rt) = (ppc_src(rng), ppc_src(rng), ppc_dst(rng));
    let imm = if rng.bool() { rng.below(8) as u32 } else { rng.corner64(16) as u32 };
    match rng.below(10) {
        0 | 1 => 14 << 26 | rt << 21 | ra << 16 | imm,
        2 => 15 << 26 | rt << 21 | ra << 16 | imm,
        3 => {
            let xo = *rng.pick(&[266u32, 40, 235]);
            31 << 26 | rt << 21 | ra << 16 | rb << 11 | xo << 1
        }
        4 => {
            let xo = *rng.pick(&[28u32, 444, 316]);
            31 << 26 | ra << 21 | rt << 16 | rb << 11 | xo << 1
        }
        5 => {
            let op = *rng.pick(&[24u32, 26]);
            op << 26 | ra << 21 | rt << 16 | imm
        }
        6 => {
            // compares into cr0 or cr7
            let crf = if rng.chance(1, 4) { 7u32 } else { 0 };
            match rng.below(4) {
                0 => 31 << 26 | crf << 23 | ra << 16 | rb << 11,
                1 => 31 << 26 | crf << 23 | ra << 16 | rb << 11 | 32 << 1,
                2 => 11 << 26 | crf << 23 | ra << 16 | imm,
                _ => 10 << 26 | crf << 23 | ra << 16 | imm,
            }
        }
        7 => {
            let (op, align) = *rng.pick(&[(32u32, 4u32), (36, 4), (34, 1), (38, 1)]);
            let r = if op == 36 || op == 38 { ra } else { rt };
            op << 26 | r << 21 | 31 << 16 | rng.below(64) as u32 * align
        }
        8 => 21 << 26 | ra << 21 | rt << 16 | (rng.below(32) as u32) << 11 | (rng.below(32) as u32) << 6 | (rng.below(32) as u32) << 1,
        _ => {
            if use_ctr {
                0x6000_0000
            } else {
                // mtctr ra
                0x7c09_03a6 | ra << 21
            }
        }
    }
}
fn ppc_branch(rng: &mut Rng, use_ctr: bool) -> (u32, Ctl) {
    match rng.below(8) {
        0 | 1 => (18 << 26, Ctl::Jump(0)),
        2 if !use_ctr => (16 << 26 | (if rng.bool() { 16 } else { 18 }) << 21, Ctl::Cond(0)),
        _ => {
            let bo = if rng.bool() { 12u32 } else { 4 };
            let bi = if rng.chance(1, 4) { 28 + rng.below(3) as u32 } else { rng.below(3) as u32 };
            (16 << 26 | bo << 21 | bi << 16, Ctl::Cond(0))
        }
    }
}

// ---- AArch64

fn a64_dst(rng: &mut Rng) -> u32 {
    loop {
        let r = rng.below(28) as u32;
        if r != 17 {
            return r;
        }
    }
}
fn a64_src(rng: &mut Rng) -> u32 {
    rng.below(28) as u32
}
fn a64_plain(rng: &mut Rng) -> u32 {
    let (rn, rm, rd) = (a64_src(rng), a64_src(rng), a64_dst(rng));
    let sf = (rng.chance(3, 4) as u32) << 31;
    let imm12 = if rng.bool() { rng.below(6) as u32 } else { rng.below(0x1000) as u32 };
    match rng.below(10) {
        0 | 1 => {
            let op = *rng.pick(&[0x1100_0000u32, 0x5100_0000, 0x3100_0000, 0x7100_0000]);
            let rd = if op & 0x2000_0000 != 0 && rng.bool() { 31 } else { rd };
            sf | op | imm12 << 10 | rn << 5 | rd
        }
        2 | 3 => {
            let op = *rng.pick(&[0x0b00_0000u32, 0x4b00_0000, 0x0a00_0000, 0x2a00_0000, 0x4a00_0000, 0x6a00_0000, 0x2b00_0000, 0x6b00_0000]);
            sf | op | rm << 16 | rn << 5 | rd
        }
        4 => sf | 0x5280_0000 | (rng.corner64(16) as u32) << 5 | rd,
        5 => sf | 0x7280_0000 | (rng.corner64(16) as u32) << 5 | rd,
        6 => {
            // ldr/str through x28
            let op = *rng.pick(&[0xf940_0000u32, 0xf900_0000, 0xb940_0000, 0xb900_0000]);
            let load = op & 0x0040_0000 != 0;
            op | (rng.below(64) as u32) << 10 | 28 << 5 | if load { rd } else { rn }
        }
        7 => sf | 0x1a80_0000 | rm << 16 | (rng.below(14) as u32) << 12 | rn << 5 | rd,
        8 => sf | 0x1b00_0000 | rm << 16 | a64_src(rng) << 10 | rn << 5 | rd,
        _ => 0xd503_201f,
    }
}
fn a64_branch(rng: &mut Rng) -> (u32, Ctl) {
    let rt = a64_src(rng);
    match rng.below(8) {
        0 | 1 => (0x1400_0000, Ctl::Jump(0)),
        2 | 3 | 4 => (0x5400_0000 | rng.below(14) as u32, Ctl::Cond(0)),
        5 | 6 => ((rng.chance(3, 4) as u32) << 31 | 0x3400_0000 | (rng.below(2) as u32) << 24 | rt, Ctl::Cond(0)),
        _ => {
            let bit = rng.below(64) as u32;
            ((bit >> 5) << 31 | 0x3600_0000 | (rng.below(2) as u32) << 24 | (bit & 31) << 19 | rt, Ctl::Cond(0))
        }
    }
}

// ---- assembling

fn plain(rng: &mut Rng, arch: &str, use_indirect: bool, tr: &dyn Translator) -> Vec<u8> {
    for _ in 0..20 {
        let bytes = match arch {
            "x86" | "amd64" => x86_plain(rng, arch == "amd64"),
            "mips" | "mipsel" => word(arch, mips_plain(rng)),
            "ppc" => word(arch, ppc_plain(rng, use_indirect)),
            _ => word(arch, a64_plain(rng)),
        };
        if supported(tr, arch, &bytes, false) {
            return bytes;
        }
    }
    match arch {
        "x86" | "amd64" => vec![0x90],
        "mips" | "mipsel" => word(arch, 0),
        "ppc" => word(arch, 0x6000_0000),
        _ => word(arch, 0xd503_201f),
    }
}

/// put the displacement to `ta` into the fixed-width branch word `w0` at address `a`
fn patch_word(arch: &str, w0: u32, a: u64, ta: u64) -> u32 {
    match arch {
        "mips" | "mipsel" => {
            if w0 >> 26 == 2 {
                w0 | ((ta >> 2) as u32 & 0x03ff_ffff)
            } else {
                w0 | (((ta as i64 - (a as i64 + 4)) >> 2) as u32 & 0xffff)
            }
        }
        "ppc" => {
            let d = (ta as i64 - a as i64) as u32;
            if w0 >> 26 == 18 {
                w0 | (d & 0x03ff_fffc)
            } else {
                w0 | (d & 0xfffc)
            }
        }
        _ => {
            let d = ((ta as i64 - a as i64) >> 2) as u32;
            if w0 & 0x7c00_0000 == 0x1400_0000 {
                w0 | (d & 0x03ff_ffff)
            } else if w0 & 0x7e00_0000 == 0x3600_0000 {
                w0 | (d & 0x3fff) << 5
            } else {
                w0 | (d & 0x7ffff) << 5
            }
        }
    }
}

/// does falcon lift this single instruction? (the generators only keep what it accepts)
fn supported(tr: &dyn Translator, arch: &str, bytes: &[u8], branch: bool) -> bool {
    let mut b = bytes.to_vec();
    if branch && (arch == "mips" || arch == "mipsel") {
        b.extend_from_slice(&[0, 0, 0, 0]);
    }
    matches!(guard(|| tr.translate_block(&b, 0x40_0000, &Options::new())), Ok(Ok(_)))
}

fn gen_program(rng: &mut Rng, arch: &'static str, thorough: bool, tr: &dyn Translator) -> Program {
    let m64 = arch == "amd64";
    let max_items = if thorough { 120 } else { 70 };
    let n = match rng.below(4) {
        0 => rng.range(2, 8) as usize,
        1 => rng.range(8, 30) as usize,
        _ => rng.range(20, max_items) as usize,
    };
    let use_indirect = rng.chance(1, 4);
    let mut tags: BTreeSet<&'static str> = BTreeSet::new();
    let branchiness = *rng.pick(&[3u64, 6, 12, 30]);
    // skeleton: which items are control transfers
    let mut items: Vec<Item> = Vec::new();
    let mut pending_targets: Vec<usize> = Vec::new();
    let mips = arch == "mips" || arch == "mipsel";
    while items.len() < n {
        let i = items.len();
        let ctl_here = rng.chance(1, branchiness) && i + 2 < n;
        if !ctl_here {
            items.push(Item { bytes: plain(rng, arch, use_indirect, tr), ctl: Ctl::Plain, rel: 0, slot: false });
            continue;
        }
        // target: forward-biased, anywhere in the program
        let target = if rng.chance(7, 10) { rng.range(i as u64, n as u64 - 1) as usize } else { rng.usize(n) };
        let target = if rng.chance(1, 12) { i + 1 } else { target };
        if use_indirect && rng.chance(1, 6) {
            let bytes = match arch {
                "x86" | "amd64" => vec![0xff, 0xe5],
                "mips" | "mipsel" => word(arch, 25 << 21 | 8),
                "ppc" => word(arch, 0x4e80_0420),
                _ => word(arch, 0xd61f_0220),
            };
            items.push(Item { bytes, ctl: Ctl::Indirect, rel: 0, slot: false });
        } else if rng.chance(1, 10) {
            let ret = match arch {
                "x86" | "amd64" => vec![0xc3],
                "mips" | "mipsel" => word(arch, 31 << 21 | 8),
                "ppc" => word(arch, 0x4e80_0020),
                _ => word(arch, 0xd65f_03c0),
            };
            // half of the time a direct call instead of a return: it too hands control to another function (a
            // `Branch` operation), wherever in a block or translation window it happens to stand
            let d = rng.below(64) as u32;
            let call = match arch {
                "x86" | "amd64" => {
                    let mut v = vec![0xe8];
                    v.extend_from_slice(&(d.wrapping_sub(32) as i32).to_le_bytes());
                    v
                }
                "mips" | "mipsel" => word(arch, if rng.bool() { 3 << 26 | (0x0010_0000 + d) } else { 0x0411_0000 | d }),
                "ppc" => word(arch, 18 << 26 | (d << 2) | 1),
                _ => word(arch, 0x9400_0000 | d),
            };
            let bytes = if rng.bool() && supported(tr, arch, &call, true) {
                tags.insert("call");
                call
            } else {
                ret
            };
            items.push(Item { bytes, ctl: Ctl::End, rel: 0, slot: false });
        } else {
            let mut tries = 0;
            loop {
                tries += 1;
                let item = match arch {
                    "x86" | "amd64" => x86_branch(rng, target, m64),
                    _ => {
                        let (w, ctl) = match arch {
                            "mips" | "mipsel" => mips_branch(rng),
                            "ppc" => ppc_branch(rng, use_indirect),
                            _ => a64_branch(rng),
                        };
                        let ctl = match ctl {
                            Ctl::Cond(_) => Ctl::Cond(target),
                            Ctl::Jump(_) => Ctl::Jump(target),
                            c => c,
                        };
                        Item { bytes: word(arch, w), ctl, rel: 0, slot: false }
                    }
                };
                // judge support with a real displacement (some decoders print a zero one differently)
                let probe = if is_x86(arch) {
                    item.bytes.clone()
                } else {
                    let w0 = if big_endian_code(arch) { u32::from_be_bytes(item.bytes[..4].try_into().unwrap()) } else { u32::from_le_bytes(item.bytes[..4].try_into().unwrap()) };
                    word(arch, patch_word(arch, w0, 0x40_0000, 0x40_0010))
                };
                if supported(tr, arch, &probe, true) {
                    items.push(item);
                    break;
                }
                if tries > 40 {
                    items.push(Item { bytes: plain(rng, arch, use_indirect, tr), ctl: Ctl::Plain, rel: 0, slot: false });
                    break;
                }
            }
        }
        pending_targets.push(target);
        if mips && items.last().map(|i| i.ctl != Ctl::Plain).unwrap_or(false) {
            // delay slot: a plain instruction that does not write the jump registers
            items.push(Item { bytes: plain(rng, arch, use_indirect, tr), ctl: Ctl::Plain, rel: 0, slot: true });
        }
    }
    // terminate: the last item returns
    let bytes = match arch {
        "x86" | "amd64" => vec![0xc3],
        "mips" | "mipsel" => word(arch, 31 << 21 | 8),
        "ppc" => word(arch, 0x4e80_0020),
        _ => word(arch, 0xd65f_03c0),
    };
    items.push(Item { bytes, ctl: Ctl::End, rel: 0, slot: false });
    if mips {
        items.push(Item { bytes: word(arch, 0), ctl: Ctl::Plain, rel: 0, slot: true });
        // a final return after the last slot so that falling out of a slot reached by a branch ends
        items.push(Item { bytes: word(arch, 31 << 21 | 8), ctl: Ctl::End, rel: 0, slot: false });
        items.push(Item { bytes: word(arch, 0), ctl: Ctl::Plain, rel: 0, slot: true });
    }
    let n = items.len();
    // clamp targets; MIPS: targets that are delay slots are rare and tagged
    for i in 0..n {
        let t = match items[i].ctl {
            Ctl::Cond(t) | Ctl::Jump(t) => t.min(n - 1),
            _ => continue,
        };
        let mut t = t;
        if mips && items[t].slot {
            if rng.chance(1, 12) {
                tags.insert("into_slot");
            } else {
                t -= 1;
            }
        }
        items[i].ctl = match items[i].ctl {
            Ctl::Cond(_) => Ctl::Cond(t),
            _ => Ctl::Jump(t),
        };
    }
    // base address: any alignment relative to the 64-byte window
    let align = if is_x86(arch) { 1 } else { 4 };
    let wide = matches!(arch, "amd64" | "aarch64" | "aarch64eb");
    let base = match rng.below(5) {
        // beyond the sign bit of a 32-bit address; for the 64-bit translators far above 4 GiB
        4 => (if wide { 0x7f12_3440_0000 } else { 0x9040_0000 }) + rng.below(64 / align) * align,
        0 => 0x40_0000,
        1 => 0x40_0000 + rng.below(64 / align) * align,
        2 => 0x1000 - rng.below(8) * align,
        _ => 0x0804_8000 + rng.below(4096 / align) * align,
    };
    // layout (x86: relax rel8 -> rel32 until everything fits)
    let mut addrs: Vec<u64>;
    loop {
        addrs = Vec::with_capacity(n);
        let mut a = base;
        for it in &items {
            addrs.push(a);
            a += it.bytes.len() as u64;
        }
        let mut changed = false;
        if is_x86(arch) {
            for i in 0..n {
                let t = match items[i].ctl {
                    Ctl::Cond(t) | Ctl::Jump(t) => t,
                    _ => continue,
                };
                if items[i].rel == 1 {
                    let d = addrs[t] as i64 - (addrs[i] as i64 + items[i].bytes.len() as i64);
                    if d < -120 || d > 120 {
                        // widen
                        let op = items[i].bytes[0];
                        let nb = match op {
                            0xeb => vec![0xe9, 0, 0, 0, 0],
                            0xe2 | 0xe3 => vec![0x0f, 0x85, 0, 0, 0, 0],
                            _ => vec![0x0f, 0x80 + (op & 0xf), 0, 0, 0, 0],
                        };
                        items[i].bytes = nb;
                        items[i].rel = 4;
                        changed = true;
                    }
                }
            }
        }
        if !changed {
            break;
        }
    }
    // x86: some branches aim inside the target instruction
    let overlap = is_x86(arch) && rng.chance(1, 10);
    // patch displacements
    for i in 0..n {
        let t = match items[i].ctl {
            Ctl::Cond(t) | Ctl::Jump(t) => t,
            _ => continue,
        };
        let mut ta = addrs[t];
        if overlap && items[t].bytes.len() > 1 && rng.chance(1, 3) {
            ta += rng.range(1, items[t].bytes.len() as u64 - 1);
            tags.insert("overlap");
        }
        let a = addrs[i];
        match arch {
            "x86" | "amd64" => {
                let len = items[i].bytes.len();
                let d = ta as i64 - (a as i64 + len as i64);
                if items[i].rel == 1 {
                    items[i].bytes[len - 1] = d as i8 as u8;
                } else {
                    items[i].bytes[len - 4..].copy_from_slice(&(d as i32).to_le_bytes());
                }
            }
            _ => {
                let w0 = if big_endian_code(arch) { u32::from_be_bytes(items[i].bytes[..4].try_into().unwrap()) } else { u32::from_le_bytes(items[i].bytes[..4].try_into().unwrap()) };
                items[i].bytes = word(arch, patch_word(arch, w0, a, ta));
            }
        }
    }
    let mut bytes = Vec::new();
    for it in &items {
        bytes.extend_from_slice(&it.bytes);
    }
    // function entry: usually the first item
    let mut entry = if rng.chance(1, 5) { rng.usize(n) } else { 0 };
    if items[entry].slot {
        entry -= 1;
    }
    // manual edges for indirect jumps (always including the true target), sometimes decoys elsewhere
    let pick_nonslot = |rng: &mut Rng, items: &Vec<Item>| {
        let mut t = rng.usize(items.len());
        if items[t].slot {
            t -= 1;
        }
        t
    };
    let indirect_target = pick_nonslot(rng, &items);
    let mut manual = Vec::new();
    let with_manual = use_indirect && rng.chance(3, 4);
    if with_manual {
        for i in 0..n {
            if items[i].ctl == Ctl::Indirect {
                let ndecoy = rng.below(3);
                if ndecoy == 0 && rng.bool() {
                    manual.push((i, indirect_target, false));
                } else {
                    manual.push((i, indirect_target, true));
                    for _ in 0..ndecoy {
                        let t = pick_nonslot(rng, &items);
                        if t != indirect_target {
                            manual.push((i, t, true));
                        }
                    }
                }
            }
        }
        if !manual.is_empty() {
            tags.insert("manual");
        }
    }
    // (on ppc the jump register is ctr, which programs without indirect jumps write and count down: no decoys there)
    if rng.chance(1, 8) && (arch != "ppc" || use_indirect) {
        // a never-taken manual edge between arbitrary instructions: only splits blocks
        let h = pick_nonslot(rng, &items);
        let t = pick_nonslot(rng, &items);
        // (not at a return or call: their Branch stays in the function exactly when a manual edge names its target,
        // and a decoy's tail could be a direct call's target)
        if items[h].ctl != Ctl::Indirect && items[h].ctl != Ctl::End && t != indirect_target && !manual.iter().any(|m| m.0 == h) {
            manual.push((h, t, true));
            tags.insert("manual_decoy");
        }
    }
    if items.iter().any(|i| i.ctl == Ctl::Indirect) {
        tags.insert("indirect");
    }
    Program { arch, base, items, addrs, bytes, entry, manual, indirect_target, overlap, tags }
}

// ---------------------------------------------------------------- execution

#[derive(Clone, Debug, PartialEq)]
enum End {
    /// no successor: returned / fell off the image / halted
    Terminal,
    /// left the recovered function through an indirect transfer to this address
    Indirect(u64),
    Fault(String),
    OpBudget,
    /// could not be judged (step budget, lift error on the oracle side)
    Unjudged(String),
}

struct St {
    scalars: HashMap<Key, Bv>,
    mem: BTreeMap<u64, u8>,
    big: bool,
    seed: u64,
    overrides: HashMap<String, u64>,
}

fn mixh(mut x: u64) -> u64 {
    x ^= x >> 33;
    x = x.wrapping_mul(0xff51_afd7_ed55_8ccd);
    x ^= x >> 33;
    x = x.wrapping_mul(0xc4ce_b9fe_1a85_ec53);
    x ^ (x >> 33)
}

impl St {
    fn init_val(&self, name: &str, bits: usize) -> Bv {
        if let Some(v) = self.overrides.get(name) {
            return Bv::from_u64(*v, bits);
        }
        let mut h = self.seed;
        for b in name.bytes() {
            h = mixh(h ^ b as u64);
        }
        let v = match h % 8 {
            0 => 0,
            1 => 1,
            2 => mixh(h) % 6,
            3 => u64::MAX,
            4 => 1u64 << 31,
            _ => mixh(h),
        };
        if bits <= 64 {
            Bv::from_u64(v, bits)
        } else {
            Bv::from_u128((v as u128) << 64 | mixh(v) as u128, bits)
        }
    }
    fn ensure(&mut self, s: &il::Scalar) {
        let k = (s.name().to_string(), None);
        if !self.scalars.contains_key(&k) {
            let v = self.init_val(s.name(), s.bits());
            self.scalars.insert(k, v);
        }
    }
    fn ensure_graph(&mut self, f: &Function) {
        for b in f.blocks() {
            for i in b.instructions() {
                if let Some(ss) = i.scalars() {
                    for s in ss {
                        self.ensure(s);
                    }
                }
            }
        }
        for e in f.edges() {
            if let Some(c) = e.condition() {
                for s in c.scalars() {
                    self.ensure(s);
                }
            }
        }
    }
}

fn ophash(s: &str) -> u64 {
    let mut h: u64 = 0xcbf2_9ce4_8422_2325;
    for b in s.bytes() {
        h = (h ^ b as u64).wrapping_mul(0x100_0000_01b3);
    }
    h
}

type Trace = Vec<(u64, u64)>;

/// how a run over one graph stopped
enum GraphEnd {
    Terminal,
    /// executed a Branch as the last thing in a block without usable out-edges
    Branched(u64),
    Fault(Fault),
    OpBudget,
    StepBudget,
}

/// Run `f` from its entry until it ends.
fn run_graph(f: &Function, st: &mut St, trace: &mut Trace, texts: Option<&mut Vec<String>>, follow: &dyn Fn(u64, u64) -> bool) -> GraphEnd {
    let mut m = match Machine::new(f, st.big, false) {
        Some(m) => m,
        None => return GraphEnd::Fault(Fault::BadLocation("no entry".into())),
    };
    m.intrinsics = IntrinsicMode::Fault;
    m.scalars = std::mem::take(&mut st.scalars);
    m.mem = std::mem::take(&mut st.mem);
    let mut texts = texts;
    let end;
    loop {
        if trace.len() >= OP_BUDGET {
            end = GraphEnd::OpBudget;
            break;
        }
        if m.steps >= STEP_BUDGET {
            end = GraphEnd::StepBudget;
            break;
        }
        let loc = m.loc.clone();
        let mut here: Option<(usize, bool)> = None;
        if let Loc::Instruction(b, i) = &loc {
            if let Ok(block) = f.block(*b) {
                if let Some(ins) = block.instruction(*i) {
                    let text = format!("{}", ins.operation());
                    trace.push((ins.address().unwrap_or(u64::MAX), ophash(&text)));
                    if let Some(t) = texts.as_deref_mut() {
                        t.push(format!("{:x}: {}", ins.address().unwrap_or(u64::MAX), text));
                    }
                    let last = block.instructions().last().map(|l| l.index()) == Some(*i);
                    here = Some((*b, last));
                }
            }
        }
        match m.step(f) {
            StepOut::Moved => {}
            StepOut::Terminal => {
                end = GraphEnd::Terminal;
                break;
            }
            StepOut::Branched(t) => {
                // A Branch hands control to the address it computes (falcon's executor semantics).
                // It stays inside this graph only through a requested manual edge of its block to
                // that address; `follow` says whether one was requested.
                let (b, last) = here.unwrap_or((0, true));
                let from = trace.last().map(|x| x.0).unwrap_or(u64::MAX);
                if !follow(from, t) {
                    end = GraphEnd::Branched(t);
                    break;
                }
                if !last {
                    // the block of the manual edge's tail was merged into this one
                    if let Loc::Instruction(_, i) = &loc {
                        let block = f.block(b).unwrap();
                        let pos = block.instructions().iter().position(|x| x.index() == *i).unwrap();
                        m.continue_at(Loc::Instruction(b, block.instructions()[pos + 1].index()));
                    }
                    continue;
                }
                m.continue_at(Loc::EmptyBlock(b));
                match m.step(f) {
                    StepOut::Moved => {}
                    StepOut::Terminal => {
                        end = GraphEnd::Fault(Fault::NoGuard);
                        break;
                    }
                    StepOut::Fault(fl) => {
                        end = GraphEnd::Fault(fl);
                        break;
                    }
                    StepOut::Branched(_) => unreachable!(),
                }
            }
            StepOut::Fault(fl) => {
                end = GraphEnd::Fault(fl);
                break;
            }
        }
    }
    st.scalars = std::mem::take(&mut m.scalars);
    st.mem = std::mem::take(&mut m.mem);
    end
}

fn fault_name(f: &Fault) -> String {
    match f {
        Fault::Unmapped(a) => format!("unmapped:{:x}", a),
        other => other.kind().to_string(),
    }
}

/// One lifted machine instruction (MIPS: a branch together with its delay slot).
struct Step {
    graphs: Vec<(u64, Function)>,
    /// Some(successors) when this instruction ends a block; None = fall through to `next`
    successors: Option<Vec<(u64, Option<il::Expression>)>>,
    next: u64,
}

struct Oracle<'a> {
    p: &'a Program,
    tr: Box<dyn Translator>,
    options: Options,
    cache: HashMap<u64, Result<Step, String>>,
}

/// MIPS: falcon labels the transfer part of a branch at A with the address A+1
fn norm(arch: &str, a: u64) -> u64 {
    if arch == "mips" || arch == "mipsel" {
        a & !3
    } else {
        a
    }
}

fn mips_is_branch(w: u32) -> bool {
    let op = w >> 26;
    matches!(op, 1..=7 | 20..=23) || (op == 0 && matches!(w & 0x3f, 8 | 9))
}

impl<'a> Oracle<'a> {
    fn lift(&mut self, pc: u64) -> &Result<Step, String> {
        if !self.cache.contains_key(&pc) {
            let r = self.lift_uncached(pc);
            self.cache.insert(pc, r);
        }
        &self.cache[&pc]
    }
    fn lift_uncached(&self, pc: u64) -> Result<Step, String> {
        let p = self.p;
        let end = p.base + p.bytes.len() as u64;
        if pc < p.base || pc >= end {
            return Err("off_image".into());
        }
        let off = (pc - p.base) as usize;
        let arch = p.arch;
        let mut window = if is_x86(arch) { 15 } else { 4 };
        let mipsb = (arch == "mips" || arch == "mipsel") && off + 4 <= p.bytes.len() && {
            let b: [u8; 4] = p.bytes[off..off + 4].try_into().unwrap();
            mips_is_branch(if arch == "mips" { u32::from_be_bytes(b) } else { u32::from_le_bytes(b) })
        };
        if mipsb {
            window = 8;
        }
        let bytes = &p.bytes[off..(off + window).min(p.bytes.len())];
        let btr: BlockTranslationResult = match guard(|| self.tr.translate_block(bytes, pc, &self.options)) {
            Err(pi) => return Err(format!("panic:{}", pi.site())),
            Ok(Err(e)) => return Err(format!("error:{}", format!("{}", e).chars().take(60).collect::<String>())),
            Ok(Ok(b)) => b,
        };
        let ins = btr.instructions();
        if ins.is_empty() {
            return Err("no_instruction".into());
        }
        // MIPS: a branch is lifted as three graphs: the condition at A, the delay slot at A+4 and
        // the transfer itself, which falcon labels A+1
        let take = if mipsb {
            if ins.len() >= 3 && ins[2].0 == pc + 1 {
                3
            } else {
                return Err("mips_branch_shape".into());
            }
        } else {
            1
        };
        let graphs: Vec<(u64, Function)> = ins[..take].iter().map(|(a, g)| (*a, Function::new(*a, g.clone()))).collect();
        if ins.len() > take {
            Ok(Step { graphs, successors: None, next: ins[take].0 })
        } else {
            Ok(Step { graphs, successors: Some(btr.successors().clone()), next: pc + btr.length() as u64 })
        }
    }
}

/// Execute the program one machine instruction at a time.
fn run_oracle(o: &mut Oracle, st: &mut St, start: u64, trace: &mut Trace, mut texts: Option<&mut Vec<String>>) -> End {
    let mut pc = start;
    let mut steps = 0u64;
    let manual: Vec<(u64, u64)> = o.p.manual.iter().map(|m| (o.p.addrs[m.0], o.p.addrs[m.1])).collect();
    loop {
        steps += 1;
        if steps > STEP_BUDGET {
            return End::Unjudged("oracle_step_budget".into());
        }
        if trace.len() >= OP_BUDGET {
            return End::OpBudget;
        }
        let step = match o.lift(pc) {
            Ok(s) => s,
            Err(e) if e == "off_image" => return End::Terminal,
            Err(e) => return End::Unjudged(format!("oracle_lift:{}", e)),
        };
        let mut branched: Option<u64> = None;
        for (_, g) in &step.graphs {
            st.ensure_graph(g);
            match run_graph(g, st, trace, texts.as_deref_mut(), &|_, _| false) {
                GraphEnd::Terminal => {}
                GraphEnd::Branched(t) => branched = Some(t),
                GraphEnd::Fault(f) => return End::Fault(fault_name(&f)),
                GraphEnd::OpBudget => return End::OpBudget,
                GraphEnd::StepBudget => return End::Unjudged("oracle_step_budget".into()),
            }
        }
        if let Some(t) = branched {
            // a Branch hands control to its target; that stays inside the function only through a
            // manual edge requested for this instruction
            if manual.iter().any(|(h, tl)| *h == pc && *tl == t) {
                pc = t;
                continue;
            }
            return End::Indirect(t);
        }
        let succ = match &step.successors {
            None => {
                pc = step.next;
                continue;
            }
            Some(s) => s,
        };
        if succ.is_empty() {
            return End::Terminal;
        }
        // evaluate successor conditions
        for (_, cond) in succ {
            if let Some(c) = cond {
                for s in c.scalars() {
                    st.ensure(s);
                }
            }
        }
        let sc = &st.scalars;
        let mut enabled: Vec<u64> = Vec::new();
        for (addr, cond) in succ {
            match cond {
                None => enabled.push(*addr),
                Some(c) => match re::eval(c, &|s| sc.get(&(s.name().to_string(), None)).cloned()) {
                    Ok(v) if v.bits == 1 => {
                        if v.is_one() {
                            enabled.push(*addr);
                        }
                    }
                    Ok(_) => return End::Unjudged("oracle_successor_sort".into()),
                    Err(_) => return End::Unjudged("oracle_successor_eval".into()),
                },
            }
        }
        enabled.dedup();
        if enabled.len() != 1 {
            return End::Unjudged(format!("oracle_successors_enabled_{}", enabled.len()));
        }
        pc = enabled[0];
    }
}

// ---------------------------------------------------------------- check

impl C06 {
    fn one(&mut self, ctx: &mut Ctx, rng: &mut Rng) {
        let arch: &'static str = crate::c05::TRANSLATORS[rng.usize(7)];
        let tr = translator(arch);
        let p = gen_program(rng, arch, self.thorough, tr.as_ref());
        let n = p.items.len();
        let entry_addr = p.addrs[p.entry];
        let tags: String = p.tags.iter().map(|t| format!(":{}", t)).collect();
        ctx.trace(|| format!("{} base={:x} entry={:x} bytes={}", arch, p.base, entry_addr, hex(&p.bytes)));
        // ---- lift the function
        let endian = if big_endian_data(arch) { Endian::Big } else { Endian::Little };
        let mut memory = Memory::new(endian.clone());
        if p.bytes.len() >= 2 && rng.chance(1, 3) {
            // the image as two adjacent sections (an instruction, or a translation window, may straddle them)
            let cut = 1 + rng.usize(p.bytes.len() - 1);
            let rx = MemoryPermissions::READ | MemoryPermissions::EXECUTE;
            memory.set_memory(p.base, p.bytes[..cut].to_vec(), rx);
            memory.set_memory(p.base + cut as u64, p.bytes[cut..].to_vec(), if rng.bool() { rx } else { MemoryPermissions::ALL });
            ctx.count("images_in_two_sections");
        } else {
            memory.set_memory(p.base, p.bytes.clone(), MemoryPermissions::READ | MemoryPermissions::EXECUTE);
        }
        let mut options = Options::new();
        if p.overlap {
            options.set_unsupported_are_intrinsics(true);
        }
        let jr = il::scalar(jreg(arch), jreg_bits(arch));
        for (h, t, conditional) in &p.manual {
            let cond = if *conditional {
                Some(il::Expression::cmpeq(jr.clone().into(), il::expr_const(p.addrs[*t], jreg_bits(arch))).unwrap())
            } else {
                None
            };
            options.add_manual_edge(ManualEdge::new(p.addrs[*h], p.addrs[*t], cond));
        }
        let describe = |p: &Program| -> Value {
            json!({"arch": p.arch, "base": format!("0x{:x}", p.base), "entry": format!("0x{:x}", entry_addr), "bytes": hex(&p.bytes),
                "manual_edges": p.manual.iter().map(|m| format!("0x{:x}->0x{:x}{}", p.addrs[m.0], p.addrs[m.1], if m.2 {" if jreg==tail"} else {""})).collect::<Vec<_>>(),
                "jreg": format!("{}=0x{:x}", jreg(p.arch), p.addrs[p.indirect_target]), "items": p.items.len()})
        };
        // One program in four is lifted from the executor's memory instead (a paged memory over a backing, the other
        // implementor of TranslationMemory): the backing holds the image with stretches of stale bytes, the right
        // bytes of those stretches are stored on top (patched code), at random places including stretches that start
        // exactly at a 1024-byte page boundary while the page before is never stored to.
        let patched: Option<falcon::executor::Memory> = if rng.chance(1, 4) {
            let mut stale = p.bytes.clone();
            let mut patches: Vec<(usize, usize)> = Vec::new();
            for _ in 0..1 + rng.usize(3) {
                let start = if rng.bool() {
                    // the first image byte that lies on a page boundary, if any
                    (0..p.bytes.len()).find(|k| (p.base + *k as u64) % 1024 == 0).unwrap_or_else(|| rng.usize(p.bytes.len()))
                } else {
                    rng.usize(p.bytes.len())
                };
                let len = (1 + rng.usize(24)).min(p.bytes.len() - start);
                for k in start..start + len {
                    stale[k] = stale[k].wrapping_add(1 + rng.below(255) as u8);
                }
                patches.push((start, len));
            }
            let mut b = Memory::new(endian.clone());
            b.set_memory(p.base, stale, MemoryPermissions::READ | MemoryPermissions::EXECUTE);
            let mut m = falcon::executor::Memory::new_with_backing(endian.clone(), falcon::RC::new(b));
            for (start, len) in &patches {
                for k in *start..*start + *len {
                    m.store(p.base + k as u64, il::const_(p.bytes[k] as u64, 8)).unwrap();
                }
            }
            ctx.count("images_in_executor_memory_with_patched_stretches");
            Some(m)
        } else {
            None
        };
        let lifted = match &patched {
            Some(m) => guard(|| tr.translate_function_extended(m, entry_addr, &options)),
            None => guard(|| tr.translate_function_extended(&memory, entry_addr, &options)),
        };
        ctx.eval();
        let function = match lifted {
            Err(pi) => {
                ctx.panic_violation(&format!("{}:translate_function{}", arch, tags), &pi, describe(&p));
                return;
            }
            Ok(Err(e)) => {
                if p.overlap {
                    ctx.count("overlap_program_not_lifted(not judged)");
                } else {
                    ctx.violation(&format!("{}:function_lift_error{}", arch, tags), json!({"program": describe(&p), "error": format!("{}", e).chars().take(200).collect::<String>()}));
                }
                return;
            }
            Ok(Ok(f)) => f,
        };
        // ---- structure
        let mut problems: Vec<(String, String)> = Vec::new();
        let cfg = function.control_flow_graph();
        let block_ids: BTreeSet<usize> = cfg.blocks().iter().map(|b| b.index()).collect();
        if function.address() != entry_addr {
            problems.push(("function_address".into(), format!("{:x}", function.address())));
        }
        let mut entry_first: Option<u64> = None;
        match cfg.entry() {
            None => problems.push(("no_entry".into(), String::new())),
            Some(e) if !block_ids.contains(&e) => problems.push(("entry_names_missing_block".into(), format!("{}", e))),
            Some(e) => {
                entry_first = cfg.block(e).ok().and_then(|b| b.instructions().first().and_then(|i| i.address()));
            }
        }
        for e in cfg.edges() {
            if !block_ids.contains(&e.head()) || !block_ids.contains(&e.tail()) {
                problems.push(("edge_names_missing_block".into(), format!("{}->{}", e.head(), e.tail())));
            }
        }
        // IL operations per machine instruction address
        let mut owner: BTreeMap<u64, usize> = BTreeMap::new();
        for b in cfg.blocks() {
            for i in b.instructions() {
                if let Some(a) = i.address() {
                    *owner.entry(norm(arch, a)).or_default() += 1;
                }
            }
        }
        let mut oracle = Oracle { p: &p, tr: translator(arch), options: { let mut o = Options::new(); o.set_unsupported_are_intrinsics(p.overlap); o }, cache: HashMap::new() };
        // the entry block starts with the function's first instruction (when that instruction has IL at all)
        {
            let entry_has_il = match oracle.lift(entry_addr) {
                Ok(st) => st.graphs.iter().any(|(ga, g)| *ga == entry_addr && g.blocks().iter().any(|b| !b.instructions().is_empty())),
                Err(_) => false,
            };
            if entry_has_il && entry_first != Some(entry_addr) {
                problems.push(("entry_block_is_not_function_address".into(), format!("entry block starts at {:x?}", entry_first)));
            }
        }
        if !p.overlap {
            // statically reachable items through direct branches (and requested manual edges)
            let mut reach: BTreeSet<usize> = BTreeSet::new();
            let mut stack = vec![p.entry];
            for m in &p.manual {
                stack.push(m.0);
                stack.push(m.1);
            }
            while let Some(i) = stack.pop() {
                if i >= n || !reach.insert(i) {
                    continue;
                }
                let mips = arch == "mips" || arch == "mipsel";
                match p.items[i].ctl {
                    Ctl::Plain => stack.push(i + 1),
                    Ctl::Cond(t) => {
                        stack.push(t);
                        stack.push(i + 1);
                        if mips {
                            stack.push(i + 2);
                        }
                    }
                    Ctl::Jump(t) => {
                        stack.push(t);
                        if mips {
                            reach.insert(i + 1);
                        }
                    }
                    Ctl::End | Ctl::Indirect => {
                        if mips {
                            reach.insert(i + 1);
                        }
                    }
                }
            }
            for i in &reach {
                let a = p.addrs[*i];
                let nops = match oracle.lift(a) {
                    Ok(s) => s.graphs.iter().filter(|(ga, _)| norm(arch, *ga) == a).map(|(_, g)| g.blocks().iter().map(|b| b.instructions().len()).sum::<usize>()).sum::<usize>(),
                    Err(_) => continue,
                };
                let have = owner.get(&a).copied().unwrap_or(0);
                if nops > 0 && have == 0 {
                    problems.push(("reachable_instruction_missing".into(), format!("{:x}", a)));
                    break;
                }
                if have != nops {
                    problems.push(("instruction_not_exactly_once".into(), format!("{:x}: {} IL operations in the function, {} in the instruction", a, have, nops)));
                    break;
                }
            }
            let reach_addrs: BTreeSet<u64> = reach.iter().map(|i| p.addrs[*i]).collect();
            // (the recovered function may contain more, e.g. code after a call-like instruction: not judged)
            if owner.keys().any(|a| !reach_addrs.contains(a)) {
                ctx.count("functions_with_code_beyond_direct_reach");
            }
        }
        if let Some((kind, what)) = problems.first() {
            ctx.violation(&format!("{}:structure:{}{}", arch, kind, tags), json!({"program": describe(&p), "problem": what}));
            return;
        }
        ctx.count("functions_lifted");
        let window_crossing = {
            // a straight-line run of more than 64 bytes
            let mut run = 0usize;
            let mut longest = 0usize;
            for it in &p.items {
                run += it.bytes.len();
                longest = longest.max(run);
                if it.ctl != Ctl::Plain {
                    run = 0;
                }
            }
            longest > 64
        };
        let midblock = p.items.iter().any(|it| match it.ctl {
            Ctl::Cond(t) | Ctl::Jump(t) => t > 0 && p.items[t - 1].ctl == Ctl::Plain && !p.items[t - 1].slot,
            _ => false,
        });
        let manual_addrs: Vec<(u64, u64)> = p.manual.iter().map(|m| (p.addrs[m.0], p.addrs[m.1])).collect();
        let follow = |from: u64, t: u64| manual_addrs.iter().any(|(h, tl)| *h == norm(arch, from) && *tl == t);
        // ---- executions from several initial states
        let nstates = if self.thorough { 4 } else { 3 };
        for k in 0..nstates {
            let seed = rng.u64();
            let mk_state = || {
                let mut st = St { scalars: HashMap::new(), mem: BTreeMap::new(), big: big_endian_data(arch), seed, overrides: HashMap::new() };
                let mut r = Rng::new(seed);
                for (i, b) in r.bytes(ARENA_SIZE).into_iter().enumerate() {
                    st.mem.insert(ARENA + i as u64, b);
                }
                let ptr = ARENA + 0x400;
                for (nm, v) in [("rbx", ptr), ("ebx", ptr), ("rsp", ARENA + 0x800), ("esp", ARENA + 0x800), ("$s0", ptr), ("r31", ptr), ("x28", ptr),
                                ("$ra", 0xdead_0000), ("lr", 0xdead_0000), ("x30", 0xdead_0000)] {
                    st.overrides.insert(nm.to_string(), v);
                }
                st.overrides.insert(jreg(arch).to_string(), p.addrs[p.indirect_target]);
                // loop counters stay small
                for nm in ["rcx", "ecx"] {
                    st.overrides.insert(nm.to_string(), seed % 5);
                }
                st
            };
            let mut st_f = mk_state();
            st_f.ensure_graph(&function);
            let mut tr_f: Trace = Vec::new();
            let end_f = match guard(|| {
                let e = run_graph(&function, &mut st_f, &mut tr_f, None, &follow);
                e
            }) {
                Ok(GraphEnd::Terminal) => End::Terminal,
                Ok(GraphEnd::Branched(t)) => End::Indirect(t),
                Ok(GraphEnd::Fault(f)) => End::Fault(fault_name(&f)),
                Ok(GraphEnd::OpBudget) => End::OpBudget,
                Ok(GraphEnd::StepBudget) => End::Unjudged("function_step_budget".into()),
                Err(pi) => End::Unjudged(format!("harness_panic:{}", pi.site())),
            };
            let mut st_o = mk_state();
            let mut tr_o: Trace = Vec::new();
            let end_o = run_oracle(&mut oracle, &mut st_o, entry_addr, &mut tr_o, None);
            ctx.eval();
            if let End::Unjudged(why) = &end_o {
                ctx.count(&format!("not_judged:{}", why.split(':').next().unwrap_or("?")));
                continue;
            }
            if let End::Unjudged(why) = &end_f {
                if why.starts_with("harness_panic") {
                    ctx.harness_errors.push(why.clone());
                }
                ctx.count(&format!("not_judged:{}", why.split(':').next().unwrap_or("?")));
                continue;
            }
            let same_trace = tr_f == tr_o;
            // ends: an unmapped fetch/no-guard in the function where the oracle left the function is the same event
            let same_end = end_f == end_o;
            if !same_trace || !same_end {
                let pos = tr_f.iter().zip(tr_o.iter()).position(|(a, b)| a != b).unwrap_or(tr_f.len().min(tr_o.len()));
                // replay both with texts for the report
                let mut tf = Vec::new();
                let mut to = Vec::new();
                {
                    let mut s1 = mk_state();
                    s1.ensure_graph(&function);
                    let mut t1 = Vec::new();
                    let _ = run_graph(&function, &mut s1, &mut t1, Some(&mut tf), &follow);
                    let mut s2 = mk_state();
                    let mut t2 = Vec::new();
                    let _ = run_oracle(&mut oracle, &mut s2, entry_addr, &mut t2, Some(&mut to));
                }
                let lo = pos.saturating_sub(3);
                let kind = if !same_trace { "trace_diverges" } else { "end_differs" };
                let endk = |e: &End| match e {
                    End::Terminal => "terminal".to_string(),
                    End::Indirect(_) => "indirect".to_string(),
                    End::Fault(f) => format!("fault_{}", f.split(':').next().unwrap_or("?")),
                    End::OpBudget => "budget".to_string(),
                    End::Unjudged(_) => "unjudged".to_string(),
                };
                // MIPS: a delay slot that is itself a branch target is shared between both roles
                let slot_target = pos > 0 && {
                    let last = norm(arch, tr_f[pos - 1].0);
                    match p.addrs.iter().position(|a| *a == last) {
                        Some(i) => p.items[i].slot && p.items.iter().any(|it| matches!(it.ctl, Ctl::Cond(t) | Ctl::Jump(t) if t == i)),
                        None => false,
                    }
                };
                let tags = if slot_target { ":slot_is_branch_target".to_string() } else { tags.clone() };
                let sig = if same_trace {
                    format!("{}:{}:{}_vs_{}{}", arch, kind, endk(&end_f), endk(&end_o), tags)
                } else {
                    format!("{}:{}{}", arch, kind, tags)
                };
                ctx.violation(&sig, json!({
                    "program": describe(&p), "state_seed": seed, "state_index": k,
                    "first_difference_at_op": pos,
                    "function_ops": tf.iter().skip(lo).take(8).collect::<Vec<_>>(),
                    "sequential_ops": to.iter().skip(lo).take(8).collect::<Vec<_>>(),
                    "function_end": format!("{:?}", end_f), "sequential_end": format!("{:?}", end_o),
                    "ops_executed": [tr_f.len(), tr_o.len()],
                }));
                return;
            }
            // final states agree (same operations from the same state: a sanity check of the monitor itself)
            if st_o.scalars.iter().any(|(k, v)| st_f.scalars.get(k) != Some(v)) || st_o.mem != st_f.mem {
                ctx.violation(&format!("{}:state_differs{}", arch, tags), json!({"program": describe(&p), "state_seed": seed}));
                return;
            }
            ctx.count("executions_agree");
            let distinct_addrs: BTreeSet<u64> = tr_o.iter().map(|x| x.0).collect();
            let looped = tr_o.len() > 0 && {
                // an address executed again after another one in between
                let mut seen: BTreeSet<u64> = BTreeSet::new();
                let mut prev = u64::MAX;
                let mut l = false;
                for (a, _) in &tr_o {
                    if *a != prev && !seen.insert(*a) {
                        l = true;
                        break;
                    }
                    prev = *a;
                }
                l
            };
            if distinct_addrs.len() >= 2 {
                let endk = match &end_o {
                    End::Terminal => "terminal",
                    End::Indirect(_) => "indirect",
                    End::Fault(_) => "fault",
                    End::OpBudget => "budget",
                    End::Unjudged(_) => "?",
                };
                ctx.class(&format!("{}/{}{}{}{}{}", arch, endk, if looped { "+loop" } else { "" }, if window_crossing { "+window" } else { "" }, if midblock { "+midblock" } else { "" }, tags.replace(':', "+")));
                ctx.count_n("instructions_executed", distinct_addrs.len() as u64);
                if ctx.want_sample() && looped && window_crossing {
                    ctx.sample(json!({"program": describe(&p), "ops_executed": tr_o.len(), "distinct_addresses": distinct_addrs.len(), "end": format!("{:?}", end_o)}));
                }
            }
        }
    }
}

impl Check for C06 {
    fn run(&mut self, ctx: &mut Ctx, rng: &mut Rng, _case: u64) {
        for _ in 0..4 {
            self.one(ctx, rng);
        }
    }
}
