//! Textbook graph algorithms by brute force, straight from the definitions.
//! Deliberately O(V*E) or worse; used as oracle for C11 and for dominance in C10.

use std::collections::{BTreeMap, BTreeSet};

#[derive(Clone, Debug, Default, PartialEq, Eq)]
pub struct G {
    pub v: BTreeSet<usize>,
    pub e: BTreeSet<(usize, usize)>,
}

pub type Set = BTreeSet<usize>;

impl G {
    pub fn new() -> G {
        G::default()
    }
    pub fn succs(&self, x: usize) -> Vec<usize> {
        self.e.range((x, 0)..=(x, usize::MAX)).map(|e| e.1).collect()
    }
    pub fn preds(&self, x: usize) -> Vec<usize> {
        self.e.iter().filter(|e| e.1 == x).map(|e| e.0).collect()
    }
    /// vertices reachable from `r` (including r) without entering `avoid`
    pub fn reach_avoiding(&self, r: usize, avoid: Option<usize>) -> Set {
        let mut seen = Set::new();
        if Some(r) == avoid || !self.v.contains(&r) {
            return seen;
        }
        let mut stack = vec![r];
        seen.insert(r);
        while let Some(x) = stack.pop() {
            for s in self.succs(x) {
                if Some(s) != avoid && seen.insert(s) {
                    stack.push(s);
                }
            }
        }
        seen
    }
    pub fn reach(&self, r: usize) -> Set {
        self.reach_avoiding(r, None)
    }
    /// dom[v] = set of d such that every path r -> v passes through d (for reachable v)
    pub fn dominators(&self, r: usize) -> BTreeMap<usize, Set> {
        let reach = self.reach(r);
        let mut dom: BTreeMap<usize, Set> = reach.iter().map(|v| (*v, Set::new())).collect();
        for d in &reach {
            let without = self.reach_avoiding(r, Some(*d));
            for v in &reach {
                if !without.contains(v) {
                    dom.get_mut(v).unwrap().insert(*d);
                }
            }
        }
        dom
    }
    /// immediate dominator: the strict dominator that every other strict dominator dominates
    pub fn idoms(&self, r: usize) -> BTreeMap<usize, usize> {
        let dom = self.dominators(r);
        let mut out = BTreeMap::new();
        for (v, ds) in &dom {
            if *v == r {
                continue;
            }
            let strict: Vec<usize> = ds.iter().cloned().filter(|d| d != v).collect();
            let id = strict
                .iter()
                .cloned()
                .find(|c| strict.iter().all(|o| dom[c].contains(o)))
                .expect("a reachable non-root vertex has an immediate dominator");
            out.insert(*v, id);
        }
        out
    }
    /// DF(x) = { y : x dominates a predecessor of y and x does not strictly dominate y } over the reachable subgraph
    pub fn dominance_frontiers(&self, r: usize) -> BTreeMap<usize, Set> {
        let dom = self.dominators(r);
        let mut df: BTreeMap<usize, Set> = dom.keys().map(|v| (*v, Set::new())).collect();
        for y in dom.keys() {
            for p in self.preds(*y) {
                if let Some(dp) = dom.get(&p) {
                    for x in dp {
                        let strictly = x != y && dom[y].contains(x);
                        if !strictly {
                            df.get_mut(x).unwrap().insert(*y);
                        }
                    }
                }
            }
        }
        df
    }
    pub fn back_edges(&self, r: usize) -> BTreeSet<(usize, usize)> {
        let dom = self.dominators(r);
        self.e
            .iter()
            .filter(|(u, v)| dom.get(u).map(|d| d.contains(v)).unwrap_or(false))
            .cloned()
            .collect()
    }
    /// natural loops merged per header, within the reachable subgraph
    pub fn loops(&self, r: usize) -> BTreeMap<usize, Set> {
        let reach = self.reach(r);
        let mut out: BTreeMap<usize, Set> = BTreeMap::new();
        for (t, h) in self.back_edges(r) {
            let body = out.entry(h).or_default();
            body.insert(h);
            // nodes that reach t without passing through h: backward search from t avoiding h
            let mut stack = vec![t];
            if t != h {
                body.insert(t);
            }
            while let Some(x) = stack.pop() {
                if x == h {
                    continue;
                }
                for p in self.preds(x) {
                    if p != h && reach.contains(&p) && body.insert(p) {
                        stack.push(p);
                    }
                }
            }
        }
        out
    }
    pub fn has_cycle_within(&self, verts: &Set, skip: &BTreeSet<(usize, usize)>) -> bool {
        // Kahn over the induced subgraph
        let mut indeg: BTreeMap<usize, usize> = verts.iter().map(|v| (*v, 0)).collect();
        let edges: Vec<(usize, usize)> = self
            .e
            .iter()
            .filter(|e| verts.contains(&e.0) && verts.contains(&e.1) && !skip.contains(e))
            .cloned()
            .collect();
        for (_, t) in &edges {
            *indeg.get_mut(t).unwrap() += 1;
        }
        let mut ready: Vec<usize> = indeg.iter().filter(|(_, d)| **d == 0).map(|(v, _)| *v).collect();
        let mut removed = 0;
        while let Some(x) = ready.pop() {
            removed += 1;
            for (h, t) in &edges {
                if *h == x {
                    let d = indeg.get_mut(t).unwrap();
                    *d -= 1;
                    if *d == 0 {
                        ready.push(*t);
                    }
                }
            }
        }
        removed != verts.len()
    }
    /// reducible iff deleting the back edges leaves the reachable subgraph acyclic
    pub fn is_reducible(&self, r: usize) -> bool {
        let reach = self.reach(r);
        !self.has_cycle_within(&reach, &self.back_edges(r))
    }
    pub fn is_acyclic_from(&self, r: usize) -> bool {
        !self.has_cycle_within(&self.reach(r), &BTreeSet::new())
    }
    /// transitive predecessors: u in tp[v] iff there is a non-empty path u -> v
    pub fn transitive_predecessors(&self) -> BTreeMap<usize, Set> {
        let mut out: BTreeMap<usize, Set> = self.v.iter().map(|v| (*v, Set::new())).collect();
        for u in &self.v {
            let mut seen = Set::new();
            let mut stack: Vec<usize> = self.succs(*u);
            for s in &stack {
                seen.insert(*s);
            }
            while let Some(x) = stack.pop() {
                for s in self.succs(x) {
                    if seen.insert(s) {
                        stack.push(s);
                    }
                }
            }
            for v in seen {
                out.get_mut(&v).unwrap().insert(*u);
            }
        }
        out
    }
    /// is `order` a possible DFS pre-order from r?
    pub fn valid_preorder(&self, r: usize, order: &[usize]) -> Result<(), String> {
        let reach = self.reach(r);
        let set: Set = order.iter().cloned().collect();
        if set.len() != order.len() {
            return Err("vertex repeated".into());
        }
        if set != reach {
            return Err("vertex set differs from the reachable set".into());
        }
        if order.first() != Some(&r) {
            return Err("does not start at the root".into());
        }
        let mut visited = Set::new();
        visited.insert(r);
        let mut stack = vec![r];
        for w in &order[1..] {
            loop {
                let top = match stack.last() {
                    Some(t) => *t,
                    None => return Err(format!("{} is not a successor of any vertex on the DFS stack", w)),
                };
                if self.e.contains(&(top, *w)) {
                    break;
                }
                // backtracking from top is only allowed when all its successors are visited
                if self.succs(top).iter().any(|s| !visited.contains(s)) {
                    return Err(format!("backtracked from {} before exploring all its successors (next was {})", top, w));
                }
                stack.pop();
            }
            visited.insert(*w);
            stack.push(*w);
        }
        Ok(())
    }
    /// post-order sanity: reachable set exactly once; for an edge u->v where v cannot reach u, v comes before u
    pub fn valid_postorder(&self, r: usize, order: &[usize]) -> Result<(), String> {
        let reach = self.reach(r);
        let set: Set = order.iter().cloned().collect();
        if set.len() != order.len() {
            return Err("vertex repeated".into());
        }
        if set != reach {
            return Err("vertex set differs from the reachable set".into());
        }
        if order.last() != Some(&r) {
            return Err("root is not last".into());
        }
        let pos: BTreeMap<usize, usize> = order.iter().enumerate().map(|(i, v)| (*v, i)).collect();
        for (u, v) in &self.e {
            if reach.contains(u) && reach.contains(v) && u != v && !self.reach(*v).contains(u) && pos[v] > pos[u] {
                return Err(format!("edge {}->{} (no path back) but {} finishes after {}", u, v, v, u));
            }
        }
        Ok(())
    }
}
