//! C09 — The fixed-point engine returns the least solution of the data-flow equations.
//!
//! Harness-defined analyses over small finite lattices with transfer functions that
//! are monotone by construction (joins of step functions; `None` is bottom) are
//! solved by falcon and by an independent round-robin Kleene iteration over the
//! independent location graph; the two maps must be equal. Non-monotone analyses
//! must yield an error or a map that satisfies the equations; an unbounded counter
//! must exhaust the step budget.

use crate::fw::*;
use crate::ilgen::{self, GenOpts};
use crate::locgraph::{loc_str, LocGraph};
use falcon::analysis::fixed_point::{self, FixedPointAnalysis};
use falcon::il::{Function, FunctionLocation as Loc, RefProgramLocation};
use falcon::Error;
use serde_json::json;
use std::cmp::Ordering;
use std::collections::{BTreeMap, BTreeSet};
use std::rc::Rc;

pub struct C09 {}
impl C09 {
    pub fn new(_t: Tier) -> C09 {
        C09 {}
    }
}

// ------------------------------------------------------------ finite lattices

#[derive(Debug)]
struct Lat {
    name: String,
    n: usize,
    leq: Vec<Vec<bool>>,
    join: Vec<Vec<usize>>,
}

fn powerset(k: usize) -> Lat {
    let n = 1 << k;
    let leq = (0..n).map(|a| (0..n).map(|b| a & b == a).collect()).collect();
    let join = (0..n).map(|a| (0..n).map(|b| a | b).collect()).collect();
    Lat { name: format!("powerset{}", k), n, leq, join }
}

fn chain_product(a: usize, b: usize) -> Lat {
    let n = a * b;
    let co = |x: usize| (x / b, x % b);
    let leq = (0..n).map(|x| (0..n).map(|y| co(x).0 <= co(y).0 && co(x).1 <= co(y).1).collect()).collect();
    let join = (0..n).map(|x| (0..n).map(|y| co(x).0.max(co(y).0) * b + co(x).1.max(co(y).1)).collect()).collect();
    Lat { name: format!("chains{}x{}", a, b), n, leq, join }
}

/// flat lattice: 0 = bottom, 1..=k constants, k+1 = top
fn flat(k: usize) -> Lat {
    let n = k + 2;
    let leq = (0..n).map(|x| (0..n).map(|y| x == y || x == 0 || y == k + 1).collect()).collect();
    let join = (0..n)
        .map(|x| (0..n).map(|y| if x == y { x } else if x == 0 { y } else if y == 0 { x } else { k + 1 }).collect())
        .collect();
    Lat { name: format!("flat{}", k), n, leq, join }
}

#[derive(Clone, Debug)]
struct Elem {
    id: usize,
    lat: Rc<Lat>,
}

impl PartialEq for Elem {
    fn eq(&self, o: &Elem) -> bool {
        self.id == o.id
    }
}
impl PartialOrd for Elem {
    fn partial_cmp(&self, o: &Elem) -> Option<Ordering> {
        if self.id == o.id {
            Some(Ordering::Equal)
        } else if self.lat.leq[self.id][o.id] {
            Some(Ordering::Less)
        } else if self.lat.leq[o.id][self.id] {
            Some(Ordering::Greater)
        } else {
            None
        }
    }
}

/// transfer function of one location
#[derive(Clone, Debug)]
enum Tf {
    /// f(None) = c0; f(Some x) = c0 join { b_i : a_i <= x }   — monotone by construction
    Steps { c0: usize, steps: Vec<(usize, usize)> },
    /// arbitrary table: f(None) = none; f(Some x) = table[x]   — usually not monotone
    Table { none: usize, table: Vec<usize> },
}

struct TableAnalysis {
    lat: Rc<Lat>,
    tf: BTreeMap<Loc, Tf>,
    default: Tf,
}

impl TableAnalysis {
    fn apply(&self, loc: &Loc, s: Option<usize>) -> usize {
        let tf = self.tf.get(loc).unwrap_or(&self.default);
        match tf {
            Tf::Steps { c0, steps } => {
                let mut r = *c0;
                if let Some(x) = s {
                    for (a, b) in steps {
                        if self.lat.leq[*a][x] {
                            r = self.lat.join[r][*b];
                        }
                    }
                }
                r
            }
            Tf::Table { none, table } => match s {
                None => *none,
                Some(x) => table[x],
            },
        }
    }
}

impl<'f> FixedPointAnalysis<'f, Elem> for &TableAnalysis {
    fn trans(&self, location: RefProgramLocation<'f>, state: Option<Elem>) -> Result<Elem, Error> {
        let loc: Loc = location.function_location().clone().into();
        Ok(Elem { id: self.apply(&loc, state.map(|e| e.id)), lat: self.lat.clone() })
    }
    fn join(&self, a: Elem, b: &Elem) -> Result<Elem, Error> {
        Ok(Elem { id: self.lat.join[a.id][b.id], lat: self.lat.clone() })
    }
}

/// unbounded ascending counter
struct Counter {}
impl<'f> FixedPointAnalysis<'f, u64> for Counter {
    fn trans(&self, _l: RefProgramLocation<'f>, s: Option<u64>) -> Result<u64, Error> {
        Ok(match s {
            None => 0,
            Some(x) => x + 1,
        })
    }
    fn join(&self, a: u64, b: &u64) -> Result<u64, Error> {
        Ok(a.max(*b))
    }
}

/// independent Kleene iteration
fn kleene(lg: &LocGraph, an: &TableAnalysis, forward: bool, cap: usize) -> Option<BTreeMap<Loc, usize>> {
    let start = if forward { lg.entry.clone()? } else { lg.exit.clone()? };
    let reach = lg.reach_from(&start, forward);
    let mut st: BTreeMap<Loc, usize> = BTreeMap::new();
    for _round in 0..cap {
        let mut changed = false;
        for l in &reach {
            let ins = if forward { lg.preds(l) } else { lg.succs(l) };
            let mut acc: Option<usize> = None;
            for p in ins {
                if let Some(v) = st.get(p) {
                    acc = Some(match acc {
                        None => *v,
                        Some(a) => an.lat.join[a][*v],
                    });
                }
            }
            if acc.is_none() && *l != start {
                continue;
            }
            let nv = an.apply(l, acc);
            if st.get(l) != Some(&nv) {
                st.insert(l.clone(), nv);
                changed = true;
            }
        }
        if !changed {
            return Some(st);
        }
    }
    None
}

fn equations_hold(lg: &LocGraph, an: &TableAnalysis, forward: bool, sol: &BTreeMap<Loc, usize>) -> Result<(), String> {
    for (l, v) in sol {
        let ins = if forward { lg.preds(l) } else { lg.succs(l) };
        let mut acc: Option<usize> = None;
        for p in ins {
            if let Some(x) = sol.get(p) {
                acc = Some(match acc {
                    None => *x,
                    Some(a) => an.lat.join[a][*x],
                });
            }
        }
        let want = an.apply(l, acc);
        if want != *v {
            return Err(format!("at {}: state {} but trans(join of inputs = {:?}) = {}", loc_str(l), v, acc, want));
        }
    }
    Ok(())
}

fn gen_function(rng: &mut Rng) -> Function {
    let o = GenOpts {
        max_blocks: 7,
        max_instrs: 3,
        all_reachable: rng.chance(2, 3),
        memory: false,
        expr_depth: 1,
        ..GenOpts::default()
    };
    ilgen::generate(rng, &o).f
}

impl Check for C09 {
    fn run(&mut self, ctx: &mut Ctx, rng: &mut Rng, _case: u64) {
        let f = gen_function(rng);
        let lg = LocGraph::build(&f);
        let fj = || ilgen::describe(&f);
        ctx.trace(|| format!("function {}", fj()));
        let lat = Rc::new(match rng.below(7) {
            0 => powerset(3),
            1 => powerset(4),
            2 => powerset(5),
            3 => chain_product(2, 3),
            4 => chain_product(3, 3),
            5 => flat(3),
            _ => chain_product(1, 6),
        });
        let mode = rng.below(10); // 0..=6 monotone, 7..=8 non-monotone, 9 counter
        let forward = rng.bool();
        let dir = if forward { "forward" } else { "backward" };
        let has_cycle = {
            // a cycle among locations reachable from the start
            let start = if forward { lg.entry.clone() } else { lg.exit.clone() };
            match start {
                None => false,
                Some(s) => {
                    let reach = lg.reach_from(&s, forward);
                    reach.iter().any(|l| {
                        let nx = if forward { lg.succs(l) } else { lg.preds(l) };
                        nx.iter().any(|n| lg.reach_from(n, forward).contains(l))
                    })
                }
            }
        };
        if mode == 9 {
            // step budget
            if !forward {
                return;
            }
            let budget = 20 + rng.usize(400);
            let r = guard(|| fixed_point::fixed_point_forward_options(Counter {}, &f, false, budget));
            ctx.eval();
            match r {
                Err(p) => ctx.panic_violation("counter", &p, fj()),
                Ok(Ok(m)) => {
                    if has_cycle {
                        ctx.violation("budget:not_enforced", json!({"function": fj(), "budget": budget, "states": m.len()}));
                    }
                }
                Ok(Err(Error::FixedPointMaxSteps)) => {
                    // on acyclic graphs a join point may be re-processed once per path, so a small
                    // budget can legitimately run out: not judged
                    if !has_cycle {
                        ctx.count("budget_exhausted_on_acyclic(not judged)");
                    }
                }
                Ok(Err(e)) => ctx.violation("counter:wrong_error", json!({"function": fj(), "error": format!("{:?}", e)})),
            }
            ctx.class(&format!("counter/{}", if has_cycle {"cyclic"} else {"acyclic"}));
            return;
        }
        let monotone = mode <= 6;
        let n = lat.n;
        let mut tf = BTreeMap::new();
        for l in &lg.nodes {
            let t = if monotone {
                if rng.chance(1, 3) {
                    // gen/kill flavour on any lattice: identity-like steps
                    let steps = (0..n).map(|a| (a, a)).filter(|_| rng.chance(2, 3)).collect();
                    Tf::Steps { c0: rng.usize(n), steps }
                } else {
                    let k = rng.usize(4);
                    Tf::Steps { c0: if rng.bool() { 0 } else { rng.usize(n) }, steps: (0..k).map(|_| (rng.usize(n), rng.usize(n))).collect() }
                }
            } else {
                Tf::Table { none: rng.usize(n), table: (0..n).map(|_| rng.usize(n)).collect() }
            };
            tf.insert(l.clone(), t);
        }
        let an = TableAnalysis { lat: lat.clone(), tf, default: Tf::Steps { c0: 0, steps: vec![] } };
        // brute-force monotonicity check of what we built (including None as bottom)
        if monotone {
            for l in &lg.nodes {
                for x in 0..n {
                    assert!(lat.leq[an.apply(l, None)][an.apply(l, Some(x))], "harness: constructed transfer not monotone at None");
                    for y in 0..n {
                        if lat.leq[x][y] {
                            assert!(lat.leq[an.apply(l, Some(x))][an.apply(l, Some(y))], "harness: constructed transfer not monotone");
                        }
                    }
                }
            }
        }
        // run falcon
        // a monotone analysis is also run with `force` (states joined instead of compared) in one case of three: the
        // answer must be the same least solution within the same default budget
        let force = monotone && rng.chance(1, 3);
        if force {
            ctx.count("monotone_runs_with_force");
        }
        let got: Result<Result<BTreeMap<Loc, usize>, Error>, PanicInfo> = if forward {
            guard(|| fixed_point::fixed_point_forward_options(&an, &f, force, 250_000).map(|m| m.into_iter().map(|(k, v)| (k.function_location().clone(), v.id)).collect()))
        } else {
            guard(|| fixed_point::fixed_point_backward_options(&an, &f, force).map(|m| m.into_iter().map(|(k, v)| (k.function_location().clone().into(), v.id)).collect()))
        };
        let dir = if force { if forward { "forward+force" } else { "backward+force" } } else { dir };
        ctx.eval();
        let detail = |extra: serde_json::Value| json!({"function": fj(), "lattice": lat.name, "direction": dir, "transfer": format!("{:?}", an.tf), "difference": extra});
        match got {
            Err(p) => ctx.panic_violation(&format!("solver:{}", dir), &p, detail(json!(null))),
            Ok(Err(e)) => {
                if monotone {
                    ctx.violation(&format!("monotone:error:{}:{}", dir, format!("{:?}", e).split('(').next().unwrap()), detail(json!(format!("{:?}", e))));
                } else {
                    match e {
                        Error::FixedPointOrdering(..) | Error::FixedPointMaxSteps => ctx.count("nonmonotone_rejected"),
                        e => ctx.violation(&format!("nonmonotone:wrong_error:{}", dir), detail(json!(format!("{:?}", e)))),
                    }
                }
            }
            Ok(Ok(sol)) => {
                if monotone {
                    let exp = kleene(&lg, &an, forward, 10_000).expect("monotone on a finite lattice converges");
                    if sol != exp {
                        let keys_got: BTreeSet<&Loc> = sol.keys().collect();
                        let keys_exp: BTreeSet<&Loc> = exp.keys().collect();
                        let kind = if keys_got != keys_exp {
                            if keys_got.len() < keys_exp.len() { "missing_locations" } else { "extra_locations" }
                        } else if equations_hold(&lg, &an, forward, &sol).is_ok() {
                            "not_least_solution"
                        } else {
                            "not_a_solution"
                        };
                        let first = exp.iter().find(|(k, v)| sol.get(*k) != Some(*v)).map(|(k, v)| format!("{}: expected {} got {:?}", loc_str(k), v, sol.get(k)));
                        ctx.violation(&format!("monotone:{}:{}", kind, dir), detail(json!({"first": first, "expected_len": exp.len(), "actual_len": sol.len()})));
                    }
                } else {
                    ctx.count("nonmonotone_accepted");
                    if let Err(why) = equations_hold(&lg, &an, forward, &sol) {
                        ctx.violation(&format!("nonmonotone:unsound_answer:{}", dir), detail(json!(why)));
                    }
                    // reached set must still be right
                    let start = if forward { lg.entry.clone() } else { lg.exit.clone() };
                    if let Some(s) = start {
                        let reach = lg.reach_from(&s, forward);
                        if sol.keys().cloned().collect::<BTreeSet<_>>() != reach {
                            ctx.violation(&format!("nonmonotone:wrong_location_set:{}", dir), detail(json!({"expected": reach.len(), "actual": sol.len()})));
                        }
                    }
                }
            }
        }
        let entry_in_loop = lg.entry.as_ref().map(|e| !lg.preds(e).is_empty()).unwrap_or(false);
        ctx.class(&format!(
            "{}/{}/{}/{}{}{}",
            dir,
            if monotone {"mono"} else {"nonmono"},
            lat.name,
            if has_cycle {"cyclic"} else {"acyclic"},
            if entry_in_loop {"/entry_in_loop"} else {""},
            if f.blocks().iter().any(|b| b.is_empty()) {"/empty"} else {""}
        ));
        if ctx.want_sample() {
            ctx.sample(json!({"function": fj(), "lattice": lat.name, "direction": dir, "monotone": monotone}));
        }
    }
}
