//! C15 — CFG construction and editing keep graphs consistent and meaning intact.
//!
//! Invariant monitor after every editing operation (edges join existing blocks,
//! adjacency views agree with edges(), instruction indices unique, entry/exit name
//! existing blocks) plus differential execution (reference interpreter) around
//! merge() and append().

use crate::fw::*;
use crate::ilgen::{self, GenOpts, MEM_BASE, MEM_LEN};
use crate::refeval::Bv;
use crate::refinterp::{Machine, StepOut};
use falcon::il::{self, ControlFlowGraph, Function, FunctionLocation as Loc};
use falcon::translator::{x86::Amd64, Options, Translator};
use serde_json::{json, Value};
use std::collections::{BTreeMap, BTreeSet};

pub struct C15 {}
impl C15 {
    pub fn new(_t: Tier) -> C15 {
        C15 {}
    }
}

fn cfg_json(c: &ControlFlowGraph) -> Value {
    ilgen::describe(&Function::new(0, c.clone()))
}

/// all structural invariants of the statement, via the public API only
fn invariants(c: &ControlFlowGraph) -> Vec<String> {
    let mut bad = Vec::new();
    let blocks: BTreeSet<usize> = c.blocks().iter().map(|b| b.index()).collect();
    if blocks.len() != c.blocks().len() {
        bad.push("duplicate block index".to_string());
    }
    let edges: BTreeSet<(usize, usize)> = c.edges().iter().map(|e| (e.head(), e.tail())).collect();
    for (h, t) in &edges {
        if !blocks.contains(h) || !blocks.contains(t) {
            bad.push(format!("edge {}->{} joins a missing block", h, t));
        }
        if c.edge(*h, *t).is_err() {
            bad.push(format!("edge({},{}) not found although listed", h, t));
        }
    }
    for b in &blocks {
        let succ: BTreeSet<usize> = c.successor_indices(*b).map(|v| v.into_iter().collect()).unwrap_or_default();
        let exp: BTreeSet<usize> = edges.iter().filter(|e| e.0 == *b).map(|e| e.1).collect();
        if succ != exp {
            bad.push(format!("successor_indices({}) = {:?}, edges say {:?}", b, succ, exp));
        }
        let pred: BTreeSet<usize> = c.predecessor_indices(*b).map(|v| v.into_iter().collect()).unwrap_or_default();
        let expp: BTreeSet<usize> = edges.iter().filter(|e| e.1 == *b).map(|e| e.0).collect();
        if pred != expp {
            bad.push(format!("predecessor_indices({}) = {:?}, edges say {:?}", b, pred, expp));
        }
        let eo: BTreeSet<(usize, usize)> = c.edges_out(*b).map(|v| v.iter().map(|e| (e.head(), e.tail())).collect()).unwrap_or_default();
        if eo != exp.iter().map(|t| (*b, *t)).collect() {
            bad.push(format!("edges_out({}) disagrees with edges()", b));
        }
        let ei: BTreeSet<(usize, usize)> = c.edges_in(*b).map(|v| v.iter().map(|e| (e.head(), e.tail())).collect()).unwrap_or_default();
        if ei != expp.iter().map(|h| (*h, *b)).collect() {
            bad.push(format!("edges_in({}) disagrees with edges()", b));
        }
        let blk = c.block(*b).unwrap();
        let idx: Vec<usize> = blk.instructions().iter().map(|i| i.index()).collect();
        let uniq: BTreeSet<usize> = idx.iter().cloned().collect();
        if uniq.len() != idx.len() {
            bad.push(format!("block {} has duplicate instruction indices {:?}", b, idx));
        }
        if blk.index() != *b {
            bad.push(format!("block({}) reports index {}", b, blk.index()));
        }
    }
    if let Some(e) = c.entry() {
        if !blocks.contains(&e) {
            bad.push(format!("entry() = {} names a missing block", e));
        }
    }
    if let Some(e) = c.exit() {
        if !blocks.contains(&e) {
            bad.push(format!("exit() = {} names a missing block", e));
        }
    }
    bad
}

#[derive(Debug, Clone, PartialEq)]
struct RunResult {
    trace: Vec<String>,
    end: String,
    end_block: Option<usize>,
    scalars: BTreeMap<String, String>,
    mem: BTreeMap<u64, u8>,
}

fn run(c: &ControlFlowGraph, init: &BTreeMap<String, Bv>, mem: &BTreeMap<u64, u8>, cap: usize) -> Option<RunResult> {
    let f = Function::new(0, c.clone());
    let mut m = Machine::new(&f, false, false)?;
    for (k, v) in init {
        m.set(k, v.clone());
    }
    m.mem = mem.clone();
    let mut trace = Vec::new();
    let mut end = "cap".to_string();
    let mut end_block = None;
    for _ in 0..cap {
        let loc = m.loc.clone();
        if let Loc::Instruction(b, i) = &loc {
            let ins = f.block(*b).ok()?.instruction(*i)?;
            trace.push(format!("{}", ins.operation()));
        }
        match m.step(&f) {
            StepOut::Moved => {}
            StepOut::Branched(t) => {
                end = format!("branch:0x{:x}", t);
                break;
            }
            StepOut::Terminal => {
                end = "terminal".to_string();
                end_block = match loc {
                    Loc::Instruction(b, _) | Loc::EmptyBlock(b) => Some(b),
                    _ => None,
                };
                break;
            }
            StepOut::Fault(fl) => {
                end = format!("fault:{}", fl.kind());
                break;
            }
        }
    }
    Some(RunResult {
        trace,
        end,
        end_block,
        scalars: m.scalars.iter().map(|(k, v)| (k.0.clone(), v.hex())).collect(),
        mem: m.mem.clone(),
    })
}

/// The instruction sequences that can be executed from `entry`, guards ignored, of an abstract graph given by
/// `instrs` (the instruction strings of a node; None = no such node) and `succ`: every sequence that ends in a node
/// without successors ("$") and every prefix of `max_ins` instructions ("..."). None when the enumeration is too large.
fn language(entry: usize, instrs: &dyn Fn(usize) -> Option<Vec<String>>, succ: &dyn Fn(usize) -> Vec<usize>, max_ins: usize) -> Option<BTreeSet<String>> {
    instrs(entry)?;
    let mut out = BTreeSet::new();
    let mut work: Vec<(usize, Vec<String>, BTreeSet<usize>)> = vec![(entry, Vec::new(), [entry].into_iter().collect())];
    let mut budget = 30_000usize;
    while let Some((b, mut seq, mut seen)) = work.pop() {
        if budget == 0 {
            return None;
        }
        budget -= 1;
        let ins = instrs(b)?;
        let mut truncated = false;
        for i in &ins {
            seq.push(i.clone());
            if seq.len() >= max_ins {
                truncated = true;
                break;
            }
        }
        if truncated {
            out.insert(format!("{} ...", seq.join(" ; ")));
            continue;
        }
        if !ins.is_empty() {
            seen = BTreeSet::new();
        }
        let ss = succ(b);
        if ss.is_empty() {
            out.insert(format!("{} $", seq.join(" ; ")));
            continue;
        }
        for t in ss {
            // going round a cycle of empty nodes adds no instruction: do not revisit
            let mut seen2 = seen.clone();
            if !seen2.insert(t) && ins.is_empty() {
                continue;
            }
            if instrs(t).is_none() {
                continue;
            }
            work.push((t, seq.clone(), seen2));
        }
    }
    Some(out)
}

fn ins_string(ins: &il::Instruction) -> String {
    format!("{:x?} {}", ins.address(), ins.operation())
}

/// `language` of a control-flow graph from its entry.
fn path_language(c: &ControlFlowGraph, max_ins: usize) -> Option<BTreeSet<String>> {
    let entry = c.entry()?;
    language(
        entry,
        &|b| c.block(b).ok().map(|blk| blk.instructions().iter().map(ins_string).collect()),
        &|b| c.edges().iter().filter(|e| e.head() == b).map(|e| e.tail()).collect(),
        max_ins,
    )
}

/// The language of "run g0, then g1, then ..." written down without building a graph with the code under test:
/// nodes are (graph number, block index); the exit of each graph gets one more successor, the entry of the next.
fn chain_language(gs: &[ControlFlowGraph], max_ins: usize) -> Option<BTreeSet<String>> {
    const STRIDE: usize = 1 << 20;
    for g in gs {
        g.entry()?;
        g.exit()?;
    }
    let instrs = |n: usize| -> Option<Vec<String>> {
        let (gi, b) = (n / STRIDE, n % STRIDE);
        gs.get(gi)?.block(b).ok().map(|blk| blk.instructions().iter().map(ins_string).collect())
    };
    let succ = |n: usize| -> Vec<usize> {
        let (gi, b) = (n / STRIDE, n % STRIDE);
        let g = &gs[gi];
        let mut v: Vec<usize> = g.edges().iter().filter(|e| e.head() == b).map(|e| gi * STRIDE + e.tail()).collect();
        if g.exit() == Some(b) && gi + 1 < gs.len() {
            v.push((gi + 1) * STRIDE + gs[gi + 1].entry().unwrap());
        }
        v
    };
    language(gs[0].entry()?, &instrs, &succ, max_ins)
}

fn init_state(rng: &mut Rng, pool: &[il::Scalar]) -> (BTreeMap<String, Bv>, BTreeMap<u64, u8>) {
    let mut init = BTreeMap::new();
    for s in pool {
        init.insert(s.name().to_string(), Bv::new(rng.corner_big(s.bits()), s.bits()));
    }
    let mut mem = BTreeMap::new();
    for a in MEM_BASE..MEM_BASE + MEM_LEN {
        mem.insert(a, rng.u64() as u8);
    }
    (init, mem)
}

impl C15 {
    fn check_inv(&self, ctx: &mut Ctx, c: &ControlFlowGraph, what: &str, hist: &Vec<String>) -> bool {
        ctx.eval();
        match guard(|| invariants(c)) {
            Err(p) => {
                ctx.panic_violation(&format!("invariants_after:{}", what), &p, json!({"history": hist}));
                false
            }
            Ok(bad) => {
                if !bad.is_empty() {
                    let kind = if bad.iter().any(|b| b.contains("exit()")) {
                        "exit_names_missing_block"
                    } else if bad.iter().any(|b| b.contains("entry()")) {
                        "entry_names_missing_block"
                    } else if bad.iter().any(|b| b.contains("duplicate instruction")) {
                        "duplicate_instruction_index"
                    } else if bad.iter().any(|b| b.contains("missing block")) {
                        "dangling_edge"
                    } else {
                        "views_disagree"
                    };
                    ctx.violation(&format!("invariant:{}:after_{}", kind, what), json!({"history": hist, "problems": bad, "graph": cfg_json(c)}));
                    false
                } else {
                    true
                }
            }
        }
    }

    /// random editing history on two graphs
    fn edit_history(&self, ctx: &mut Ctx, rng: &mut Rng) {
        let mut gs = vec![ControlFlowGraph::new(), ControlFlowGraph::new()];
        let mut hist: Vec<String> = Vec::new();
        let n = 10 + rng.usize(50);
        for _ in 0..n {
            let gi = rng.usize(2);
            let blocks: Vec<usize> = gs[gi].blocks().iter().map(|b| b.index()).collect();
            let pickb = |rng: &mut Rng| -> usize {
                if blocks.is_empty() || rng.chance(1, 10) { rng.usize(12) } else { blocks[rng.usize(blocks.len())] }
            };
            let what: &str;
            let r = match rng.below(16) {
                0..=2 => {
                    what = "new_block";
                    hist.push(format!("g{}.new_block()", gi));
                    guard(|| gs[gi].new_block().map(|_| ()))
                }
                3..=5 => {
                    what = "block_op";
                    let b = pickb(rng);
                    let k = rng.below(5);
                    hist.push(format!("g{}.block_mut({}).op{}", gi, b, k));
                    guard(|| {
                        gs[gi].block_mut(b).map(|blk| match k {
                            0 => blk.assign(il::scalar("x", 8), il::expr_const(1, 8)),
                            1 => blk.nop(),
                            2 => blk.store(il::expr_const(MEM_BASE, 64), il::expr_scalar("x", 8)),
                            3 => blk.load(il::scalar("y", 8), il::expr_const(MEM_BASE, 64)),
                            _ => blk.assign(il::scalar("y", 8), il::expr_scalar("x", 8)),
                        })
                    })
                }
                6 => {
                    what = "remove_instruction";
                    let b = pickb(rng);
                    let i = rng.usize(6);
                    hist.push(format!("g{}.block_mut({}).remove_instruction({})", gi, b, i));
                    guard(|| gs[gi].block_mut(b).and_then(|blk| blk.remove_instruction(i)))
                }
                7..=9 => {
                    what = "edge";
                    let (h, t) = (pickb(rng), pickb(rng));
                    let cond = rng.bool();
                    hist.push(format!("g{}.{}_edge({},{})", gi, if cond {"conditional"} else {"unconditional"}, h, t));
                    let had = gs[gi].edge(h, t).is_ok();
                    let both = gs[gi].block(h).is_ok() && gs[gi].block(t).is_ok();
                    let r = guard(|| if cond { gs[gi].conditional_edge(h, t, il::expr_scalar("c", 1)) } else { gs[gi].unconditional_edge(h, t) });
                    if let Ok(res) = &r {
                        if res.is_ok() != (both && !had) {
                            ctx.violation(&format!("edge:{}", if res.is_ok() {"accepted_invalid"} else {"rejected_valid"}), json!({"history": hist}));
                        }
                    }
                    r
                }
                10 => {
                    what = "set_entry_exit";
                    let b = pickb(rng);
                    let entry = rng.bool();
                    hist.push(format!("g{}.set_{}({})", gi, if entry {"entry"} else {"exit"}, b));
                    let exists = gs[gi].block(b).is_ok();
                    let r = guard(|| if entry { gs[gi].set_entry(b) } else { gs[gi].set_exit(b) });
                    if let Ok(res) = &r {
                        if res.is_ok() != exists {
                            ctx.violation("set_entry_exit:wrong_decision", json!({"history": hist}));
                        }
                    }
                    r
                }
                11 | 12 => {
                    what = "append";
                    hist.push(format!("g{}.append(g{})", gi, 1 - gi));
                    let other = gs[1 - gi].clone();
                    guard(|| gs[gi].append(&other))
                }
                13 => {
                    what = "insert";
                    hist.push(format!("g{}.insert(g{})", gi, 1 - gi));
                    let other = gs[1 - gi].clone();
                    let r = guard(|| gs[gi].insert(&other));
                    match r {
                        Ok(Ok((e, x))) => {
                            if gs[gi].block(e).is_err() || gs[gi].block(x).is_err() {
                                ctx.violation("insert:returned_missing_block", json!({"history": hist}));
                            }
                            Ok(Ok(()))
                        }
                        Ok(Err(e)) => Ok(Err(e)),
                        Err(p) => Err(p),
                    }
                }
                _ => {
                    what = "merge";
                    hist.push(format!("g{}.merge()", gi));
                    let before = gs[gi].clone();
                    let r = guard(|| gs[gi].merge());
                    if let Ok(Ok(())) = &r {
                        // merging must not change the instruction sequences that can be executed from the entry
                        if let (Some(a), Some(b)) = (path_language(&before, 6), path_language(&gs[gi], 6)) {
                            ctx.eval();
                            if a != b {
                                let only_before: Vec<&String> = a.difference(&b).take(3).collect();
                                let only_after: Vec<&String> = b.difference(&a).take(3).collect();
                                ctx.violation("merge:changes_executable_sequences:edit_history", json!({"history": hist, "before": cfg_json(&before), "after": cfg_json(&gs[gi]),
                                    "only_before": only_before, "only_after": only_after}));
                                return;
                            }
                            if before.blocks().len() != gs[gi].blocks().len() {
                                ctx.class(&format!("edit_merge/merged{}", (before.blocks().len() - gs[gi].blocks().len()).min(4)));
                            }
                        }
                    }
                    r
                }
            };
            ctx.eval();
            match r {
                Err(p) => {
                    ctx.panic_violation(&format!("edit:{}", what), &p, json!({"history": hist}));
                    return;
                }
                Ok(_res) => {
                    // success or failure: invariants must hold on both graphs
                    for g in &gs {
                        if !self.check_inv(ctx, g, what, &hist) {
                            return;
                        }
                    }
                }
            }
        }
        ctx.class(&format!("edit/n{}", (n / 15).min(4)));
    }

    fn merge_meaning(&self, ctx: &mut Ctx, rng: &mut Rng) {
        let o = GenOpts { max_blocks: 8, max_instrs: 3, all_reachable: rng.chance(3, 4), ..GenOpts::default() };
        let g = ilgen::generate(rng, &o);
        let before = g.f.control_flow_graph().clone();
        let mut after = before.clone();
        let r = guard(|| after.merge());
        ctx.eval();
        let hist = vec!["merge()".to_string()];
        match r {
            Err(p) => {
                ctx.panic_violation("merge", &p, cfg_json(&before));
                return;
            }
            Ok(Err(e)) => {
                ctx.violation("merge:error", json!({"graph": cfg_json(&before), "error": format!("{:?}", e)}));
                return;
            }
            Ok(Ok(())) => {}
        }
        if !self.check_inv(ctx, &after, "merge", &hist) {
            // keep going: meaning can still be compared
        }
        if let (Some(a), Some(b)) = (path_language(&before, 6), path_language(&after, 6)) {
            ctx.eval();
            if a != b {
                let only_before: Vec<&String> = a.difference(&b).take(3).collect();
                let only_after: Vec<&String> = b.difference(&a).take(3).collect();
                ctx.violation("merge:changes_executable_sequences", json!({"before": cfg_json(&before), "after": cfg_json(&after), "only_before": only_before, "only_after": only_after}));
                return;
            }
        }
        let merged = before.blocks().len() - after.blocks().len();
        for _ in 0..4 {
            let (init, mem) = init_state(rng, &g.pool);
            let a = run(&before, &init, &mem, 300);
            let b = run(&after, &init, &mem, 300);
            ctx.eval();
            if let (Some(a), Some(b)) = (a, b) {
                let same = if a.end == "cap" || b.end == "cap" {
                    let n = a.trace.len().min(b.trace.len()).min(100);
                    a.trace[..n] == b.trace[..n]
                } else {
                    a.trace == b.trace && a.end == b.end && a.scalars == b.scalars && a.mem == b.mem
                };
                if !same {
                    let first = a.trace.iter().zip(b.trace.iter()).position(|(x, y)| x != y);
                    ctx.violation(
                        "merge:changes_executed_operations",
                        json!({"before": cfg_json(&before), "after": cfg_json(&after), "first_difference_at": first, "end_before": a.end, "end_after": b.end,
                               "trace_before": a.trace.iter().take(30).collect::<Vec<_>>(), "trace_after": b.trace.iter().take(30).collect::<Vec<_>>()}),
                    );
                    return;
                }
            }
        }
        ctx.class(&format!("merge/merged{}/b{}", merged.min(5), before.blocks().len().min(9)));
        if merged > 0 && ctx.want_sample() {
            ctx.sample(json!({"kind": "merge", "before": cfg_json(&before), "after": cfg_json(&after)}));
        }
    }

    fn append_meaning(&self, ctx: &mut Ctx, rng: &mut Rng) {
        let o = GenOpts { max_blocks: 5, max_instrs: 3, all_reachable: true, ..GenOpts::default() };
        let ga = ilgen::generate(rng, &o);
        let gb = ilgen::generate(rng, &o);
        let a = ga.f.control_flow_graph().clone();
        let b = gb.f.control_flow_graph().clone();
        let exit_clean = |c: &ControlFlowGraph| c.exit().map(|e| c.successor_indices(e).map(|s| s.is_empty()).unwrap_or(false)).unwrap_or(false);
        if !exit_clean(&a) || !exit_clean(&b) {
            ctx.count("append_skipped_exit_has_successors");
            return;
        }
        let mut ab = a.clone();
        let r = guard(|| ab.append(&b));
        ctx.eval();
        match r {
            Err(p) => {
                ctx.panic_violation("append", &p, json!({"a": cfg_json(&a), "b": cfg_json(&b)}));
                return;
            }
            Ok(Err(e)) => {
                ctx.violation("append:error", json!({"a": cfg_json(&a), "b": cfg_json(&b), "error": format!("{:?}", e)}));
                return;
            }
            Ok(Ok(())) => {}
        }
        self.check_inv(ctx, &ab, "append", &vec!["a.append(b)".to_string()]);
        let mut pool = ga.pool.clone();
        pool.extend(gb.pool.iter().cloned());
        for _ in 0..4 {
            let (init, mem) = init_state(rng, &pool);
            let ra = match run(&a, &init, &mem, 200) {
                Some(r) => r,
                None => return,
            };
            let rab = match run(&ab, &init, &mem, 600) {
                Some(r) => r,
                None => return,
            };
            ctx.eval();
            if ra.end == "cap" || rab.end == "cap" {
                continue;
            }
            let mut expect_trace = ra.trace.clone();
            let mut expect_end = ra.end.clone();
            let mut expect_scalars = ra.scalars.clone();
            let mut expect_mem = ra.mem.clone();
            if ra.end == "terminal" && ra.end_block == a.exit() {
                // the first graph finished at its exit: the second graph runs from the resulting state
                let init2: BTreeMap<String, Bv> = {
                    // recover values from the machine-level strings is lossy; rerun a to get Bv
                    let f = Function::new(0, a.clone());
                    let mut m = Machine::new(&f, false, false).unwrap();
                    for (k, v) in &init {
                        m.set(k, v.clone());
                    }
                    m.mem = mem.clone();
                    for _ in 0..200 {
                        if m.step(&f) != StepOut::Moved {
                            break;
                        }
                    }
                    m.scalars.iter().map(|(k, v)| (k.0.clone(), v.clone())).collect()
                };
                let rb = match run(&b, &init2, &ra.mem, 200) {
                    Some(r) => r,
                    None => return,
                };
                if rb.end == "cap" {
                    continue;
                }
                expect_trace.extend(rb.trace.iter().cloned());
                expect_end = rb.end.clone();
                expect_scalars = rb.scalars.clone();
                expect_mem = rb.mem.clone();
            }
            if rab.trace != expect_trace || rab.end != expect_end || rab.scalars != expect_scalars || rab.mem != expect_mem {
                ctx.violation(
                    "append:not_first_then_second",
                    json!({"a": cfg_json(&a), "b": cfg_json(&b), "appended": cfg_json(&ab), "expected_end": expect_end, "actual_end": rab.end,
                           "expected_trace": expect_trace.iter().take(40).collect::<Vec<_>>(), "actual_trace": rab.trace.iter().take(40).collect::<Vec<_>>()}),
                );
                return;
            }
        }
        ctx.class(&format!("append/a{}b{}", a.blocks().len().min(5), b.blocks().len().min(5)));
    }

    /// Chains of graphs whose exits may have successors of their own (a do-while whose tail is the exit, a one-block
    /// conditional self-loop): repeated append, and BlockTranslationResult::blockify over the same graphs, must run
    /// the first graph, then the second, ... - judged on the executable instruction sequences, guards ignored,
    /// against a language written down without the code under test.
    fn chain_meaning(&self, ctx: &mut Ctx, rng: &mut Rng) {
        let n = 2 + rng.usize(3);
        let mut gs: Vec<ControlFlowGraph> = Vec::new();
        for i in 0..n {
            let o = GenOpts { max_blocks: 3, max_instrs: 2, all_reachable: true, intrinsics: false, indirect_branches: false, addr_base: 0x1000 + 0x100 * i as u64, ..GenOpts::default() };
            let mut c = ilgen::generate(rng, &o).f.control_flow_graph().clone();
            // the exit is sometimes a block that has successors (the tail of a loop), sometimes the entry itself
            if rng.chance(1, 3) {
                let with_succ: Vec<usize> = c.blocks().iter().map(|b| b.index()).filter(|b| c.successor_indices(*b).map(|s| !s.is_empty()).unwrap_or(false)).collect();
                if !with_succ.is_empty() {
                    let _ = c.set_exit(with_succ[rng.usize(with_succ.len())]);
                }
            }
            // the exit block sometimes ends in a Branch operation (a call in the middle of lifted code): the next
            // graph still follows it
            if rng.chance(1, 4) {
                if let Some(e) = c.exit() {
                    if let Ok(b) = c.block_mut(e) {
                        b.branch(il::expr_const(0xc0de_0000 + 0x100 * i as u64, 64));
                        if let Some(last) = b.instructions_mut().last_mut() {
                            last.set_address(Some(0x10f0 + 0x100 * i as u64));
                        }
                    }
                }
            }
            gs.push(c);
        }
        let describe = |gs: &[ControlFlowGraph]| json!(gs.iter().map(cfg_json).collect::<Vec<_>>());
        let expected = match chain_language(&gs, 7) {
            Some(l) => l,
            None => {
                ctx.count("chain_language_too_large(skipped)");
                return;
            }
        };
        let exits_with_successors = gs.iter().any(|g| g.exit().and_then(|e| g.successor_indices(e).ok()).map(|s| !s.is_empty()).unwrap_or(false));
        // (a) repeated append
        let mut acc = gs[0].clone();
        let mut ok = true;
        for g in &gs[1..] {
            match guard(|| acc.append(g)) {
                Ok(Ok(())) => {}
                Ok(Err(e)) => {
                    ctx.violation("append:error:chain", json!({"graphs": describe(&gs), "error": format!("{:?}", e)}));
                    ok = false;
                    break;
                }
                Err(p) => {
                    ctx.panic_violation("append:chain", &p, describe(&gs));
                    ok = false;
                    break;
                }
            }
        }
        ctx.eval();
        if ok {
            self.check_inv(ctx, &acc, "append", &vec!["g0.append(g1)...".to_string()]);
            if let Some(got) = path_language(&acc, 7) {
                if got != expected {
                    let only_expected: Vec<&String> = expected.difference(&got).take(3).collect();
                    let only_got: Vec<&String> = got.difference(&expected).take(3).collect();
                    ctx.violation("append:changes_executable_sequences:chain", json!({"graphs": describe(&gs), "result": cfg_json(&acc), "only_expected": only_expected, "only_got": only_got}));
                    return;
                }
            }
        }
        // (b) blockify of the same graphs as the instructions of one lifted block
        let btr = falcon::translator::BlockTranslationResult::new(gs.iter().enumerate().map(|(i, g)| (0x1000 + 0x100 * i as u64, g.clone())).collect(), 0x1000, 4 * n, Vec::new());
        ctx.eval();
        match guard(|| btr.blockify()) {
            Err(p) => ctx.panic_violation("blockify:chain", &p, describe(&gs)),
            Ok(Err(e)) => ctx.violation("blockify:error:chain", json!({"graphs": describe(&gs), "error": format!("{:?}", e)})),
            Ok(Ok(c)) => {
                self.check_inv(ctx, &c, "blockify", &vec!["blockify of a chain".to_string()]);
                if let Some(got) = path_language(&c, 7) {
                    if got != expected {
                        let only_expected: Vec<&String> = expected.difference(&got).take(3).collect();
                        let only_got: Vec<&String> = got.difference(&expected).take(3).collect();
                        ctx.violation("blockify:changes_executable_sequences:chain", json!({"graphs": describe(&gs), "result": cfg_json(&c), "only_expected": only_expected, "only_got": only_got}));
                        return;
                    }
                }
            }
        }
        ctx.class(&format!("chain/n{}/{}", n, if exits_with_successors { "exit_with_successors" } else { "clean_exits" }));
    }

    fn blockify(&self, ctx: &mut Ctx, rng: &mut Rng) {
        // register-only amd64 instructions, then a terminator or nothing
        let pool: [&[u8]; 10] = [
            &[0x48, 0x01, 0xd8],       // add rax, rbx
            &[0x48, 0x29, 0xc3],       // sub rbx, rax
            &[0x48, 0x31, 0xc9],       // xor rcx, rcx
            &[0x48, 0xff, 0xc0],       // inc rax
            &[0x90],                   // nop
            &[0x48, 0x89, 0xc2],       // mov rdx, rax
            &[0x48, 0x0f, 0x44, 0xc3], // cmove rax, rbx
            &[0x0f, 0x94, 0xc0],       // sete al
            &[0x48, 0xd3, 0xe0],       // shl rax, cl
            &[0x48, 0x8b, 0x07],       // mov rax, [rdi]
        ];
        let n = 1 + rng.usize(6);
        let mut bytes = Vec::new();
        for _ in 0..n {
            bytes.extend_from_slice(pool[rng.usize(pool.len())]);
        }
        match rng.below(4) {
            0 => bytes.push(0xc3),
            1 => bytes.extend_from_slice(&[0x74, 0x02]),
            2 => bytes.extend_from_slice(&[0xeb, 0x00]),
            _ => {}
        }
        let t = Amd64::new();
        let r = guard(|| t.translate_block(&bytes, 0x1000, &Options::default()));
        let btr = match r {
            Ok(Ok(b)) => b,
            _ => return,
        };
        let r = guard(|| btr.blockify());
        ctx.eval();
        match r {
            Err(p) => ctx.panic_violation("blockify", &p, json!({"bytes": hex(&bytes)})),
            Ok(Err(e)) => ctx.violation("blockify:error", json!({"bytes": hex(&bytes), "error": format!("{:?}", e)})),
            Ok(Ok(c)) => {
                self.check_inv(ctx, &c, "blockify", &vec![format!("amd64 translate_block({}).blockify()", hex(&bytes))]);
                ctx.class(&format!("blockify/n{}", btr.instructions().len().min(7)));
            }
        }
    }
}

impl Check for C15 {
    fn directed(&self) -> u64 {
        1
    }
    fn run(&mut self, ctx: &mut Ctx, rng: &mut Rng, case: u64) {
        if case == 0 {
            // merge of a straight line whose last block is the exit
            let mut c = ControlFlowGraph::new();
            for _ in 0..3 {
                c.new_block().unwrap().nop();
            }
            c.unconditional_edge(0, 1).unwrap();
            c.unconditional_edge(1, 2).unwrap();
            c.set_entry(0).unwrap();
            c.set_exit(2).unwrap();
            let hist = vec!["3 blocks in a line, entry 0, exit 2; merge()".to_string()];
            let _ = guard(|| c.merge());
            self.check_inv(ctx, &c, "merge", &hist);
            return;
        }
        match rng.below(10) {
            0..=3 => self.edit_history(ctx, rng),
            4..=6 => self.merge_meaning(ctx, rng),
            7 => self.append_meaning(ctx, rng),
            8 => self.chain_meaning(ctx, rng),
            _ => self.blockify(ctx, rng),
        }
    }
}
