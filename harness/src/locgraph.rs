//! Independent location graph of an IL function, built only from blocks(),
//! instructions() and edges() — it never calls RefProgramLocation::forward/backward.
//!
//! Locations are falcon's plain-data `il::FunctionLocation` values.

use falcon::il::{Function, FunctionLocation as Loc};
use std::collections::{BTreeMap, BTreeSet};

#[derive(Clone, Debug, Default)]
pub struct LocGraph {
    pub nodes: BTreeSet<Loc>,
    pub succ: BTreeMap<Loc, Vec<Loc>>,
    pub pred: BTreeMap<Loc, Vec<Loc>>,
    pub entry: Option<Loc>,
    pub exit: Option<Loc>,
}

pub fn first_loc(f: &Function, block: usize) -> Option<Loc> {
    let b = f.block(block).ok()?;
    Some(match b.instructions().first() {
        Some(i) => Loc::Instruction(block, i.index()),
        None => Loc::EmptyBlock(block),
    })
}

pub fn last_loc(f: &Function, block: usize) -> Option<Loc> {
    let b = f.block(block).ok()?;
    Some(match b.instructions().last() {
        Some(i) => Loc::Instruction(block, i.index()),
        None => Loc::EmptyBlock(block),
    })
}

impl LocGraph {
    pub fn build(f: &Function) -> LocGraph {
        let mut g = LocGraph::default();
        let mut add = |g: &mut LocGraph, a: Loc, b: Loc| {
            g.succ.entry(a.clone()).or_default().push(b.clone());
            g.pred.entry(b).or_default().push(a);
        };
        let mut out_edges: BTreeMap<usize, Vec<(usize, usize)>> = BTreeMap::new();
        for e in f.edges() {
            out_edges.entry(e.head()).or_default().push((e.head(), e.tail()));
            g.nodes.insert(Loc::Edge(e.head(), e.tail()));
        }
        for b in f.blocks() {
            let ins = b.instructions();
            if ins.is_empty() {
                g.nodes.insert(Loc::EmptyBlock(b.index()));
            } else {
                for (k, i) in ins.iter().enumerate() {
                    g.nodes.insert(Loc::Instruction(b.index(), i.index()));
                    if k + 1 < ins.len() {
                        add(&mut g, Loc::Instruction(b.index(), i.index()), Loc::Instruction(b.index(), ins[k + 1].index()));
                    }
                }
            }
        }
        for b in f.blocks() {
            let last = last_loc(f, b.index()).unwrap();
            for (h, t) in out_edges.get(&b.index()).cloned().unwrap_or_default() {
                add(&mut g, last.clone(), Loc::Edge(h, t));
                if let Some(first) = first_loc(f, t) {
                    add(&mut g, Loc::Edge(h, t), first);
                }
            }
        }
        for n in g.nodes.clone() {
            g.succ.entry(n.clone()).or_default();
            g.pred.entry(n).or_default();
        }
        g.entry = f.control_flow_graph().entry().and_then(|e| first_loc(f, e));
        g.exit = f.control_flow_graph().exit().and_then(|e| last_loc(f, e));
        g
    }
    pub fn succs(&self, l: &Loc) -> &[Loc] {
        self.succ.get(l).map(|v| v.as_slice()).unwrap_or(&[])
    }
    pub fn preds(&self, l: &Loc) -> &[Loc] {
        self.pred.get(l).map(|v| v.as_slice()).unwrap_or(&[])
    }
    pub fn reach_from(&self, start: &Loc, forward: bool) -> BTreeSet<Loc> {
        let mut seen = BTreeSet::new();
        if !self.nodes.contains(start) {
            return seen;
        }
        seen.insert(start.clone());
        let mut stack = vec![start.clone()];
        while let Some(x) = stack.pop() {
            let nx = if forward { self.succs(&x) } else { self.preds(&x) };
            for n in nx {
                if seen.insert(n.clone()) {
                    stack.push(n.clone());
                }
            }
        }
        seen
    }
}

pub fn loc_str(l: &Loc) -> String {
    match l {
        Loc::Instruction(b, i) => format!("b{}.i{}", b, i),
        Loc::Edge(h, t) => format!("e{}->{}", h, t),
        Loc::EmptyBlock(b) => format!("b{}.empty", b),
    }
}
