//! C04 — IL expression evaluation is exact fixed-width bit-vector arithmetic.
//!
//! Oracle: `refeval`. Observed: `falcon::executor::eval`, `il::Constant` methods,
//! `il::Expression` constructors, `Expression::sra/rotl/replace_scalar`.

use crate::fw::*;
use crate::refeval::{self as re, BinOp, Bv, EvalErr, ALL_BINOPS};
use falcon::il::{self, Constant, Expression};
use falcon::Error;
use num_bigint::BigUint;
use serde_json::json;

pub struct C04 {
    exh_max_width: usize,
}

impl C04 {
    pub fn new(tier: Tier) -> C04 {
        C04 {
            exh_max_width: if tier == Tier::Thorough { 6 } else { 4 },
        }
    }
}

fn fc(b: &Bv) -> Constant {
    Constant::new_big(b.v.clone(), b.bits)
}

fn raw_bin(op: BinOp, l: Expression, r: Expression) -> Expression {
    let (l, r) = (Box::new(l), Box::new(r));
    match op {
        BinOp::Add => Expression::Add(l, r),
        BinOp::Sub => Expression::Sub(l, r),
        BinOp::Mul => Expression::Mul(l, r),
        BinOp::Divu => Expression::Divu(l, r),
        BinOp::Modu => Expression::Modu(l, r),
        BinOp::Divs => Expression::Divs(l, r),
        BinOp::Mods => Expression::Mods(l, r),
        BinOp::And => Expression::And(l, r),
        BinOp::Or => Expression::Or(l, r),
        BinOp::Xor => Expression::Xor(l, r),
        BinOp::Shl => Expression::Shl(l, r),
        BinOp::Shr => Expression::Shr(l, r),
        BinOp::AShr => Expression::AShr(l, r),
        BinOp::Cmpeq => Expression::Cmpeq(l, r),
        BinOp::Cmpneq => Expression::Cmpneq(l, r),
        BinOp::Cmplts => Expression::Cmplts(l, r),
        BinOp::Cmpltu => Expression::Cmpltu(l, r),
    }
}

fn ctor_bin(op: BinOp, l: Expression, r: Expression) -> Result<Expression, Error> {
    match op {
        BinOp::Add => Expression::add(l, r),
        BinOp::Sub => Expression::sub(l, r),
        BinOp::Mul => Expression::mul(l, r),
        BinOp::Divu => Expression::divu(l, r),
        BinOp::Modu => Expression::modu(l, r),
        BinOp::Divs => Expression::divs(l, r),
        BinOp::Mods => Expression::mods(l, r),
        BinOp::And => Expression::and(l, r),
        BinOp::Or => Expression::or(l, r),
        BinOp::Xor => Expression::xor(l, r),
        BinOp::Shl => Expression::shl(l, r),
        BinOp::Shr => Expression::shr(l, r),
        BinOp::AShr => Expression::ashr(l, r),
        BinOp::Cmpeq => Expression::cmpeq(l, r),
        BinOp::Cmpneq => Expression::cmpneq(l, r),
        BinOp::Cmplts => Expression::cmplts(l, r),
        BinOp::Cmpltu => Expression::cmpltu(l, r),
    }
}

fn const_method(op: BinOp, l: &Constant, r: &Constant) -> Result<Constant, Error> {
    match op {
        BinOp::Add => l.add(r),
        BinOp::Sub => l.sub(r),
        BinOp::Mul => l.mul(r),
        BinOp::Divu => l.divu(r),
        BinOp::Modu => l.modu(r),
        BinOp::Divs => l.divs(r),
        BinOp::Mods => l.mods(r),
        BinOp::And => l.and(r),
        BinOp::Or => l.or(r),
        BinOp::Xor => l.xor(r),
        BinOp::Shl => l.shl(r),
        BinOp::Shr => l.shr(r),
        BinOp::AShr => l.ashr(r),
        BinOp::Cmpeq => l.cmpeq(r),
        BinOp::Cmpneq => l.cmpneq(r),
        BinOp::Cmplts => l.cmplts(r),
        BinOp::Cmpltu => l.cmpltu(r),
    }
}

/// normalised outcome for comparison
#[derive(Debug, Clone, PartialEq, Eq)]
enum Out {
    Val(BigUint, usize),
    Sort,
    DivZero,
    Undefined,
    OtherErr(String),
}

fn out_ref(r: &Result<Bv, EvalErr>) -> Out {
    match r {
        Ok(b) => Out::Val(b.v.clone(), b.bits),
        Err(EvalErr::Sort) => Out::Sort,
        Err(EvalErr::DivZero) => Out::DivZero,
        Err(EvalErr::Undefined(_)) => Out::Undefined,
    }
}

fn out_falcon(r: &Result<Constant, Error>) -> Out {
    match r {
        Ok(c) => Out::Val(c.value().clone(), c.bits()),
        Err(Error::Sort) => Out::Sort,
        Err(Error::DivideByZero) => Out::DivZero,
        Err(Error::ExecutorScalar(_)) => Out::Undefined,
        Err(e) => Out::OtherErr(format!("{:?}", e).chars().take(80).collect()),
    }
}

fn out_str(o: &Out) -> String {
    match o {
        Out::Val(v, b) => format!("0x{:x}:{}", v, b),
        o => format!("{:?}", o),
    }
}

fn wclass(w: usize) -> &'static str {
    match w {
        1 => "w1",
        2..=7 => "w2-7",
        8 => "w8",
        9..=31 => "w9-31",
        32 => "w32",
        33..=63 => "w33-63",
        64 => "w64",
        65..=127 => "w65-127",
        128 => "w128",
        _ => "w129+",
    }
}

const WIDTHS: [usize; 26] = [
    1, 2, 3, 4, 5, 6, 7, 8, 15, 16, 17, 24, 31, 32, 33, 48, 63, 64, 65, 80, 127, 128, 129, 200, 256,
    512,
];

impl C04 {
    /// compare one binary operation through both falcon entry points
    fn check_binop(&self, ctx: &mut Ctx, op: BinOp, l: &Bv, r: &Bv, tag: &str) {
        let expect = out_ref(&re::binop(op, l, r));
        let (cl, cr) = (fc(l), fc(r));
        ctx.trace(|| format!("binop {:?} {} {}", op, l.hex(), r.hex()));
        // Constant method
        let got_m = guard(|| const_method(op, &cl, &cr));
        ctx.eval();
        match got_m {
            Err(p) => ctx.panic_violation(
                &format!("const.{:?}", op),
                &p,
                json!({"op": format!("{:?}", op), "lhs": l.hex(), "rhs": r.hex()}),
            ),
            Ok(res) => {
                let got = out_falcon(&res);
                if got != expect {
                    ctx.violation(
                        &format!("const.{:?}:{}:{}", op, mismatch_kind(&expect, &got), tag),
                        json!({"op": format!("{:?}", op), "lhs": l.hex(), "rhs": r.hex(),
                               "expected": out_str(&expect), "actual": out_str(&got)}),
                    );
                }
            }
        }
        // executor::eval over a raw tree
        let e = raw_bin(op, cl.into(), cr.into());
        let got_e = guard(|| falcon::executor::eval(&e));
        ctx.eval();
        match got_e {
            Err(p) => ctx.panic_violation(
                &format!("eval.{:?}", op),
                &p,
                json!({"expr": format!("{}", e)}),
            ),
            Ok(res) => {
                let got = out_falcon(&res);
                if got != expect {
                    ctx.violation(
                        &format!("eval.{:?}:{}:{}", op, mismatch_kind(&expect, &got), tag),
                        json!({"expr": format!("{}", e),
                               "expected": out_str(&expect), "actual": out_str(&got)}),
                    );
                }
            }
        }
        if let Out::Val(v, _) = &expect {
            if *v != l.v && *v != r.v {
                ctx.class(&format!("{:?}/{}", op, wclass(l.bits)));
            }
        } else {
            ctx.class(&format!("{:?}/{}/err", op, wclass(l.bits)));
        }
    }

    fn check_ext(&self, ctx: &mut Ctx, kind: u8, target: usize, x: &Bv, tag: &str) {
        let (name, expect) = match kind {
            0 => ("zext", out_ref(&re::zext(target, x))),
            1 => ("sext", out_ref(&re::sext(target, x))),
            _ => ("trun", out_ref(&re::trun(target, x))),
        };
        let c = fc(x);
        let got_m = guard(|| match kind {
            0 => c.zext(target),
            1 => c.sext(target),
            _ => c.trun(target),
        });
        ctx.eval();
        let detail = json!({"op": name, "target_bits": target, "src": x.hex(), "expected": out_str(&expect)});
        match got_m {
            Err(p) => ctx.panic_violation(&format!("const.{}", name), &p, detail.clone()),
            Ok(res) => {
                let got = out_falcon(&res);
                if got != expect {
                    let mut d = detail.clone();
                    d["actual"] = json!(out_str(&got));
                    ctx.violation(
                        &format!("const.{}:{}:{}", name, mismatch_kind(&expect, &got), tag),
                        d,
                    );
                }
            }
        }
        let inner: Expression = fc(x).into();
        let e = match kind {
            0 => Expression::Zext(target, Box::new(inner)),
            1 => Expression::Sext(target, Box::new(inner)),
            _ => Expression::Trun(target, Box::new(inner)),
        };
        let got_e = guard(|| falcon::executor::eval(&e));
        ctx.eval();
        match got_e {
            Err(p) => ctx.panic_violation(&format!("eval.{}", name), &p, detail),
            Ok(res) => {
                let got = out_falcon(&res);
                if got != expect {
                    let mut d = detail;
                    d["actual"] = json!(out_str(&got));
                    ctx.violation(
                        &format!("eval.{}:{}:{}", name, mismatch_kind(&expect, &got), tag),
                        d,
                    );
                }
            }
        }
        if matches!(expect, Out::Val(..)) {
            ctx.class(&format!("{}/{}", name, wclass(x.bits)));
        } else {
            ctx.class(&format!("{}/err", name));
        }
    }

    /// exhaustive sweep of one (width, op) pair
    fn exhaustive_case(&self, ctx: &mut Ctx, idx: u64) {
        let nops = ALL_BINOPS.len() as u64 + 1; // +1 = ext/trun/ite
        let w = (idx / nops) as usize + 1;
        let opi = (idx % nops) as usize;
        let n = 1u64 << w;
        if opi < ALL_BINOPS.len() {
            let op = ALL_BINOPS[opi];
            for x in 0..n {
                for y in 0..n {
                    self.check_binop(ctx, op, &Bv::from_u64(x, w), &Bv::from_u64(y, w), "exh");
                }
            }
            ctx.count_n("exhaustive_binop_pairs", n * n);
        } else {
            for x in 0..n {
                let xv = Bv::from_u64(x, w);
                for t in 1..=9usize {
                    for k in 0..3u8 {
                        self.check_ext(ctx, k, t, &xv, "exh");
                    }
                }
                // ite over all (cond, x, y)
                for y in 0..n {
                    for c in 0..2u64 {
                        let e = Expression::Ite(
                            Box::new(il::expr_const(c, 1)),
                            Box::new(il::expr_const(x, w)),
                            Box::new(il::expr_const(y, w)),
                        );
                        let expect = Out::Val(BigUint::from(if c == 1 { x } else { y }), w);
                        self.cmp_eval(ctx, &e, &expect, "ite", "exh");
                    }
                }
            }
            ctx.count_n("exhaustive_ext_values", n);
        }
    }

    fn cmp_eval(&self, ctx: &mut Ctx, e: &Expression, expect: &Out, what: &str, tag: &str) {
        let got = guard(|| falcon::executor::eval(e));
        ctx.eval();
        match got {
            Err(p) => ctx.panic_violation(
                &format!("eval.{}", what),
                &p,
                json!({"expr": format!("{}", e)}),
            ),
            Ok(res) => {
                let got = out_falcon(&res);
                if got != *expect {
                    ctx.violation(
                        &format!("eval.{}:{}:{}", what, mismatch_kind(expect, &got), tag),
                        json!({"expr": format!("{}", e), "expected": out_str(expect), "actual": out_str(&got)}),
                    );
                }
            }
        }
    }

    // ---------------------------------------------------------------- random trees

    fn gen_tree(&self, rng: &mut Rng, w: usize, depth: usize, scalars: &[(String, usize)]) -> Expression {
        if depth == 0 || rng.chance(1, 5) {
            // leaf
            let cands: Vec<&(String, usize)> = scalars.iter().filter(|s| s.1 == w).collect();
            if !cands.is_empty() && rng.chance(1, 2) {
                let s = cands[rng.usize(cands.len())];
                return il::expr_scalar(s.0.clone(), w);
            }
            return Expression::Constant(Constant::new_big(rng.corner_big(w), w));
        }
        match rng.below(10) {
            0..=5 => {
                // binary op producing width w
                if w == 1 && rng.chance(1, 2) {
                    // comparison over a random operand width
                    let ow = *rng.pick(&WIDTHS[..22]);
                    let op = *rng.pick(&[BinOp::Cmpeq, BinOp::Cmpneq, BinOp::Cmplts, BinOp::Cmpltu]);
                    let l = self.gen_tree(rng, ow, depth - 1, scalars);
                    let r = self.gen_tree(rng, ow, depth - 1, scalars);
                    raw_bin(op, l, r)
                } else {
                    let op = ALL_BINOPS[rng.usize(13)];
                    let l = self.gen_tree(rng, w, depth - 1, scalars);
                    let r = self.gen_tree(rng, w, depth - 1, scalars);
                    raw_bin(op, l, r)
                }
            }
            6 => {
                // zext/sext from narrower
                if w == 1 {
                    return self.gen_tree(rng, w, 0, scalars);
                }
                let sw = 1 + rng.usize(w - 1);
                let x = self.gen_tree(rng, sw, depth - 1, scalars);
                if rng.bool() {
                    Expression::Zext(w, Box::new(x))
                } else {
                    Expression::Sext(w, Box::new(x))
                }
            }
            7 => {
                // trun from wider
                let sw = w + 1 + rng.usize(70);
                let x = self.gen_tree(rng, sw, depth - 1, scalars);
                Expression::Trun(w, Box::new(x))
            }
            _ => {
                let c = self.gen_tree(rng, 1, depth - 1, scalars);
                let t = self.gen_tree(rng, w, depth - 1, scalars);
                let e = self.gen_tree(rng, w, depth - 1, scalars);
                Expression::Ite(Box::new(c), Box::new(t), Box::new(e))
            }
        }
    }

    fn random_case(&self, ctx: &mut Ctx, rng: &mut Rng) {
        let mode = rng.below(10);
        match mode {
            0..=2 => {
                // single operations at corner widths/values
                for _ in 0..16 {
                    let w = *rng.pick(&WIDTHS);
                    let op = ALL_BINOPS[rng.usize(ALL_BINOPS.len())];
                    let l = Bv::new(rng.corner_big(w), w);
                    let r = Bv::new(rng.corner_big(w), w);
                    self.check_binop(ctx, op, &l, &r, "rnd");
                    // width mismatch must be a sort error from both entry points
                    if rng.chance(1, 4) {
                        let w2 = *rng.pick(&WIDTHS);
                        if w2 != w {
                            let r2 = Bv::new(rng.corner_big(w2), w2);
                            self.check_binop(ctx, op, &l, &r2, "mismatch");
                        }
                    }
                    let t = match rng.below(4) {
                        0 => w,
                        1 => w + 1,
                        2 => w.saturating_sub(1).max(1),
                        _ => *rng.pick(&WIDTHS),
                    };
                    self.check_ext(ctx, rng.below(3) as u8, t, &l, "rnd");
                }
            }
            3..=5 => {
                // well-sorted random trees, all-constant
                let w = *rng.pick(&WIDTHS[..23]);
                let depth = 1 + rng.usize(5);
                let e = self.gen_tree(rng, w, depth, &[]);
                ctx.trace(|| format!("tree {}", e));
                let expect = out_ref(&re::eval(&e, &|_| None));
                self.cmp_eval(ctx, &e, &expect, "tree", "rnd");
                ctx.class(&format!("tree/d{}/{}/{}", depth, wclass(w), if matches!(expect, Out::Val(..)) {"val"} else {"err"}));
                if ctx.want_sample() {
                    ctx.sample(json!({"kind": "tree", "expr": format!("{}", e), "expected": out_str(&expect)}));
                }
            }
            6 => {
                // ill-sorted trees built from raw variants: never Ok-with-garbage, never panic
                let w = *rng.pick(&WIDTHS[..20]);
                let w2 = loop {
                    let x = *rng.pick(&WIDTHS[..20]);
                    if x != w {
                        break x;
                    }
                };
                let good = self.gen_tree(rng, w, 2, &[]);
                let other = self.gen_tree(rng, w2, 2, &[]);
                let bad = match rng.below(4) {
                    0 | 1 => raw_bin(ALL_BINOPS[rng.usize(ALL_BINOPS.len())], good, other),
                    2 => Expression::Zext(w.min(w2), Box::new(if w > w2 { good } else { other })),
                    _ => Expression::Trun(w.max(w2), Box::new(if w < w2 { good } else { other })),
                };
                // wrap in well-sorted context sometimes
                let e = if rng.bool() {
                    match re::sort_of(&bad) {
                        _ => bad,
                    }
                } else {
                    bad
                };
                ctx.trace(|| format!("illsorted {}", e));
                let r = re::eval(&e, &|_| None);
                let got = guard(|| falcon::executor::eval(&e));
                ctx.eval();
                match got {
                    Err(p) => ctx.panic_violation("eval.illsorted", &p, json!({"expr": format!("{}", e)})),
                    Ok(res) => {
                        // reference: the offending node is at the root, so unless an operand
                        // faults first the answer must be a sort error; any Ok is wrong.
                        if let (Err(_), Ok(v)) = (&r, &res) {
                            ctx.violation(
                                "eval.illsorted:accepted",
                                json!({"expr": format!("{}", e), "actual": format!("{}", v)}),
                            );
                        }
                    }
                }
                ctx.class(&format!("illsorted/{}", wclass(w)));
            }
            7 => {
                // constructors accept exactly the well-sorted combinations
                for _ in 0..8 {
                    let lw = *rng.pick(&WIDTHS[..22]);
                    let rw = if rng.bool() { lw } else { *rng.pick(&WIDTHS[..22]) };
                    let op = ALL_BINOPS[rng.usize(ALL_BINOPS.len())];
                    let l = il::expr_const(rng.u64(), lw);
                    let r = il::expr_const(rng.u64(), rw);
                    let got = guard(|| ctor_bin(op, l.clone(), r.clone()));
                    ctx.eval();
                    match got {
                        Err(p) => ctx.panic_violation("ctor.bin", &p, json!({"op": format!("{:?}", op), "lw": lw, "rw": rw})),
                        Ok(res) => {
                            let ok = res.is_ok();
                            if ok != (lw == rw) {
                                ctx.violation(
                                    &format!("ctor.{:?}:{}", op, if ok {"accepts_mismatch"} else {"rejects_wellsorted"}),
                                    json!({"op": format!("{:?}", op), "lw": lw, "rw": rw}),
                                );
                            } else if let Ok(e) = res {
                                let want = match op { BinOp::Cmpeq | BinOp::Cmpneq | BinOp::Cmplts | BinOp::Cmpltu => 1, _ => lw };
                                if e.bits() != want {
                                    ctx.violation(&format!("ctor.{:?}:bits", op), json!({"lw": lw, "bits": e.bits()}));
                                }
                            }
                        }
                    }
                    // ext / trun / ite
                    let t = match rng.below(3) { 0 => lw, 1 => lw + 1 + rng.usize(9), _ => 1 + rng.usize(lw.max(2) - 1) };
                    for k in 0..3 {
                        let got = guard(|| match k {
                            0 => Expression::zext(t, l.clone()),
                            1 => Expression::sext(t, l.clone()),
                            _ => Expression::trun(t, l.clone()),
                        });
                        ctx.eval();
                        let want_ok = if k < 2 { t > lw } else { t < lw && t > 0 };
                        match got {
                            Err(p) => ctx.panic_violation("ctor.ext", &p, json!({"k": k, "t": t, "lw": lw})),
                            Ok(res) => {
                                if res.is_ok() != want_ok {
                                    ctx.violation(
                                        &format!("ctor.{}:{}", ["zext","sext","trun"][k], if want_ok {"rejects_wellsorted"} else {"accepts_illsorted"}),
                                        json!({"target": t, "src_bits": lw}),
                                    );
                                }
                            }
                        }
                    }
                    let cw = if rng.chance(3, 4) { 1 } else { 1 + rng.usize(8) };
                    let c = il::expr_const(rng.below(2), cw);
                    let got = guard(|| Expression::ite(c.clone(), l.clone(), r.clone()));
                    ctx.eval();
                    match got {
                        Err(p) => ctx.panic_violation("ctor.ite", &p, json!({"cw": cw, "lw": lw, "rw": rw})),
                        Ok(res) => {
                            if res.is_ok() != (cw == 1 && lw == rw) {
                                ctx.violation("ctor.ite:decision", json!({"cw": cw, "lw": lw, "rw": rw, "accepted": res.is_ok()}));
                            }
                        }
                    }
                    ctx.class(&format!("ctor/{:?}/{}", op, if lw == rw {"same"} else {"diff"}));
                }
            }
            8 => {
                // derived builders: sra and rotl
                for _ in 0..8 {
                    let w = *rng.pick(&WIDTHS[..23]);
                    let x = Bv::new(rng.corner_big(w), w);
                    // shift amounts: mostly around the width
                    let s = if rng.chance(2, 3) {
                        Bv::new(BigUint::from(rng.below(w as u64 + 3)), w)
                    } else {
                        Bv::new(rng.corner_big(w), w)
                    };
                    let built = guard(|| Expression::sra(fc(&x).into(), fc(&s).into()));
                    match built {
                        Err(p) => ctx.panic_violation("builder.sra", &p, json!({"x": x.hex(), "s": s.hex()})),
                        Ok(Err(e)) => ctx.violation("builder.sra:error", json!({"x": x.hex(), "s": s.hex(), "error": format!("{:?}", e)})),
                        Ok(Ok(e)) => {
                            let expect = out_ref(&re::binop(BinOp::AShr, &x, &s));
                            let amount_class = match s.to_u64() {
                                Some(n) if (n as usize) < w => "lt_width",
                                Some(n) if n as usize == w => "eq_width",
                                _ => "gt_width",
                            };
                            self.cmp_eval(ctx, &e, &expect, "sra", amount_class);
                            ctx.class(&format!("sra/{}/{}/{}", wclass(w), amount_class, if x.is_neg() {"neg"} else {"pos"}));
                        }
                    }
                    // rotl for 0 <= s < w
                    let n = rng.below(w as u64);
                    let sv = Bv::from_u64(n, w);
                    if sv.to_u64() == Some(n) {
                        let built = guard(|| Expression::rotl(fc(&x).into(), fc(&sv).into()));
                        match built {
                            Err(p) => ctx.panic_violation("builder.rotl", &p, json!({"x": x.hex(), "s": n})),
                            Ok(Err(e)) => ctx.violation("builder.rotl:error", json!({"x": x.hex(), "s": n, "error": format!("{:?}", e)})),
                            Ok(Ok(e)) => {
                                let n = n as usize;
                                let rot = if n == 0 { x.v.clone() } else { ((&x.v << n) | (&x.v >> (w - n))) & re::mask(w) };
                                self.cmp_eval(ctx, &e, &Out::Val(rot, w), "rotl", "rnd");
                                ctx.class(&format!("rotl/{}/{}", wclass(w), if n == 0 {"zero"} else {"nz"}));
                            }
                        }
                    }
                }
            }
            _ => {
                // substitution: eval(e[s := c]) == refeval(e, env[s -> c])
                let w = *rng.pick(&WIDTHS[..20]);
                let w2 = *rng.pick(&WIDTHS[..20]);
                let scalars = vec![("a".to_string(), w), ("b".to_string(), w2), ("c".to_string(), w)];
                let depth = 1 + rng.usize(4);
                let e = self.gen_tree(rng, w, depth, &scalars);
                let vals: Vec<Bv> = scalars.iter().map(|s| Bv::new(rng.corner_big(s.1), s.1)).collect();
                let env = |s: &il::Scalar| -> Option<Bv> {
                    scalars.iter().position(|x| x.0 == s.name() && x.1 == s.bits()).map(|i| vals[i].clone())
                };
                let expect = out_ref(&re::eval(&e, &env));
                let nscalars = e.scalars().len();
                let subst = guard(|| {
                    let mut cur = e.clone();
                    for (i, s) in scalars.iter().enumerate() {
                        cur = cur.replace_scalar(&il::scalar(s.0.clone(), s.1), &fc(&vals[i]).into())?;
                    }
                    Ok::<Expression, Error>(cur)
                });
                match subst {
                    Err(p) => ctx.panic_violation("replace_scalar", &p, json!({"expr": format!("{}", e)})),
                    Ok(Err(er)) => ctx.violation("replace_scalar:error", json!({"expr": format!("{}", e), "error": format!("{:?}", er)})),
                    Ok(Ok(se)) => {
                        if !se.scalars().is_empty() {
                            ctx.violation("replace_scalar:left_scalars", json!({"expr": format!("{}", e), "after": format!("{}", se)}));
                        } else {
                            self.cmp_eval(ctx, &se, &expect, "subst", "rnd");
                        }
                    }
                }
                if nscalars > 0 {
                    ctx.class(&format!("subst/{}/n{}", wclass(w), nscalars.min(4)));
                }
                // an unsubstituted scalar must be reported, not guessed
                if nscalars > 0 {
                    let got = guard(|| falcon::executor::eval(&e));
                    ctx.eval();
                    if let Ok(Ok(v)) = got {
                        // legal only when refeval with an empty env also yields a value (scalar in an untaken arm)
                        if re::eval(&e, &|_| None).is_err() {
                            ctx.violation("eval.scalar:guessed", json!({"expr": format!("{}", e), "actual": format!("{}", v)}));
                        }
                    } else if let Err(p) = got {
                        ctx.panic_violation("eval.scalar", &p, json!({"expr": format!("{}", e)}));
                    }
                }
            }
        }
    }
}

fn mismatch_kind(expect: &Out, got: &Out) -> &'static str {
    match (expect, got) {
        (Out::Val(..), Out::Val(_, _)) => "wrong_value",
        (Out::Val(..), Out::Sort) => "spurious_sort_error",
        (Out::Val(..), _) => "spurious_error",
        (Out::Sort, Out::Val(..)) => "accepted_mismatch",
        (Out::DivZero, Out::Val(..)) => "divzero_value",
        (_, _) => "wrong_error",
    }
}

impl Check for C04 {
    fn directed(&self) -> u64 {
        (self.exh_max_width as u64) * (ALL_BINOPS.len() as u64 + 1) + 1
    }
    fn run(&mut self, ctx: &mut Ctx, rng: &mut Rng, case: u64) {
        let d = self.directed();
        if case < d - 1 {
            self.exhaustive_case(ctx, case);
        } else if case == d - 1 {
            // directed regression witnesses (inputs of recorded findings / fixed defects)
            let w = 8;
            for (x, s) in [(0x80u64, 9u64), (0x80, 200), (0x7f, 9), (0xff, 8), (0x80, 8)] {
                self.check_binop(ctx, BinOp::AShr, &Bv::from_u64(x, w), &Bv::from_u64(s, w), "directed");
            }
            self.check_binop(ctx, BinOp::AShr, &Bv::from_u64(1 << 63, 64), &Bv::from_u64(u64::MAX, 64), "directed");
            self.check_ext(ctx, 1, 13, &Bv::from_u64(5, 3), "directed");
            self.check_ext(ctx, 1, 33, &Bv::from_u64(0x8000_0000, 32), "directed");
            for (x, s) in [(0x80u64, 9u64), (0x80, 8), (0x80, 7), (0x80, 255)] {
                let (xb, sb) = (Bv::from_u64(x, 8), Bv::from_u64(s, 8));
                if let Ok(Ok(e)) = guard(|| Expression::sra(fc(&xb).into(), fc(&sb).into())) {
                    let expect = out_ref(&re::binop(BinOp::AShr, &xb, &sb));
                    let tag = if s > 8 { "gt_width" } else if s == 8 { "eq_width" } else { "lt_width" };
                    self.cmp_eval(ctx, &e, &expect, "sra", tag);
                }
            }
        } else {
            self.random_case(ctx, rng);
        }
    }
}
