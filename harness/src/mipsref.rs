//! Independent MIPS32 release 2 (integer subset) reference interpreter.
//!
//! Written from the "MIPS32 Architecture For Programmers, Volume II" instruction descriptions.
//! Single file, std only.  Intended as a test oracle: where the manual says UNPREDICTABLE the
//! interpreter says so (`MipsOutcome::Unpredictable`) instead of picking a behaviour.
//!
//! Conventions / documented choices:
//! * `gpr[0]` is never written and always *read* as 0, even if the caller stored something else
//!   in `cpu.gpr[0]`.
//! * `mul` leaves HI/LO unchanged (the manual makes them UNPREDICTABLE after `mul`); callers should
//!   not compare HI/LO after a `mul`.
//! * `div` with INT_MIN / -1 gives LO = INT_MIN, HI = 0 (two's complement wrap).
//! * `div`/`divu` with a zero divisor: `Unpredictable("div0")`, state unchanged.
//! * `ll` behaves as `lw`; `sc` behaves as `sw` followed by `rt := 1` (always succeeds).
//! * `pref` and `sync` are no-ops (`pref` performs no memory access and can never fault).
//! * Precedence for loads/stores: alignment (Address Error) is checked before mapping.
//! * `MemFault(a)`: `a` is the LOWEST unmapped byte address among the bytes the access touches.
//!   For lwl/lwr/swl/swr only the bytes actually transferred are touched.
//! * `jalr` with rs == rd, `bltzal`/`bgezal` with rs == 31, `clz`/`clo` with rt != rd, `ext` with
//!   lsb+msbd > 31 and `ins` with lsb > msb are UNPREDICTABLE per the manual and are reported so.
//! * Branch-likely forms, jr.hb / jalr.hb (non-zero hint field) and every word with a non-zero
//!   must-be-zero field are not modelled (`mnemonic` -> None, `step` -> Unmodelled).

use std::collections::BTreeMap;

#[derive(Clone, Debug, PartialEq, Eq)]
pub struct MipsCpu {
    pub gpr: [u32; 32],
    pub hi: u32,
    pub lo: u32,
    pub mem: BTreeMap<u32, u8>,
    pub big_endian: bool,
}

#[derive(Clone, Debug, PartialEq, Eq)]
pub enum MipsOutcome {
    /// Normal completion; `pc` is the address of the next instruction to execute.
    Next { pc: u32 },
    /// "overflow", "trap", "break", "syscall".
    Trap(&'static str),
    /// Load/store touched an unmapped byte (lowest such address) - state unchanged by that access.
    MemFault(u32),
    /// Address Error: effective address not naturally aligned (lw/sw/lh/lhu/sh/ll/sc).
    Unaligned(u32),
    /// UNPREDICTABLE per the manual.
    Unpredictable(&'static str),
    /// Word not modelled by this reference.
    Unmodelled,
}

impl MipsCpu {
    /// All registers zero, empty memory.
    pub fn new(big_endian: bool) -> Self {
        MipsCpu { gpr: [0; 32], hi: 0, lo: 0, mem: BTreeMap::new(), big_endian }
    }

    /// Architectural read of GPR `r` (0..=31); register 0 reads as zero.
    pub fn reg(&self, r: u32) -> u32 {
        if r & 31 == 0 { 0 } else { self.gpr[(r & 31) as usize] }
    }

    /// Architectural write of GPR `r`; writes to register 0 are discarded.
    pub fn set_reg(&mut self, r: u32, v: u32) {
        if r & 31 != 0 {
            self.gpr[(r & 31) as usize] = v;
        }
    }

    /// Map (or overwrite) consecutive bytes starting at `addr`.
    pub fn map_bytes(&mut self, addr: u32, bytes: &[u8]) {
        for (i, b) in bytes.iter().enumerate() {
            self.mem.insert(addr.wrapping_add(i as u32), *b);
        }
    }

    /// Map a 32-bit word at `addr` in the CPU's data endianness.
    pub fn map_word(&mut self, addr: u32, value: u32) {
        let bytes = if self.big_endian { value.to_be_bytes() } else { value.to_le_bytes() };
        self.map_bytes(addr, &bytes);
    }

    /// Read a 32-bit word at `addr` in the CPU's data endianness (None if any byte unmapped).
    pub fn read_word(&self, addr: u32) -> Option<u32> {
        let mut b = [0u8; 4];
        for i in 0..4u32 {
            b[i as usize] = *self.mem.get(&addr.wrapping_add(i))?;
        }
        Some(if self.big_endian { u32::from_be_bytes(b) } else { u32::from_le_bytes(b) })
    }
}

// ---------------------------------------------------------------------------------------------
// Decoding
// ---------------------------------------------------------------------------------------------

#[derive(Clone, Copy, Debug, PartialEq, Eq)]
enum Op {
    Sll, Srl, Sra, Sllv, Srlv, Srav, Rotr, Rotrv,
    Jr, Jalr, Movz, Movn, Syscall, Break, Sync,
    Mfhi, Mthi, Mflo, Mtlo, Mult, Multu, Div, Divu,
    Add, Addu, Sub, Subu, And, Or, Xor, Nor, Slt, Sltu, Teq,
    Madd, Maddu, Mul, Msub, Msubu, Clz, Clo,
    Ext, Ins, Wsbh, Seb, Seh,
    Bltz, Bgez, Bltzal, Bgezal,
    J, Jal, Beq, Bne, Blez, Bgtz,
    Addi, Addiu, Slti, Sltiu, Andi, Ori, Xori, Lui,
    Lb, Lh, Lwl, Lw, Lbu, Lhu, Lwr, Sb, Sh, Swl, Sw, Swr, Ll, Pref, Sc,
}

impl Op {
    fn name(self) -> &'static str {
        use Op::*;
        match self {
            Sll => "sll", Srl => "srl", Sra => "sra", Sllv => "sllv", Srlv => "srlv",
            Srav => "srav", Rotr => "rotr", Rotrv => "rotrv",
            Jr => "jr", Jalr => "jalr", Movz => "movz", Movn => "movn",
            Syscall => "syscall", Break => "break", Sync => "sync",
            Mfhi => "mfhi", Mthi => "mthi", Mflo => "mflo", Mtlo => "mtlo",
            Mult => "mult", Multu => "multu", Div => "div", Divu => "divu",
            Add => "add", Addu => "addu", Sub => "sub", Subu => "subu",
            And => "and", Or => "or", Xor => "xor", Nor => "nor",
            Slt => "slt", Sltu => "sltu", Teq => "teq",
            Madd => "madd", Maddu => "maddu", Mul => "mul", Msub => "msub", Msubu => "msubu",
            Clz => "clz", Clo => "clo",
            Ext => "ext", Ins => "ins", Wsbh => "wsbh", Seb => "seb", Seh => "seh",
            Bltz => "bltz", Bgez => "bgez", Bltzal => "bltzal", Bgezal => "bgezal",
            J => "j", Jal => "jal", Beq => "beq", Bne => "bne", Blez => "blez", Bgtz => "bgtz",
            Addi => "addi", Addiu => "addiu", Slti => "slti", Sltiu => "sltiu",
            Andi => "andi", Ori => "ori", Xori => "xori", Lui => "lui",
            Lb => "lb", Lh => "lh", Lwl => "lwl", Lw => "lw", Lbu => "lbu", Lhu => "lhu",
            Lwr => "lwr", Sb => "sb", Sh => "sh", Swl => "swl", Sw => "sw", Swr => "swr",
            Ll => "ll", Pref => "pref", Sc => "sc",
        }
    }

    fn has_delay_slot(self) -> bool {
        use Op::*;
        matches!(self, Jr | Jalr | Bltz | Bgez | Bltzal | Bgezal | J | Jal | Beq | Bne | Blez | Bgtz)
    }
}

#[derive(Clone, Copy, Debug)]
struct Fields {
    opcode: u32,
    rs: u32,
    rt: u32,
    rd: u32,
    sa: u32,
    funct: u32,
    /// zero-extended 16-bit immediate
    imm: u32,
    /// sign-extended 16-bit immediate
    simm: u32,
    /// 26-bit instr_index
    index: u32,
}

fn fields(word: u32) -> Fields {
    let imm = word & 0xffff;
    Fields {
        opcode: word >> 26,
        rs: (word >> 21) & 31,
        rt: (word >> 16) & 31,
        rd: (word >> 11) & 31,
        sa: (word >> 6) & 31,
        funct: word & 63,
        imm,
        simm: imm as u16 as i16 as i32 as u32,
        index: word & 0x03ff_ffff,
    }
}

fn decode(word: u32) -> Option<Op> {
    use Op::*;
    let f = fields(word);
    let when = |cond: bool, op: Op| if cond { Some(op) } else { None };
    match f.opcode {
        0x00 => match f.funct {
            // shifts by immediate: rs field must be 0 (rs field == 1 selects ROTR for SRL)
            0x00 => when(f.rs == 0, Sll),
            0x02 => match f.rs { 0 => Some(Srl), 1 => Some(Rotr), _ => None },
            0x03 => when(f.rs == 0, Sra),
            // variable shifts: sa field must be 0 (sa field == 1 selects ROTRV for SRLV)
            0x04 => when(f.sa == 0, Sllv),
            0x06 => match f.sa { 0 => Some(Srlv), 1 => Some(Rotrv), _ => None },
            0x07 => when(f.sa == 0, Srav),
            // jr: bits 20..11 zero, hint (bits 10..6) zero
            0x08 => when(f.rt == 0 && f.rd == 0 && f.sa == 0, Jr),
            // jalr: rt zero, hint zero
            0x09 => when(f.rt == 0 && f.sa == 0, Jalr),
            0x0a => when(f.sa == 0, Movz),
            0x0b => when(f.sa == 0, Movn),
            0x0c => Some(Syscall), // bits 25..6 = code
            0x0d => Some(Break),   // bits 25..6 = code
            0x0f => when(f.rs == 0 && f.rt == 0 && f.rd == 0, Sync), // sa = stype
            0x10 => when(f.rs == 0 && f.rt == 0 && f.sa == 0, Mfhi),
            0x11 => when(f.rt == 0 && f.rd == 0 && f.sa == 0, Mthi),
            0x12 => when(f.rs == 0 && f.rt == 0 && f.sa == 0, Mflo),
            0x13 => when(f.rt == 0 && f.rd == 0 && f.sa == 0, Mtlo),
            0x18 => when(f.rd == 0 && f.sa == 0, Mult),
            0x19 => when(f.rd == 0 && f.sa == 0, Multu),
            0x1a => when(f.rd == 0 && f.sa == 0, Div),
            0x1b => when(f.rd == 0 && f.sa == 0, Divu),
            0x20 => when(f.sa == 0, Add),
            0x21 => when(f.sa == 0, Addu),
            0x22 => when(f.sa == 0, Sub),
            0x23 => when(f.sa == 0, Subu),
            0x24 => when(f.sa == 0, And),
            0x25 => when(f.sa == 0, Or),
            0x26 => when(f.sa == 0, Xor),
            0x27 => when(f.sa == 0, Nor),
            0x2a => when(f.sa == 0, Slt),
            0x2b => when(f.sa == 0, Sltu),
            0x34 => Some(Teq), // bits 15..6 = code
            _ => None,
        },
        0x01 => match f.rt {
            0x00 => Some(Bltz),
            0x01 => Some(Bgez),
            0x10 => Some(Bltzal),
            0x11 => Some(Bgezal),
            _ => None,
        },
        0x02 => Some(J),
        0x03 => Some(Jal),
        0x04 => Some(Beq),
        0x05 => Some(Bne),
        0x06 => when(f.rt == 0, Blez),
        0x07 => when(f.rt == 0, Bgtz),
        0x08 => Some(Addi),
        0x09 => Some(Addiu),
        0x0a => Some(Slti),
        0x0b => Some(Sltiu),
        0x0c => Some(Andi),
        0x0d => Some(Ori),
        0x0e => Some(Xori),
        0x0f => when(f.rs == 0, Lui),
        0x1c => match f.funct {
            0x00 => when(f.rd == 0 && f.sa == 0, Madd),
            0x01 => when(f.rd == 0 && f.sa == 0, Maddu),
            0x02 => when(f.sa == 0, Mul),
            0x04 => when(f.rd == 0 && f.sa == 0, Msub),
            0x05 => when(f.rd == 0 && f.sa == 0, Msubu),
            0x20 => when(f.sa == 0, Clz),
            0x21 => when(f.sa == 0, Clo),
            _ => None,
        },
        0x1f => match f.funct {
            0x00 => Some(Ext),
            0x04 => Some(Ins),
            0x20 => match f.sa {
                0x02 => when(f.rs == 0, Wsbh),
                0x10 => when(f.rs == 0, Seb),
                0x18 => when(f.rs == 0, Seh),
                _ => None,
            },
            _ => None,
        },
        0x20 => Some(Lb),
        0x21 => Some(Lh),
        0x22 => Some(Lwl),
        0x23 => Some(Lw),
        0x24 => Some(Lbu),
        0x25 => Some(Lhu),
        0x26 => Some(Lwr),
        0x28 => Some(Sb),
        0x29 => Some(Sh),
        0x2a => Some(Swl),
        0x2b => Some(Sw),
        0x2e => Some(Swr),
        0x30 => Some(Ll),
        0x33 => Some(Pref),
        0x38 => Some(Sc),
        _ => None,
    }
}

/// Canonical lower-case mnemonic of a modelled word, else None.
pub fn mnemonic(word: u32) -> Option<&'static str> {
    decode(word).map(Op::name)
}

/// true if `word` is a modelled branch or jump (all of which have a delay slot).
pub fn has_delay_slot(word: u32) -> bool {
    decode(word).map_or(false, Op::has_delay_slot)
}

// ---------------------------------------------------------------------------------------------
// Memory helpers
// ---------------------------------------------------------------------------------------------

/// Lowest unmapped address among `addrs`, if any.
fn first_unmapped(cpu: &MipsCpu, addrs: impl Iterator<Item = u32>) -> Option<u32> {
    addrs.filter(|a| !cpu.mem.contains_key(a)).min()
}

/// Naturally aligned (or byte) load of `n` in {1,2,4} bytes, zero-extended.
fn load(cpu: &MipsCpu, addr: u32, n: u32) -> Result<u32, MipsOutcome> {
    if addr % n != 0 {
        return Err(MipsOutcome::Unaligned(addr));
    }
    if let Some(a) = first_unmapped(cpu, (0..n).map(|i| addr.wrapping_add(i))) {
        return Err(MipsOutcome::MemFault(a));
    }
    let mut v: u32 = 0;
    for i in 0..n {
        // big-endian: lowest address is most significant; little-endian: least significant
        let b = cpu.mem[&addr.wrapping_add(i)] as u32;
        if cpu.big_endian {
            v = (v << 8) | b;
        } else {
            v |= b << (8 * i);
        }
    }
    Ok(v)
}

/// Naturally aligned (or byte) store of the low `n` bytes of `value`.
fn store(cpu: &mut MipsCpu, addr: u32, n: u32, value: u32) -> Result<(), MipsOutcome> {
    if addr % n != 0 {
        return Err(MipsOutcome::Unaligned(addr));
    }
    if let Some(a) = first_unmapped(cpu, (0..n).map(|i| addr.wrapping_add(i))) {
        return Err(MipsOutcome::MemFault(a));
    }
    for i in 0..n {
        let shift = if cpu.big_endian { 8 * (n - 1 - i) } else { 8 * i };
        cpu.mem.insert(addr.wrapping_add(i), (value >> shift) as u8);
    }
    Ok(())
}

/// Byte lanes of lwl/swl (`left == true`) and lwr/swr (`left == false`):
/// pairs of (memory address, register byte index) with register byte 0 = least significant.
///
/// "left" forms: the byte AT the effective address pairs with the MOST significant register byte,
/// and successive less-significant register bytes pair with successive memory bytes moving toward
/// the least-significant end of the aligned memory word (ascending addresses on big-endian,
/// descending on little-endian), stopping at the word boundary.
///
/// "right" forms: the byte AT the effective address pairs with the LEAST significant register
/// byte, and successive more-significant register bytes pair with memory bytes moving toward the
/// most-significant end of the aligned word (descending addresses on big-endian, ascending on
/// little-endian), stopping at the word boundary.
fn partial_lanes(big_endian: bool, addr: u32, left: bool) -> Vec<(u32, u32)> {
    let n = addr & 3;
    let ascending = big_endian == left;
    let count = if ascending { 4 - n } else { n + 1 };
    (0..count)
        .map(|i| {
            let a = if ascending { addr.wrapping_add(i) } else { addr.wrapping_sub(i) };
            (a, if left { 3 - i } else { i })
        })
        .collect()
}

fn load_partial(cpu: &MipsCpu, addr: u32, left: bool, old: u32) -> Result<u32, MipsOutcome> {
    let lanes = partial_lanes(cpu.big_endian, addr, left);
    if let Some(a) = first_unmapped(cpu, lanes.iter().map(|l| l.0)) {
        return Err(MipsOutcome::MemFault(a));
    }
    let mut v = old;
    for (a, lane) in lanes {
        let b = cpu.mem[&a] as u32;
        v = (v & !(0xffu32 << (8 * lane))) | (b << (8 * lane));
    }
    Ok(v)
}

fn store_partial(cpu: &mut MipsCpu, addr: u32, left: bool, value: u32) -> Result<(), MipsOutcome> {
    let lanes = partial_lanes(cpu.big_endian, addr, left);
    if let Some(a) = first_unmapped(cpu, lanes.iter().map(|l| l.0)) {
        return Err(MipsOutcome::MemFault(a));
    }
    for (a, lane) in lanes {
        cpu.mem.insert(a, (value >> (8 * lane)) as u8);
    }
    Ok(())
}

// ---------------------------------------------------------------------------------------------
// Execution
// ---------------------------------------------------------------------------------------------

/// Execute a non-branch instruction located at `pc`.
fn exec_simple(cpu: &mut MipsCpu, pc: u32, f: Fields, op: Op) -> MipsOutcome {
    use Op::*;
    let rs = cpu.reg(f.rs);
    let rt = cpu.reg(f.rt);
    let ea = rs.wrapping_add(f.simm);
    let hilo = ((cpu.hi as u64) << 32) | cpu.lo as u64;
    let sprod = ((rs as i32 as i64).wrapping_mul(rt as i32 as i64)) as u64;
    let uprod = (rs as u64).wrapping_mul(rt as u64);
    let set_hilo = |cpu: &mut MipsCpu, v: u64| {
        cpu.hi = (v >> 32) as u32;
        cpu.lo = v as u32;
    };
    macro_rules! try_mem {
        ($e:expr) => {
            match $e {
                Ok(v) => v,
                Err(o) => return o,
            }
        };
    }
    match op {
        Sll => cpu.set_reg(f.rd, rt << f.sa),
        Srl => cpu.set_reg(f.rd, rt >> f.sa),
        Sra => cpu.set_reg(f.rd, ((rt as i32) >> f.sa) as u32),
        Rotr => cpu.set_reg(f.rd, rt.rotate_right(f.sa)),
        Sllv => cpu.set_reg(f.rd, rt << (rs & 31)),
        Srlv => cpu.set_reg(f.rd, rt >> (rs & 31)),
        Srav => cpu.set_reg(f.rd, ((rt as i32) >> (rs & 31)) as u32),
        Rotrv => cpu.set_reg(f.rd, rt.rotate_right(rs & 31)),
        Movz => {
            if rt == 0 {
                cpu.set_reg(f.rd, rs)
            }
        }
        Movn => {
            if rt != 0 {
                cpu.set_reg(f.rd, rs)
            }
        }
        Syscall => return MipsOutcome::Trap("syscall"),
        Break => return MipsOutcome::Trap("break"),
        Sync | Pref => {}
        Mfhi => cpu.set_reg(f.rd, cpu.hi),
        Mflo => cpu.set_reg(f.rd, cpu.lo),
        Mthi => cpu.hi = rs,
        Mtlo => cpu.lo = rs,
        Mult => set_hilo(cpu, sprod),
        Multu => set_hilo(cpu, uprod),
        Madd => set_hilo(cpu, hilo.wrapping_add(sprod)),
        Maddu => set_hilo(cpu, hilo.wrapping_add(uprod)),
        Msub => set_hilo(cpu, hilo.wrapping_sub(sprod)),
        Msubu => set_hilo(cpu, hilo.wrapping_sub(uprod)),
        // HI/LO are UNPREDICTABLE after mul; left unchanged here.
        Mul => cpu.set_reg(f.rd, sprod as u32),
        Div => {
            if rt == 0 {
                return MipsOutcome::Unpredictable("div0");
            }
            let (a, b) = (rs as i32, rt as i32);
            cpu.lo = a.wrapping_div(b) as u32; // truncates toward zero; INT_MIN/-1 -> INT_MIN
            cpu.hi = a.wrapping_rem(b) as u32; // sign follows dividend;    INT_MIN%-1 -> 0
        }
        Divu => {
            if rt == 0 {
                return MipsOutcome::Unpredictable("div0");
            }
            cpu.lo = rs / rt;
            cpu.hi = rs % rt;
        }
        Add | Addi | Sub => {
            let a = rs as i32 as i64;
            let b = if op == Addi { f.simm as i32 as i64 } else { rt as i32 as i64 };
            let wide = if op == Sub { a - b } else { a + b };
            if wide < i32::MIN as i64 || wide > i32::MAX as i64 {
                return MipsOutcome::Trap("overflow");
            }
            cpu.set_reg(if op == Addi { f.rt } else { f.rd }, wide as u32);
        }
        Addu => cpu.set_reg(f.rd, rs.wrapping_add(rt)),
        Subu => cpu.set_reg(f.rd, rs.wrapping_sub(rt)),
        And => cpu.set_reg(f.rd, rs & rt),
        Or => cpu.set_reg(f.rd, rs | rt),
        Xor => cpu.set_reg(f.rd, rs ^ rt),
        Nor => cpu.set_reg(f.rd, !(rs | rt)),
        Slt => cpu.set_reg(f.rd, ((rs as i32) < (rt as i32)) as u32),
        Sltu => cpu.set_reg(f.rd, (rs < rt) as u32),
        Teq => {
            if rs == rt {
                return MipsOutcome::Trap("trap");
            }
        }
        Clz | Clo => {
            if f.rt != f.rd {
                return MipsOutcome::Unpredictable("clz/clo rt != rd");
            }
            let v = if op == Clz { rs.leading_zeros() } else { rs.leading_ones() };
            cpu.set_reg(f.rd, v);
        }
        Ext => {
            // msbd = rd field (size-1), lsb = sa field (pos)
            let (msbd, lsb) = (f.rd, f.sa);
            if lsb + msbd > 31 {
                return MipsOutcome::Unpredictable("ext lsb+msbd > 31");
            }
            let mask = (((1u64 << (msbd + 1)) - 1) as u32) << lsb;
            cpu.set_reg(f.rt, (rs & mask) >> lsb);
        }
        Ins => {
            // msb = rd field (pos+size-1), lsb = sa field (pos)
            let (msb, lsb) = (f.rd, f.sa);
            if lsb > msb {
                return MipsOutcome::Unpredictable("ins lsb > msb");
            }
            let mask = (((1u64 << (msb - lsb + 1)) - 1) as u32) << lsb;
            cpu.set_reg(f.rt, (rt & !mask) | ((rs << lsb) & mask));
        }
        Wsbh => cpu.set_reg(f.rd, ((rt & 0x00ff_00ff) << 8) | ((rt >> 8) & 0x00ff_00ff)),
        Seb => cpu.set_reg(f.rd, rt as u8 as i8 as i32 as u32),
        Seh => cpu.set_reg(f.rd, rt as u16 as i16 as i32 as u32),
        Addiu => cpu.set_reg(f.rt, rs.wrapping_add(f.simm)),
        Slti => cpu.set_reg(f.rt, ((rs as i32) < (f.simm as i32)) as u32),
        Sltiu => cpu.set_reg(f.rt, (rs < f.simm) as u32),
        Andi => cpu.set_reg(f.rt, rs & f.imm),
        Ori => cpu.set_reg(f.rt, rs | f.imm),
        Xori => cpu.set_reg(f.rt, rs ^ f.imm),
        Lui => cpu.set_reg(f.rt, f.imm << 16),
        Lb => {
            let v = try_mem!(load(cpu, ea, 1));
            cpu.set_reg(f.rt, v as u8 as i8 as i32 as u32);
        }
        Lbu => {
            let v = try_mem!(load(cpu, ea, 1));
            cpu.set_reg(f.rt, v);
        }
        Lh => {
            let v = try_mem!(load(cpu, ea, 2));
            cpu.set_reg(f.rt, v as u16 as i16 as i32 as u32);
        }
        Lhu => {
            let v = try_mem!(load(cpu, ea, 2));
            cpu.set_reg(f.rt, v);
        }
        Lw | Ll => {
            let v = try_mem!(load(cpu, ea, 4));
            cpu.set_reg(f.rt, v);
        }
        Lwl | Lwr => {
            let v = try_mem!(load_partial(cpu, ea, op == Lwl, rt));
            cpu.set_reg(f.rt, v);
        }
        Sb => try_mem!(store(cpu, ea, 1, rt)),
        Sh => try_mem!(store(cpu, ea, 2, rt)),
        Sw => try_mem!(store(cpu, ea, 4, rt)),
        Sc => {
            try_mem!(store(cpu, ea, 4, rt));
            cpu.set_reg(f.rt, 1);
        }
        Swl | Swr => try_mem!(store_partial(cpu, ea, op == Swl, rt)),
        Jr | Jalr | Bltz | Bgez | Bltzal | Bgezal | J | Jal | Beq | Bne | Blez | Bgtz => {
            // never reached: branches are dispatched to exec_branch
            return MipsOutcome::Unmodelled;
        }
    }
    MipsOutcome::Next { pc: pc.wrapping_add(4) }
}

/// Execute a branch/jump at `pc` together with its delay slot.
fn exec_branch(cpu: &mut MipsCpu, pc: u32, f: Fields, op: Op, slot: Option<u32>) -> MipsOutcome {
    use Op::*;
    let slot_word = match slot {
        Some(w) => w,
        None => return MipsOutcome::Unmodelled,
    };
    match op {
        Jalr if f.rs == f.rd => return MipsOutcome::Unpredictable("jalr rs == rd"),
        Bltzal | Bgezal if f.rs == 31 => {
            return MipsOutcome::Unpredictable("branch-and-link rs == 31")
        }
        _ => {}
    }
    let slot_op = match decode(slot_word) {
        Some(o) => o,
        None => return MipsOutcome::Unmodelled,
    };
    if slot_op.has_delay_slot() {
        return MipsOutcome::Unpredictable("branch in delay slot");
    }

    // Everything the branch needs is sampled from the state BEFORE the slot executes.
    let rs = cpu.reg(f.rs);
    let rt = cpu.reg(f.rt);
    let slot_pc = pc.wrapping_add(4);
    let fallthrough = pc.wrapping_add(8);
    let btarget = slot_pc.wrapping_add(f.simm << 2);
    let jtarget = (slot_pc & 0xf000_0000) | (f.index << 2);
    let srs = rs as i32;
    let (taken, target, link): (bool, u32, Option<u32>) = match op {
        J => (true, jtarget, None),
        Jal => (true, jtarget, Some(31)),
        Jr => (true, rs, None),
        Jalr => (true, rs, Some(f.rd)),
        Beq => (rs == rt, btarget, None),
        Bne => (rs != rt, btarget, None),
        Blez => (srs <= 0, btarget, None),
        Bgtz => (srs > 0, btarget, None),
        Bltz => (srs < 0, btarget, None),
        Bgez => (srs >= 0, btarget, None),
        // and-link forms link unconditionally
        Bltzal => (srs < 0, btarget, Some(31)),
        Bgezal => (srs >= 0, btarget, Some(31)),
        _ => return MipsOutcome::Unmodelled,
    };
    if let Some(r) = link {
        cpu.set_reg(r, fallthrough);
    }
    match exec_simple(cpu, slot_pc, fields(slot_word), slot_op) {
        MipsOutcome::Next { .. } => MipsOutcome::Next { pc: if taken { target } else { fallthrough } },
        other => other,
    }
}

/// Execute the instruction `word` located at `pc` (see module docs / type docs).
pub fn step(cpu: &mut MipsCpu, pc: u32, word: u32, slot: Option<u32>) -> MipsOutcome {
    let op = match decode(word) {
        Some(op) => op,
        None => return MipsOutcome::Unmodelled,
    };
    let f = fields(word);
    if op.has_delay_slot() {
        exec_branch(cpu, pc, f, op, slot)
    } else {
        exec_simple(cpu, pc, f, op)
    }
}

// ---------------------------------------------------------------------------------------------
// Tests.  Every expected value below was derived by hand from the manual's definitions.
// ---------------------------------------------------------------------------------------------
#[cfg(test)]
mod tests {
    use super::*;
    use MipsOutcome::*;

    const V0: u32 = 2;
    const V1: u32 = 3;
    const A0: u32 = 4;
    const A1: u32 = 5;
    const T9: u32 = 25;
    const RA: u32 = 31;
    const PC: u32 = 0x0040_0000;

    /// SPECIAL (opcode 0) R-type
    fn r(rs: u32, rt: u32, rd: u32, sa: u32, funct: u32) -> u32 {
        (rs << 21) | (rt << 16) | (rd << 11) | (sa << 6) | funct
    }
    /// SPECIAL2 (opcode 0x1c) R-type
    fn r2(rs: u32, rt: u32, rd: u32, sa: u32, funct: u32) -> u32 {
        0x7000_0000 | r(rs, rt, rd, sa, funct)
    }
    /// SPECIAL3 (opcode 0x1f) R-type
    fn r3(rs: u32, rt: u32, rd: u32, sa: u32, funct: u32) -> u32 {
        0x7c00_0000 | r(rs, rt, rd, sa, funct)
    }
    /// I-type
    fn i(op: u32, rs: u32, rt: u32, imm: i32) -> u32 {
        (op << 26) | (rs << 21) | (rt << 16) | (imm as u32 & 0xffff)
    }
    fn cpu(be: bool) -> MipsCpu {
        MipsCpu::new(be)
    }
    /// Run a non-branch instruction at PC, require normal completion at PC+4.
    fn run(c: &mut MipsCpu, word: u32) {
        assert_eq!(step(c, PC, word, None), Next { pc: PC + 4 }, "word {:#010x}", word);
    }
    /// cpu (big endian) with a0, a1 preset and v0 = 0xdeadbeef
    fn with(a0: u32, a1: u32) -> MipsCpu {
        let mut c = cpu(true);
        c.gpr[A0 as usize] = a0;
        c.gpr[A1 as usize] = a1;
        c.gpr[V0 as usize] = 0xdead_beef;
        c
    }
    /// execute R-type SPECIAL `funct` as "op v0, a0, a1" (rs=a0, rt=a1, rd=v0) and return v0
    fn alu(funct: u32, a0: u32, a1: u32) -> u32 {
        let mut c = with(a0, a1);
        run(&mut c, r(A0, A1, V0, 0, funct));
        c.gpr[V0 as usize]
    }
    /// execute I-type "op v0, a0, imm" and return v0
    fn alui(op: u32, a0: u32, imm: i32) -> u32 {
        let mut c = with(a0, 0);
        run(&mut c, i(op, A0, V0, imm));
        c.gpr[V0 as usize]
    }

    // ---- decoding ------------------------------------------------------------------------

    #[test]
    fn decode_known_words() {
        // Words as produced by real assemblers (hand-assembled from the encoding tables).
        let known: &[(u32, &str)] = &[
            (0x0000_0000, "sll"),  // nop
            (0x0000_0040, "sll"),  // ssnop
            (0x0000_00c0, "sll"),  // ehb
            (0x27bd_ffe0, "addiu"), // addiu sp,sp,-32
            (0x03e0_0008, "jr"),   // jr ra
            (0x8fbf_001c, "lw"),   // lw ra,28(sp)
            (0xafbf_001c, "sw"),   // sw ra,28(sp)
            (0x0085_1021, "addu"), // addu v0,a0,a1
            (0x3c1c_1234, "lui"),  // lui gp,0x1234
            (0x0c10_0040, "jal"),  // jal 0x400100
            (0x0810_0040, "j"),
            (0x1000_ffff, "beq"),  // b .
            (0x1480_0003, "bne"),  // bnez a0,+3
            (0x0320_f809, "jalr"), // jalr t9
            (0x0000_000c, "syscall"),
            (0x0000_000d, "break"),
            (0x0000_000f, "sync"),
            (0x7085_1002, "mul"),
            (0x0085_0018, "mult"),
            (0x0085_0019, "multu"),
            (0x0085_001a, "div"),
            (0x0085_001b, "divu"),
            (0x0000_1010, "mfhi"),
            (0x0000_1012, "mflo"),
            (0x0080_0011, "mthi"),
            (0x0080_0013, "mtlo"),
            (0x0004_1080, "sll"),
            (0x0004_1102, "srl"),
            (0x0004_17c3, "sra"),
            (0x0024_1202, "rotr"),
            (0x0085_1004, "sllv"),
            (0x0085_1006, "srlv"),
            (0x0085_1007, "srav"),
            (0x0085_1046, "rotrv"),
            (0x0085_1020, "add"),
            (0x0085_1022, "sub"),
            (0x0085_1023, "subu"),
            (0x0085_1024, "and"),
            (0x0085_1025, "or"),
            (0x0085_1026, "xor"),
            (0x0085_1027, "nor"),
            (0x0085_102a, "slt"),
            (0x0085_102b, "sltu"),
            (0x0085_100a, "movz"),
            (0x0085_100b, "movn"),
            (0x0085_0034, "teq"),
            (0x7085_0000, "madd"),
            (0x7085_0001, "maddu"),
            (0x7085_0004, "msub"),
            (0x7085_0005, "msubu"),
            (0x7082_1020, "clz"),
            (0x7082_1021, "clo"),
            (0x7c04_1420, "seb"),
            (0x7c04_1620, "seh"),
            (0x7c04_10a0, "wsbh"),
            (0x7c82_3900, "ext"),
            (0x7c82_5904, "ins"),
            (0x0480_0001, "bltz"),
            (0x0481_0001, "bgez"),
            (0x0490_0001, "bltzal"),
            (0x0491_0001, "bgezal"),
            (0x0411_0001, "bgezal"), // bal
            (0x1880_0001, "blez"),
            (0x1c80_0001, "bgtz"),
            (0x2082_0001, "addi"),
            (0x2882_0001, "slti"),
            (0x2c82_0001, "sltiu"),
            (0x3082_00ff, "andi"),
            (0x3482_00ff, "ori"),
            (0x3882_00ff, "xori"),
            (0x8082_0000, "lb"),
            (0x8482_0002, "lh"),
            (0x8882_0003, "lwl"),
            (0x9082_0000, "lbu"),
            (0x9482_0002, "lhu"),
            (0x9882_0000, "lwr"),
            (0xa085_0000, "sb"),
            (0xa485_0002, "sh"),
            (0xa885_0000, "swl"),
            (0xb885_0000, "swr"),
            (0xc082_0000, "ll"),
            (0xe082_0000, "sc"),
            (0xcc80_0000, "pref"),
        ];
        for (w, m) in known {
            assert_eq!(mnemonic(*w), Some(*m), "word {:#010x}", w);
        }
    }

    #[test]
    fn helper_encoders_match_known_words() {
        assert_eq!(r(A0, A1, V0, 0, 0x21), 0x0085_1021);
        assert_eq!(r2(A0, A1, V0, 0, 0x02), 0x7085_1002);
        assert_eq!(r3(0, A0, V0, 0x10, 0x20), 0x7c04_1420);
        assert_eq!(i(0x09, 29, 29, -32), 0x27bd_ffe0);
        assert_eq!(i(0x23, 29, 31, 28), 0x8fbf_001c);
    }

    #[test]
    fn reserved_fields_rejected() {
        let bad: &[u32] = &[
            0x0085_1021 | (1 << 6), // addu with sa != 0
            0x0085_1020 | (3 << 6), // add with sa != 0
            0x0085_102a | (1 << 6), // slt with sa != 0
            0x0004_1080 | (2 << 21), // sll with rs != 0
            0x0004_1102 | (2 << 21), // srl with rs field 2 (neither srl nor rotr)
            0x0004_17c3 | (1 << 21), // sra with rs != 0
            0x0085_1004 | (1 << 6), // sllv with sa != 0
            0x0085_1006 | (2 << 6), // srlv with sa == 2
            0x0085_1007 | (1 << 6), // srav with sa != 0 (no "rotate" variant of srav)
            0x03e0_0008 | (1 << 16), // jr with rt != 0
            0x03e0_0008 | (1 << 11), // jr with rd != 0
            0x03e0_0008 | (1 << 10), // jr.hb (hint) - not modelled
            0x0320_f809 | (1 << 16), // jalr with rt != 0
            0x0320_f809 | (1 << 10), // jalr.hb - not modelled
            0x0000_1010 | (1 << 21), // mfhi with rs != 0
            0x0000_1012 | (1 << 16), // mflo with rt != 0
            0x0080_0011 | (1 << 11), // mthi with rd != 0
            0x0080_0013 | (1 << 6),  // mtlo with sa != 0
            0x0085_0018 | (1 << 11), // mult with rd != 0
            0x0085_001a | (1 << 6),  // div with sa != 0
            0x0000_000f | (1 << 11), // sync with bits 25..11 != 0
            0x3c1c_1234 | (1 << 21), // lui with rs != 0 (R6 aui)
            0x1880_0001 | (1 << 16), // blez with rt != 0
            0x1c80_0001 | (1 << 16), // bgtz with rt != 0
            0x7085_0000 | (1 << 11), // madd with rd != 0
            0x7085_0005 | (1 << 6),  // msubu with sa != 0
            0x7085_1002 | (1 << 6),  // mul with sa != 0
            0x7082_1020 | (1 << 6),  // clz with sa != 0
            0x7c04_1420 | (1 << 21), // seb with rs != 0
            0x7c04_10a0 | (1 << 21), // wsbh with rs != 0
            0x7c04_1020,             // bshfl with unknown sub-op 0
            0x0085_0001,             // SPECIAL funct 1 (movf/movt - FP condition, not modelled)
            0x0085_100e,             // SPECIAL funct 0x0e (reserved)
            0x0482_0001,             // bltzl (likely) not modelled
            0x0492_0001,             // bltzall not modelled
            0x5080_0001,             // beql not modelled
            0x4400_0000,             // COP1
            0x4000_0000,             // COP0
            0xffff_ffff,             // opcode 0x3f
            0x7085_0003,             // SPECIAL2 funct 3 (reserved)
            0xbc00_0000,             // cache
        ];
        for w in bad {
            assert_eq!(mnemonic(*w), None, "word {:#010x}", w);
            let mut c = cpu(true);
            let before = c.clone();
            assert_eq!(step(&mut c, PC, *w, Some(0)), Unmodelled, "word {:#010x}", w);
            assert_eq!(c, before);
            assert!(!has_delay_slot(*w));
        }
    }

    #[test]
    fn code_fields_are_not_reserved() {
        assert_eq!(mnemonic(0x0000_000c | (0xfffff << 6)), Some("syscall"));
        assert_eq!(mnemonic(0x0000_000d | (0x12345 << 6)), Some("break"));
        assert_eq!(mnemonic(0x0085_0034 | (0x3ff << 6)), Some("teq"));
        assert_eq!(mnemonic(0x0000_000f | (0x1f << 6)), Some("sync")); // stype
        assert_eq!(mnemonic(0xcc80_0000 | (0x1f << 16)), Some("pref")); // hint
    }

    #[test]
    fn has_delay_slot_classification() {
        for w in [
            0x03e0_0008u32, 0x0320_f809, 0x0c10_0040, 0x0810_0040, 0x1000_ffff, 0x1480_0003,
            0x0480_0001, 0x0481_0001, 0x0490_0001, 0x0491_0001, 0x1880_0001, 0x1c80_0001,
        ] {
            assert!(has_delay_slot(w), "word {:#010x}", w);
        }
        for w in [0u32, 0x27bd_ffe0, 0x8fbf_001c, 0x0000_000c, 0x0085_0034, 0x7085_1002, 0x0085_001a] {
            assert!(!has_delay_slot(w), "word {:#010x}", w);
        }
    }

    // ---- immediates ----------------------------------------------------------------------

    #[test]
    fn addiu_sign_extends_and_wraps() {
        assert_eq!(alui(0x09, 5, -1), 4); // 0x2482ffff
        assert_eq!(alui(0x09, 0, -32768), 0xffff_8000);
        assert_eq!(alui(0x09, 0, 0x7fff), 0x0000_7fff);
        assert_eq!(alui(0x09, 0x7fff_ffff, 1), 0x8000_0000); // no trap
        assert_eq!(alui(0x09, 0x8000_0000, -1), 0x7fff_ffff); // no trap
        assert_eq!(alui(0x09, 0xffff_ffff, 1), 0);
    }

    #[test]
    fn addi_ok_cases() {
        assert_eq!(alui(0x08, 0xffff_fffe, 1), 0xffff_ffff); // -2 + 1 = -1
        assert_eq!(alui(0x08, 0x7fff_fffe, 1), 0x7fff_ffff);
        assert_eq!(alui(0x08, 0x8000_0001, -1), 0x8000_0000);
        assert_eq!(alui(0x08, 100, -200), 0xffff_ff9c); // -100
    }

    #[test]
    fn addi_overflow_traps_and_leaves_destination() {
        let mut c = with(0x7fff_ffff, 0);
        let before = c.clone();
        assert_eq!(step(&mut c, PC, i(0x08, A0, V0, 1), None), Trap("overflow"));
        assert_eq!(c, before); // v0 still 0xdeadbeef
        let mut c = with(0x8000_0000, 0);
        let before = c.clone();
        assert_eq!(step(&mut c, PC, i(0x08, A0, V0, -1), None), Trap("overflow"));
        assert_eq!(c, before);
        // 0x7fff8001 + 0x7fff = 0x80000000 -> overflow
        let mut c = with(0x7fff_8001, 0);
        assert_eq!(step(&mut c, PC, i(0x08, A0, V0, 0x7fff), None), Trap("overflow"));
        assert_eq!(c.gpr[V0 as usize], 0xdead_beef);
        // immediate 0x8000 is -32768, NOT +32768: 0x7fff8000 + (-32768) = 0x7fff0000, no trap
        assert_eq!(alui(0x08, 0x7fff_8000, 0x8000), 0x7fff_0000);
    }

    #[test]
    fn logical_immediates_zero_extend() {
        assert_eq!(alui(0x0c, 0xffff_ffff, 0x8000), 0x0000_8000); // andi
        assert_eq!(alui(0x0c, 0x1234_5678, 0xffff), 0x0000_5678);
        assert_eq!(alui(0x0d, 0, 0x8000), 0x0000_8000); // ori
        assert_eq!(alui(0x0d, 0x1234_0000, 0xffff), 0x1234_ffff);
        assert_eq!(alui(0x0e, 0xffff_ffff, 0xffff), 0xffff_0000); // xori
        assert_eq!(alui(0x0e, 0x0000_8000, 0x8000), 0);
    }

    #[test]
    fn slti_sltiu_sign_extend_then_compare() {
        assert_eq!(alui(0x0a, 0xffff_ffff, 0), 1); // slti: -1 < 0
        assert_eq!(alui(0x0b, 0xffff_ffff, 0), 0); // sltiu: 0xffffffff < 0 false
        assert_eq!(alui(0x0b, 5, -1), 1); // sltiu: 5 < 0xffffffff
        assert_eq!(alui(0x0a, 5, -1), 0); // slti: 5 < -1 false
        assert_eq!(alui(0x0b, 0xffff_8000, 0x8000), 0); // equal to sign-extended imm
        assert_eq!(alui(0x0b, 0xffff_7fff, 0x8000), 1);
        assert_eq!(alui(0x0b, 0x0000_8000, 0x8000), 1); // would be 0 if imm were zero-extended
        assert_eq!(alui(0x0a, 0x0000_8000, 0x8000), 0); // 32768 < -32768 false
        assert_eq!(alui(0x0b, 0, 1), 1); // seqz idiom: sltiu v0,a0,1
        assert_eq!(alui(0x0b, 7, 1), 0);
        assert_eq!(alui(0x0a, 0x8000_0000, -32768), 1); // INT_MIN < -32768
    }

    #[test]
    fn lui_places_immediate_in_upper_half() {
        let mut c = with(0, 0);
        run(&mut c, i(0x0f, 0, V0, 0x8001));
        assert_eq!(c.gpr[V0 as usize], 0x8001_0000);
        run(&mut c, i(0x0f, 0, V0, 0));
        assert_eq!(c.gpr[V0 as usize], 0);
        run(&mut c, 0x3c1c_1234); // lui gp,0x1234
        assert_eq!(c.gpr[28], 0x1234_0000);
    }

    // ---- three-register ALU ---------------------------------------------------------------

    #[test]
    fn add_ok_and_overflow() {
        assert_eq!(alu(0x20, 1, 2), 3);
        assert_eq!(alu(0x20, 0x7fff_ffff, 0x8000_0000), 0xffff_ffff); // INT_MAX + INT_MIN = -1
        assert_eq!(alu(0x20, 0xffff_ffff, 0xffff_ffff), 0xffff_fffe); // -1 + -1 = -2
        for (a, b) in [
            (0x4000_0000u32, 0x4000_0000u32),
            (0x7fff_ffff, 1),
            (0x8000_0000, 0xffff_ffff),
            (0x8000_0000, 0x8000_0000),
        ] {
            let mut c = with(a, b);
            let before = c.clone();
            assert_eq!(step(&mut c, PC, 0x0085_1020, None), Trap("overflow"), "{:#x}+{:#x}", a, b);
            assert_eq!(c, before);
        }
    }

    #[test]
    fn sub_ok_and_overflow() {
        assert_eq!(alu(0x22, 5, 7), 0xffff_fffe);
        assert_eq!(alu(0x22, 0x8000_0000, 0x8000_0000), 0);
        assert_eq!(alu(0x22, 0xffff_ffff, 0x8000_0000), 0x7fff_ffff); // -1 - INT_MIN = INT_MAX
        for (a, b) in [
            (0x8000_0000u32, 1u32),       // INT_MIN - 1
            (0, 0x8000_0000),             // 0 - INT_MIN
            (0x7fff_ffff, 0xffff_ffff),   // INT_MAX - (-1)
        ] {
            let mut c = with(a, b);
            let before = c.clone();
            assert_eq!(step(&mut c, PC, 0x0085_1022, None), Trap("overflow"), "{:#x}-{:#x}", a, b);
            assert_eq!(c, before);
        }
    }

    #[test]
    fn addu_subu_wrap_without_trap() {
        assert_eq!(alu(0x21, 0xffff_ffff, 1), 0);
        assert_eq!(alu(0x21, 0x7fff_ffff, 1), 0x8000_0000);
        assert_eq!(alu(0x21, 0x8000_0000, 0x8000_0000), 0);
        assert_eq!(alu(0x23, 0, 1), 0xffff_ffff);
        assert_eq!(alu(0x23, 0x8000_0000, 1), 0x7fff_ffff);
        assert_eq!(alu(0x23, 0, 0x8000_0000), 0x8000_0000);
    }

    #[test]
    fn logic_ops() {
        let (a, b) = (0xf0f0_ff00u32, 0x0ff0_f0f0u32);
        assert_eq!(alu(0x24, a, b), 0x00f0_f000); // and
        assert_eq!(alu(0x25, a, b), 0xfff0_fff0); // or
        assert_eq!(alu(0x26, a, b), 0xff00_0ff0); // xor
        assert_eq!(alu(0x27, a, b), 0x000f_000f); // nor
        assert_eq!(alu(0x27, 0, 0), 0xffff_ffff); // not idiom
    }

    #[test]
    fn slt_signed_sltu_unsigned() {
        assert_eq!(alu(0x2a, 0x8000_0000, 1), 1); // INT_MIN < 1
        assert_eq!(alu(0x2b, 0x8000_0000, 1), 0);
        assert_eq!(alu(0x2a, 1, 0x8000_0000), 0);
        assert_eq!(alu(0x2b, 1, 0x8000_0000), 1);
        assert_eq!(alu(0x2a, 3, 3), 0);
        assert_eq!(alu(0x2b, 3, 3), 0);
        assert_eq!(alu(0x2a, 0xffff_ffff, 0), 1);
        assert_eq!(alu(0x2b, 0, 0xffff_ffff), 1);
    }

    #[test]
    fn aliasing_of_source_and_destination() {
        // add a0,a0,a0 : 0x00842020
        let mut c = with(0x1234, 0);
        run(&mut c, r(A0, A0, A0, 0, 0x20));
        assert_eq!(c.gpr[A0 as usize], 0x2468);
        // subu a0,a1,a0 with a0=1,a1=10 -> a0 = 9
        let mut c = with(1, 10);
        run(&mut c, r(A1, A0, A0, 0, 0x23));
        assert_eq!(c.gpr[A0 as usize], 9);
        // xor a0,a0,a0 -> 0
        let mut c = with(0xabcd_ef01, 0);
        run(&mut c, r(A0, A0, A0, 0, 0x26));
        assert_eq!(c.gpr[A0 as usize], 0);
    }

    #[test]
    fn zero_register_reads_zero_and_discards_writes() {
        // addiu $zero,$zero,5
        let mut c = cpu(true);
        run(&mut c, i(0x09, 0, 0, 5));
        assert_eq!(c.gpr[0], 0);
        // addu $zero,a0,a1
        let mut c = with(3, 4);
        let before = c.clone();
        run(&mut c, r(A0, A1, 0, 0, 0x21));
        assert_eq!(c, before);
        // a polluted gpr[0] slot must still read as zero: addu v0,$zero,$zero ; ori v1,$zero,1
        let mut c = cpu(false);
        c.gpr[0] = 0x1234;
        run(&mut c, r(0, 0, V0, 0, 0x21));
        run(&mut c, i(0x0d, 0, V1, 1));
        assert_eq!(c.gpr[V0 as usize], 0);
        assert_eq!(c.gpr[V1 as usize], 1);
        // lui $zero ; mflo $zero ; slt $zero
        let mut c = with(1, 2);
        c.lo = 77;
        let before = c.clone();
        run(&mut c, i(0x0f, 0, 0, 0x1234));
        run(&mut c, r(0, 0, 0, 0, 0x12));
        run(&mut c, r(A0, A1, 0, 0, 0x2a));
        assert_eq!(c, before);
        // add $zero with overflow still traps
        let mut c = with(0x7fff_ffff, 1);
        assert_eq!(step(&mut c, PC, r(A0, A1, 0, 0, 0x20), None), Trap("overflow"));
    }

    // ---- shifts --------------------------------------------------------------------------

    #[test]
    fn immediate_shifts() {
        let x = 0x8000_0001u32;
        let sh = |funct: u32, sa: u32| {
            let mut c = with(x, 0);
            run(&mut c, r(0, A0, V0, sa, funct));
            c.gpr[V0 as usize]
        };
        assert_eq!(sh(0, 4), 0x0000_0010); // sll
        assert_eq!(sh(2, 4), 0x0800_0000); // srl
        assert_eq!(sh(3, 4), 0xf800_0000); // sra
        assert_eq!(sh(0, 31), 0x8000_0000);
        assert_eq!(sh(2, 31), 1);
        assert_eq!(sh(3, 31), 0xffff_ffff);
        assert_eq!(sh(0, 0), x);
        assert_eq!(sh(2, 0), x);
        assert_eq!(sh(3, 0), x);
        // sra of a positive value shifts in zeros
        let mut c = with(0x7000_0000, 0);
        run(&mut c, 0x0004_17c3); // sra v0,a0,31
        assert_eq!(c.gpr[V0 as usize], 0);
    }

    #[test]
    fn variable_shifts_use_low_five_bits_of_rs() {
        // value in a1 (rt), amount in a0 (rs)
        let x = 0x8000_0001u32;
        assert_eq!(alu(0x04, 0x24, x), 0x0000_0010); // sllv by 36 -> 4
        assert_eq!(alu(0x06, 0x24, x), 0x0800_0000); // srlv
        assert_eq!(alu(0x07, 0x24, x), 0xf800_0000); // srav
        assert_eq!(alu(0x04, 32, x), x); // 32 -> 0
        assert_eq!(alu(0x06, 32, x), x);
        assert_eq!(alu(0x07, 0xffff_ffe0, x), x); // low five bits zero
        assert_eq!(alu(0x04, 0xffff_ffff, x), 0x8000_0000); // 31
        assert_eq!(alu(0x06, 0xffff_ffff, x), 1);
        assert_eq!(alu(0x07, 0xffff_ffff, x), 0xffff_ffff);
    }

    #[test]
    fn rotates() {
        let mut c = with(0x1234_5678, 0);
        run(&mut c, 0x0024_1202); // rotr v0,a0,8
        assert_eq!(c.gpr[V0 as usize], 0x7812_3456);
        run(&mut c, r(1, A0, V0, 4, 2)); // rotr v0,a0,4
        assert_eq!(c.gpr[V0 as usize], 0x8123_4567);
        run(&mut c, r(1, A0, V0, 0, 2)); // rotr v0,a0,0
        assert_eq!(c.gpr[V0 as usize], 0x1234_5678);
        run(&mut c, r(1, A0, V0, 31, 2)); // rotr by 31 == rotate left by 1
        assert_eq!(c.gpr[V0 as usize], 0x2468_acf0);
        // rotrv v0,a1,a0 : amount 40 -> 8
        let mut c = with(0x28, 0x1234_5678);
        run(&mut c, 0x0085_1046);
        assert_eq!(c.gpr[V0 as usize], 0x7812_3456);
    }

    #[test]
    fn nop_ssnop_ehb_do_nothing() {
        for w in [0u32, 0x40, 0xc0] {
            let mut c = with(1, 2);
            c.hi = 3;
            c.lo = 4;
            let before = c.clone();
            run(&mut c, w);
            assert_eq!(c, before);
        }
    }

    // ---- HI/LO ---------------------------------------------------------------------------

    /// run `word` (rs=a0, rt=a1) with the given HI/LO, return (hi, lo)
    fn hilo_op(word: u32, a0: u32, a1: u32, hi: u32, lo: u32) -> (u32, u32) {
        let mut c = with(a0, a1);
        c.hi = hi;
        c.lo = lo;
        let gpr = c.gpr;
        run(&mut c, word);
        assert_eq!(c.gpr, gpr, "HI/LO op must not touch GPRs");
        (c.hi, c.lo)
    }
    const MULT: u32 = 0x0085_0018;
    const MULTU: u32 = 0x0085_0019;
    const DIV: u32 = 0x0085_001a;
    const DIVU: u32 = 0x0085_001b;
    const MADD: u32 = 0x7085_0000;
    const MADDU: u32 = 0x7085_0001;
    const MSUB: u32 = 0x7085_0004;
    const MSUBU: u32 = 0x7085_0005;

    #[test]
    fn mult_signed() {
        assert_eq!(hilo_op(MULT, 0xffff_ffff, 0xffff_ffff, 9, 9), (0, 1)); // -1 * -1
        assert_eq!(hilo_op(MULT, 0x8000_0000, 0x8000_0000, 9, 9), (0x4000_0000, 0)); // 2^62
        assert_eq!(hilo_op(MULT, 0x7fff_ffff, 0xffff_ffff, 9, 9), (0xffff_ffff, 0x8000_0001));
        assert_eq!(hilo_op(MULT, 0x0001_0000, 0x0001_0000, 9, 9), (1, 0));
        assert_eq!(hilo_op(MULT, 0x8000_0000, 2, 9, 9), (0xffff_ffff, 0)); // -2^32
        assert_eq!(hilo_op(MULT, 0x1234_5678, 0x10, 9, 9), (1, 0x2345_6780));
        assert_eq!(hilo_op(MULT, 0, 0xffff_ffff, 9, 9), (0, 0));
    }

    #[test]
    fn multu_unsigned() {
        assert_eq!(hilo_op(MULTU, 0xffff_ffff, 0xffff_ffff, 9, 9), (0xffff_fffe, 1));
        assert_eq!(hilo_op(MULTU, 0x8000_0000, 0x8000_0000, 9, 9), (0x4000_0000, 0));
        assert_eq!(hilo_op(MULTU, 0x7fff_ffff, 0xffff_ffff, 9, 9), (0x7fff_fffe, 0x8000_0001));
        assert_eq!(hilo_op(MULTU, 0x8000_0000, 2, 9, 9), (1, 0));
    }

    #[test]
    fn div_signed_truncates_toward_zero() {
        // (hi = remainder, lo = quotient)
        assert_eq!(hilo_op(DIV, 7, 0xffff_fffe, 9, 9), (1, 0xffff_fffd)); // 7 / -2 = -3 r 1
        assert_eq!(hilo_op(DIV, 0xffff_fff9, 2, 9, 9), (0xffff_ffff, 0xffff_fffd)); // -7/2 = -3 r -1
        assert_eq!(hilo_op(DIV, 0xffff_fff9, 0xffff_fffe, 9, 9), (0xffff_ffff, 3)); // -7/-2 = 3 r -1
        assert_eq!(hilo_op(DIV, 7, 2, 9, 9), (1, 3));
        assert_eq!(hilo_op(DIV, 1, 0x7fff_ffff, 9, 9), (1, 0));
        assert_eq!(hilo_op(DIV, 0x8000_0000, 0xffff_ffff, 9, 9), (0, 0x8000_0000)); // INT_MIN / -1
        assert_eq!(hilo_op(DIV, 0x8000_0000, 1, 9, 9), (0, 0x8000_0000));
        assert_eq!(hilo_op(DIV, 0x8000_0000, 2, 9, 9), (0, 0xc000_0000));
    }

    #[test]
    fn divu_unsigned() {
        assert_eq!(hilo_op(DIVU, 0xffff_ffff, 2, 9, 9), (1, 0x7fff_ffff));
        assert_eq!(hilo_op(DIVU, 7, 0xffff_fffe, 9, 9), (7, 0));
        assert_eq!(hilo_op(DIVU, 0x8000_0000, 0xffff_ffff, 9, 9), (0x8000_0000, 0));
        assert_eq!(hilo_op(DIVU, 100, 7, 9, 9), (2, 14));
    }

    #[test]
    fn division_by_zero_is_unpredictable_and_changes_nothing() {
        for w in [DIV, DIVU] {
            let mut c = with(123, 0);
            c.hi = 0x1111;
            c.lo = 0x2222;
            let before = c.clone();
            assert_eq!(step(&mut c, PC, w, None), Unpredictable("div0"));
            assert_eq!(c, before);
        }
        // "div $zero,a0,$zero" divides by register zero
        let mut c = with(5, 0);
        assert_eq!(step(&mut c, PC, r(A0, 0, 0, 0, 0x1a), None), Unpredictable("div0"));
    }

    #[test]
    fn madd_maddu_accumulate_64_bit() {
        assert_eq!(hilo_op(MADD, 2, 3, 0, 0xffff_ffff), (1, 5)); // carry from LO into HI
        assert_eq!(hilo_op(MADD, 0xffff_ffff, 1, 0, 0), (0xffff_ffff, 0xffff_ffff)); // += -1
        assert_eq!(hilo_op(MADDU, 0xffff_ffff, 1, 0, 0), (0, 0xffff_ffff));
        assert_eq!(hilo_op(MADDU, 1, 1, 0xffff_ffff, 0xffff_ffff), (0, 0)); // 64-bit wrap
        assert_eq!(hilo_op(MADD, 1, 1, 0x7fff_ffff, 0xffff_ffff), (0x8000_0000, 0)); // no trap
        assert_eq!(hilo_op(MADDU, 0xffff_ffff, 0xffff_ffff, 0, 1), (0xffff_fffe, 2));
    }

    #[test]
    fn msub_msubu_subtract_64_bit() {
        assert_eq!(hilo_op(MSUB, 2, 3, 0, 0), (0xffff_ffff, 0xffff_fffa)); // 0 - 6
        assert_eq!(hilo_op(MSUB, 0xffff_ffff, 2, 0, 0), (0, 2)); // 0 - (-2)
        assert_eq!(hilo_op(MSUBU, 0xffff_ffff, 2, 1, 0), (0xffff_ffff, 2)); // 2^32 - 0x1fffffffe
        assert_eq!(hilo_op(MSUBU, 1, 1, 0, 0), (0xffff_ffff, 0xffff_ffff));
        assert_eq!(hilo_op(MSUB, 3, 4, 0, 20), (0, 8));
    }

    #[test]
    fn mul_writes_rd_only() {
        let mut c = with(0x0001_0001, 0x0001_0001);
        c.hi = 0xaaaa;
        c.lo = 0xbbbb;
        run(&mut c, 0x7085_1002); // mul v0,a0,a1
        assert_eq!(c.gpr[V0 as usize], 0x0002_0001);
        // documented choice: HI/LO (architecturally UNPREDICTABLE) left unchanged
        assert_eq!((c.hi, c.lo), (0xaaaa, 0xbbbb));
        let mut c = with(0xffff_fffe, 3);
        run(&mut c, 0x7085_1002);
        assert_eq!(c.gpr[V0 as usize], 0xffff_fffa); // -2 * 3 = -6
        let mut c = with(0x8000_0000, 0x8000_0000);
        run(&mut c, 0x7085_1002);
        assert_eq!(c.gpr[V0 as usize], 0);
        // mul $zero,...
        let mut c = with(3, 4);
        let before = c.clone();
        run(&mut c, r2(A0, A1, 0, 0, 2));
        assert_eq!(c, before);
    }

    #[test]
    fn hi_lo_moves() {
        let mut c = with(0x1111_2222, 0);
        c.hi = 0xaaaa_0001;
        c.lo = 0xbbbb_0002;
        run(&mut c, 0x0000_1010); // mfhi v0
        assert_eq!(c.gpr[V0 as usize], 0xaaaa_0001);
        run(&mut c, 0x0000_1012); // mflo v0
        assert_eq!(c.gpr[V0 as usize], 0xbbbb_0002);
        run(&mut c, 0x0080_0011); // mthi a0
        assert_eq!((c.hi, c.lo), (0x1111_2222, 0xbbbb_0002));
        run(&mut c, 0x0080_0013); // mtlo a0
        assert_eq!((c.hi, c.lo), (0x1111_2222, 0x1111_2222));
        run(&mut c, r(0, 0, 0, 0, 0x11)); // mthi $zero
        assert_eq!(c.hi, 0);
    }

    // ---- clz/clo, conditional moves, r2 bit-field ops ----------------------------------------

    #[test]
    fn count_leading() {
        let cl = |word: u32, x: u32| {
            let mut c = with(x, 0);
            run(&mut c, word);
            c.gpr[V0 as usize]
        };
        let (clz, clo) = (0x7082_1020, 0x7082_1021);
        assert_eq!(cl(clz, 0), 32);
        assert_eq!(cl(clz, 1), 31);
        assert_eq!(cl(clz, 0x8000_0000), 0);
        assert_eq!(cl(clz, 0x0001_0000), 15);
        assert_eq!(cl(clz, 0x7fff_ffff), 1);
        assert_eq!(cl(clo, 0xffff_ffff), 32);
        assert_eq!(cl(clo, 0), 0);
        assert_eq!(cl(clo, 0xfff0_0000), 12);
        assert_eq!(cl(clo, 0x7fff_ffff), 0);
        assert_eq!(cl(clo, 0xffff_fffe), 31);
        // rt != rd is UNPREDICTABLE
        let mut c = with(1, 0);
        let before = c.clone();
        assert!(matches!(step(&mut c, PC, r2(A0, V1, V0, 0, 0x20), None), Unpredictable(_)));
        assert_eq!(c, before);
        // clz a0,a0 (source == destination)
        let mut c = with(0x00ff_0000, 0);
        run(&mut c, r2(A0, A0, A0, 0, 0x20));
        assert_eq!(c.gpr[A0 as usize], 8);
    }

    #[test]
    fn conditional_moves() {
        // movn v0,a0,a1 : move if a1 != 0
        let mut c = with(0x55, 0);
        run(&mut c, 0x0085_100b);
        assert_eq!(c.gpr[V0 as usize], 0xdead_beef);
        let mut c = with(0x55, 0x8000_0000);
        run(&mut c, 0x0085_100b);
        assert_eq!(c.gpr[V0 as usize], 0x55);
        // movz v0,a0,a1 : move if a1 == 0
        let mut c = with(0x66, 0);
        run(&mut c, 0x0085_100a);
        assert_eq!(c.gpr[V0 as usize], 0x66);
        let mut c = with(0x66, 1);
        run(&mut c, 0x0085_100a);
        assert_eq!(c.gpr[V0 as usize], 0xdead_beef);
        // movz v0,a0,$zero always moves; movn v0,a0,$zero never does
        let mut c = with(0x77, 1);
        run(&mut c, r(A0, 0, V0, 0, 0x0a));
        assert_eq!(c.gpr[V0 as usize], 0x77);
        let mut c = with(0x77, 1);
        run(&mut c, r(A0, 0, V0, 0, 0x0b));
        assert_eq!(c.gpr[V0 as usize], 0xdead_beef);
    }

    #[test]
    fn seb_seh_wsbh() {
        let un = |word: u32, x: u32| {
            let mut c = with(x, 0);
            run(&mut c, word);
            c.gpr[V0 as usize]
        };
        assert_eq!(un(0x7c04_1420, 0x1234_5680), 0xffff_ff80); // seb
        assert_eq!(un(0x7c04_1420, 0x1234_567f), 0x0000_007f);
        assert_eq!(un(0x7c04_1620, 0x1234_8000), 0xffff_8000); // seh
        assert_eq!(un(0x7c04_1620, 0x0001_7fff), 0x0000_7fff);
        assert_eq!(un(0x7c04_10a0, 0x1122_3344), 0x2211_4433); // wsbh
    }

    #[test]
    fn ext_extracts_bit_field() {
        let ext = |x: u32, pos: u32, size: u32| {
            let mut c = with(x, 0);
            run(&mut c, r3(A0, V0, size - 1, pos, 0));
            c.gpr[V0 as usize]
        };
        assert_eq!(r3(A0, V0, 7, 4, 0), 0x7c82_3900);
        assert_eq!(ext(0x1234_5678, 4, 8), 0x67);
        assert_eq!(ext(0x1234_5678, 8, 16), 0x3456);
        assert_eq!(ext(0x1234_5678, 0, 32), 0x1234_5678);
        assert_eq!(ext(0x8000_0000, 31, 1), 1);
        assert_eq!(ext(0xffff_ffff, 0, 1), 1);
        assert_eq!(ext(0xf000_0000, 28, 4), 0xf); // zero-extended, not sign-extended
        // lsb + msbd > 31 : pos 28, size 8
        let mut c = with(1, 0);
        let before = c.clone();
        assert!(matches!(step(&mut c, PC, r3(A0, V0, 7, 28, 0), None), Unpredictable(_)));
        assert_eq!(c, before);
    }

    #[test]
    fn ins_inserts_bit_field() {
        let ins = |rt_old: u32, rs: u32, pos: u32, size: u32| {
            let mut c = with(rs, 0);
            c.gpr[V0 as usize] = rt_old;
            run(&mut c, r3(A0, V0, pos + size - 1, pos, 4));
            c.gpr[V0 as usize]
        };
        assert_eq!(r3(A0, V0, 11, 4, 4), 0x7c82_5904);
        assert_eq!(ins(0xffff_ffff, 0x1234_5600, 4, 8), 0xffff_f00f);
        assert_eq!(ins(0, 0xabcd_ef12, 8, 16), 0x00ef_1200);
        assert_eq!(ins(0x5555_5555, 0x1234_5678, 0, 32), 0x1234_5678);
        assert_eq!(ins(0x7fff_ffff, 1, 31, 1), 0xffff_ffff);
        assert_eq!(ins(0xffff_ffff, 0xffff_fffe, 31, 1), 0x7fff_ffff);
        // ins a0,a0,8,8
        let mut c = with(0xab, 0);
        run(&mut c, r3(A0, A0, 15, 8, 4));
        assert_eq!(c.gpr[A0 as usize], 0x0000_abab);
        // lsb > msb
        let mut c = with(1, 0);
        let before = c.clone();
        assert!(matches!(step(&mut c, PC, r3(A0, V0, 3, 4, 4), None), Unpredictable(_)));
        assert_eq!(c, before);
    }

    // ---- traps and no-ops ----------------------------------------------------------------

    #[test]
    fn teq_traps_iff_equal() {
        let mut c = with(5, 5);
        let before = c.clone();
        assert_eq!(step(&mut c, PC, 0x0085_0034, None), Trap("trap"));
        assert_eq!(c, before);
        let mut c = with(5, 6);
        run(&mut c, 0x0085_0034);
        // teq $zero,$zero,7 (gcc's divide-by-zero check uses "teq rt,$zero,7")
        let mut c = with(5, 6);
        assert_eq!(step(&mut c, PC, r(0, 0, 0, 0, 0x34) | (7 << 6), None), Trap("trap"));
        let mut c = with(5, 6);
        run(&mut c, r(A1, 0, 0, 0, 0x34) | (7 << 6)); // a1 != 0
    }

    #[test]
    fn syscall_and_break_trap() {
        let mut c = with(1, 2);
        let before = c.clone();
        assert_eq!(step(&mut c, PC, 0x0000_000c, None), Trap("syscall"));
        assert_eq!(step(&mut c, PC, 0x0000_000d, None), Trap("break"));
        assert_eq!(step(&mut c, PC, 0x0007_000d, None), Trap("break")); // break 7
        assert_eq!(step(&mut c, PC, 0x0000_000c | (0x5a5a << 6), None), Trap("syscall"));
        assert_eq!(c, before);
    }

    #[test]
    fn sync_and_pref_are_noops() {
        let mut c = with(0x9999_0000, 2); // a0 points at unmapped memory
        let before = c.clone();
        run(&mut c, 0x0000_000f);
        run(&mut c, 0x0000_000f | (4 << 6));
        run(&mut c, 0xcc80_0000); // pref 0,0(a0) - no access, no fault
        run(&mut c, 0xcc80_0001 | (5 << 16)); // pref 5,1(a0) - no alignment check either
        assert_eq!(c, before);
    }

    // ---- aligned loads and stores --------------------------------------------------------

    const BASE: u32 = 0x2000;

    /// a0 = BASE, a1 = v0 = 0xAABBCCDD, bytes 11 22 33 44 55 66 77 88 at BASE..BASE+8
    fn memcpu(be: bool) -> MipsCpu {
        let mut c = cpu(be);
        c.gpr[A0 as usize] = BASE;
        c.gpr[A1 as usize] = 0xaabb_ccdd;
        c.gpr[V0 as usize] = 0xaabb_ccdd;
        c.map_bytes(BASE, &[0x11, 0x22, 0x33, 0x44, 0x55, 0x66, 0x77, 0x88]);
        c
    }
    fn bytes(c: &MipsCpu, addr: u32, n: u32) -> Vec<u8> {
        (0..n).map(|k| c.mem[&(addr + k)]).collect()
    }
    /// "op v0, off(a0)"
    fn ld(op: u32, off: i32) -> u32 {
        i(op, A0, V0, off)
    }
    /// "op a1, off(a0)"
    fn st(op: u32, off: i32) -> u32 {
        i(op, A0, A1, off)
    }

    #[test]
    fn lb_sign_extends_lbu_zero_extends() {
        for be in [true, false] {
            let mut c = memcpu(be);
            c.map_bytes(BASE, &[0x80, 0x7f, 0xff]);
            run(&mut c, 0x8082_0000); // lb v0,0(a0)
            assert_eq!(c.gpr[V0 as usize], 0xffff_ff80);
            run(&mut c, 0x9082_0000); // lbu v0,0(a0)
            assert_eq!(c.gpr[V0 as usize], 0x0000_0080);
            run(&mut c, ld(0x20, 1));
            assert_eq!(c.gpr[V0 as usize], 0x0000_007f);
            run(&mut c, ld(0x20, 2));
            assert_eq!(c.gpr[V0 as usize], 0xffff_ffff);
            run(&mut c, ld(0x24, 2));
            assert_eq!(c.gpr[V0 as usize], 0x0000_00ff);
            // negative offset: a0 = BASE+4, lb v0,-4(a0)
            c.gpr[A0 as usize] = BASE + 4;
            run(&mut c, ld(0x20, -4));
            assert_eq!(c.gpr[V0 as usize], 0xffff_ff80);
        }
    }

    #[test]
    fn lh_lhu_big_endian() {
        let mut c = memcpu(true);
        c.map_bytes(BASE + 2, &[0x80, 0x01]);
        run(&mut c, 0x8482_0002); // lh v0,2(a0)
        assert_eq!(c.gpr[V0 as usize], 0xffff_8001);
        run(&mut c, 0x9482_0002); // lhu v0,2(a0)
        assert_eq!(c.gpr[V0 as usize], 0x0000_8001);
        run(&mut c, ld(0x21, 0)); // bytes 11 22
        assert_eq!(c.gpr[V0 as usize], 0x0000_1122);
    }

    #[test]
    fn lh_lhu_little_endian() {
        let mut c = memcpu(false);
        c.map_bytes(BASE + 2, &[0x80, 0x01]);
        run(&mut c, 0x8482_0002);
        assert_eq!(c.gpr[V0 as usize], 0x0000_0180);
        c.map_bytes(BASE + 2, &[0x01, 0x80]);
        run(&mut c, 0x8482_0002);
        assert_eq!(c.gpr[V0 as usize], 0xffff_8001);
        run(&mut c, 0x9482_0002);
        assert_eq!(c.gpr[V0 as usize], 0x0000_8001);
        run(&mut c, ld(0x21, 0)); // bytes 11 22
        assert_eq!(c.gpr[V0 as usize], 0x0000_2211);
    }

    #[test]
    fn lw_both_endiannesses() {
        let mut c = memcpu(true);
        run(&mut c, ld(0x23, 0));
        assert_eq!(c.gpr[V0 as usize], 0x1122_3344);
        run(&mut c, ld(0x23, 4));
        assert_eq!(c.gpr[V0 as usize], 0x5566_7788);
        let mut c = memcpu(false);
        run(&mut c, ld(0x23, 0));
        assert_eq!(c.gpr[V0 as usize], 0x4433_2211);
        run(&mut c, ld(0x23, 4));
        assert_eq!(c.gpr[V0 as usize], 0x8877_6655);
        // ll behaves like lw
        run(&mut c, 0xc082_0000);
        assert_eq!(c.gpr[V0 as usize], 0x4433_2211);
        // lw a0,0(a0): base is also the destination
        let mut c = memcpu(true);
        run(&mut c, i(0x23, A0, A0, 0));
        assert_eq!(c.gpr[A0 as usize], 0x1122_3344);
    }

    #[test]
    fn effective_address_sign_extension_and_wrap() {
        // a0 = BASE + 0x8000, offset -0x8000 (field 0x8000) -> BASE
        let mut c = memcpu(true);
        c.gpr[A0 as usize] = BASE + 0x8000;
        run(&mut c, ld(0x23, 0x8000));
        assert_eq!(c.gpr[V0 as usize], 0x1122_3344);
        // a0 = 0xffff_fffc, offset +8 wraps to address 4
        let mut c = cpu(true);
        c.gpr[A0 as usize] = 0xffff_fffc;
        c.map_bytes(4, &[0xde, 0xad, 0xbe, 0xef]);
        run(&mut c, ld(0x23, 8));
        assert_eq!(c.gpr[V0 as usize], 0xdead_beef);
        // a0 = 2, offset -4 wraps to 0xffff_fffe
        let mut c = cpu(false);
        c.gpr[A0 as usize] = 2;
        c.map_bytes(0xffff_fffe, &[0x34, 0x12]);
        run(&mut c, ld(0x25, -4));
        assert_eq!(c.gpr[V0 as usize], 0x1234);
    }

    #[test]
    fn stores_big_endian() {
        let mut c = memcpu(true);
        run(&mut c, st(0x2b, 4)); // sw a1,4(a0)
        assert_eq!(bytes(&c, BASE, 8), [0x11, 0x22, 0x33, 0x44, 0xaa, 0xbb, 0xcc, 0xdd]);
        run(&mut c, 0xa485_0002); // sh a1,2(a0)
        assert_eq!(bytes(&c, BASE, 8), [0x11, 0x22, 0xcc, 0xdd, 0xaa, 0xbb, 0xcc, 0xdd]);
        run(&mut c, 0xa085_0000); // sb a1,0(a0)
        assert_eq!(bytes(&c, BASE, 8), [0xdd, 0x22, 0xcc, 0xdd, 0xaa, 0xbb, 0xcc, 0xdd]);
        assert_eq!(c.gpr[A1 as usize], 0xaabb_ccdd);
    }

    #[test]
    fn stores_little_endian() {
        let mut c = memcpu(false);
        run(&mut c, st(0x2b, 4));
        assert_eq!(bytes(&c, BASE, 8), [0x11, 0x22, 0x33, 0x44, 0xdd, 0xcc, 0xbb, 0xaa]);
        run(&mut c, 0xa485_0002);
        assert_eq!(bytes(&c, BASE, 8), [0x11, 0x22, 0xdd, 0xcc, 0xdd, 0xcc, 0xbb, 0xaa]);
        run(&mut c, 0xa085_0000);
        assert_eq!(bytes(&c, BASE, 8), [0xdd, 0x22, 0xdd, 0xcc, 0xdd, 0xcc, 0xbb, 0xaa]);
        // sw $zero,0(a0)
        run(&mut c, i(0x2b, A0, 0, 0));
        assert_eq!(bytes(&c, BASE, 4), [0, 0, 0, 0]);
    }

    #[test]
    fn sc_stores_then_sets_rt_to_one() {
        let mut c = memcpu(true);
        run(&mut c, i(0x38, A0, A1, 4)); // sc a1,4(a0)
        assert_eq!(bytes(&c, BASE + 4, 4), [0xaa, 0xbb, 0xcc, 0xdd]);
        assert_eq!(c.gpr[A1 as usize], 1);
        // sc a0,0(a0): stores the base value, then a0 := 1
        let mut c = memcpu(false);
        run(&mut c, i(0x38, A0, A0, 0));
        assert_eq!(bytes(&c, BASE, 4), [0x00, 0x20, 0x00, 0x00]);
        assert_eq!(c.gpr[A0 as usize], 1);
    }

    #[test]
    fn misaligned_accesses_raise_address_error() {
        for be in [true, false] {
            let words = [
                (ld(0x23, 1), BASE + 1), // lw
                (ld(0x23, 2), BASE + 2),
                (ld(0x23, 3), BASE + 3),
                (ld(0x21, 1), BASE + 1), // lh
                (ld(0x25, 3), BASE + 3), // lhu
                (ld(0x30, 2), BASE + 2), // ll
                (st(0x2b, 1), BASE + 1), // sw
                (st(0x2b, 6), BASE + 6),
                (st(0x29, 1), BASE + 1), // sh
                (st(0x38, 2), BASE + 2), // sc
            ];
            for (w, addr) in words {
                let mut c = memcpu(be);
                let before = c.clone();
                assert_eq!(step(&mut c, PC, w, None), Unaligned(addr), "word {:#010x}", w);
                assert_eq!(c, before);
            }
            // alignment is checked before mapping: misaligned AND unmapped -> Unaligned
            let mut c = memcpu(be);
            c.gpr[A0 as usize] = 0x9000_0001;
            assert_eq!(step(&mut c, PC, ld(0x23, 0), None), Unaligned(0x9000_0001));
            // byte accesses and lwl/lwr/swl/swr never raise it
            let mut c = memcpu(be);
            for w in [ld(0x20, 3), ld(0x24, 1), st(0x28, 3), ld(0x22, 1), ld(0x26, 2), st(0x2a, 3), st(0x2e, 1)] {
                run(&mut c, w);
            }
        }
    }

    #[test]
    fn unmapped_bytes_fault_without_side_effects() {
        for be in [true, false] {
            // word at BASE with byte 2 missing
            let mut c = memcpu(be);
            c.mem.remove(&(BASE + 2));
            let before = c.clone();
            assert_eq!(step(&mut c, PC, ld(0x23, 0), None), MemFault(BASE + 2));
            assert_eq!(step(&mut c, PC, st(0x2b, 0), None), MemFault(BASE + 2));
            assert_eq!(step(&mut c, PC, st(0x38, 0), None), MemFault(BASE + 2)); // sc: rt not set
            assert_eq!(step(&mut c, PC, ld(0x21, 2), None), MemFault(BASE + 2));
            assert_eq!(step(&mut c, PC, st(0x29, 2), None), MemFault(BASE + 2));
            assert_eq!(step(&mut c, PC, ld(0x20, 2), None), MemFault(BASE + 2));
            assert_eq!(step(&mut c, PC, st(0x28, 2), None), MemFault(BASE + 2));
            assert_eq!(c, before);
            // halfword with the second byte missing
            let mut c = memcpu(be);
            c.mem.remove(&(BASE + 1));
            let before = c.clone();
            assert_eq!(step(&mut c, PC, st(0x29, 0), None), MemFault(BASE + 1));
            assert_eq!(step(&mut c, PC, ld(0x25, 0), None), MemFault(BASE + 1));
            assert_eq!(c, before);
            // completely unmapped: lowest address reported
            let mut c = memcpu(be);
            assert_eq!(step(&mut c, PC, ld(0x23, 8), None), MemFault(BASE + 8));
            // lw $zero from unmapped memory still faults
            assert_eq!(step(&mut c, PC, i(0x23, A0, 0, 8), None), MemFault(BASE + 8));
        }
    }

    // ---- lwl / lwr / swl / swr --------------------------------------------------------------
    //
    // Manual tables.  Loads: memory word bytes by ASCENDING ADDRESS are 11 22 33 44, the register
    // holds e f g h = AA BB CC DD before the load.
    //   big-endian:    I J K L = 11 22 33 44 (byte at offset 0 is most significant)
    //   little-endian: I J K L = 44 33 22 11 (byte at offset 3 is most significant)
    // Stores: register E F G H = AA BB CC DD, memory by ascending address 11 22 33 44.

    /// Execute load `op` v0,n(a0) for n = 0..4 on a fresh cpu, return the four v0 results.
    fn partial_loads(be: bool, op: u32) -> [u32; 4] {
        let mut out = [0u32; 4];
        for n in 0..4 {
            let mut c = memcpu(be);
            let mem_before = c.mem.clone();
            run(&mut c, ld(op, n as i32));
            assert_eq!(c.mem, mem_before);
            out[n] = c.gpr[V0 as usize];
        }
        out
    }
    /// Execute store `op` a1,n(a0) for n = 0..4 on a fresh cpu, return the word bytes at BASE.
    fn partial_stores(be: bool, op: u32) -> [Vec<u8>; 4] {
        let mut out: [Vec<u8>; 4] = Default::default();
        for n in 0..4 {
            let mut c = memcpu(be);
            let gpr = c.gpr;
            run(&mut c, st(op, n as i32));
            assert_eq!(c.gpr, gpr);
            assert_eq!(bytes(&c, BASE + 4, 4), [0x55, 0x66, 0x77, 0x88], "neighbour word untouched");
            out[n] = bytes(&c, BASE, 4);
        }
        out
    }

    #[test]
    fn lwl_big_endian() {
        // vAddr1..0 = 0: IJKL  1: JKLh  2: KLgh  3: Lfgh
        assert_eq!(partial_loads(true, 0x22), [0x1122_3344, 0x2233_44dd, 0x3344_ccdd, 0x44bb_ccdd]);
    }

    #[test]
    fn lwr_big_endian() {
        // 0: efgI  1: efIJ  2: eIJK  3: IJKL
        assert_eq!(partial_loads(true, 0x26), [0xaabb_cc11, 0xaabb_1122, 0xaa11_2233, 0x1122_3344]);
    }

    #[test]
    fn lwl_little_endian() {
        // 0: Lfgh  1: KLgh  2: JKLh  3: IJKL     with IJKL = 44 33 22 11
        assert_eq!(partial_loads(false, 0x22), [0x11bb_ccdd, 0x2211_ccdd, 0x3322_11dd, 0x4433_2211]);
    }

    #[test]
    fn lwr_little_endian() {
        // 0: IJKL  1: eIJK  2: efIJ  3: efgI     with IJKL = 44 33 22 11
        assert_eq!(partial_loads(false, 0x26), [0x4433_2211, 0xaa44_3322, 0xaabb_4433, 0xaabb_cc44]);
    }

    #[test]
    fn swl_big_endian() {
        // bytes by ascending address; 0: EFGH  1: iEFG  2: ijEF  3: ijkE
        let got = partial_stores(true, 0x2a);
        assert_eq!(got[0], [0xaa, 0xbb, 0xcc, 0xdd]);
        assert_eq!(got[1], [0x11, 0xaa, 0xbb, 0xcc]);
        assert_eq!(got[2], [0x11, 0x22, 0xaa, 0xbb]);
        assert_eq!(got[3], [0x11, 0x22, 0x33, 0xaa]);
    }

    #[test]
    fn swr_big_endian() {
        // 0: Hjkl  1: GHkl  2: FGHl  3: EFGH
        let got = partial_stores(true, 0x2e);
        assert_eq!(got[0], [0xdd, 0x22, 0x33, 0x44]);
        assert_eq!(got[1], [0xcc, 0xdd, 0x33, 0x44]);
        assert_eq!(got[2], [0xbb, 0xcc, 0xdd, 0x44]);
        assert_eq!(got[3], [0xaa, 0xbb, 0xcc, 0xdd]);
    }

    #[test]
    fn swl_little_endian() {
        // manual shows offsets 3 2 1 0; 0: ijkE  1: ijEF  2: iEFG  3: EFGH
        // by ascending address that is:
        let got = partial_stores(false, 0x2a);
        assert_eq!(got[0], [0xaa, 0x22, 0x33, 0x44]);
        assert_eq!(got[1], [0xbb, 0xaa, 0x33, 0x44]);
        assert_eq!(got[2], [0xcc, 0xbb, 0xaa, 0x44]);
        assert_eq!(got[3], [0xdd, 0xcc, 0xbb, 0xaa]);
    }

    #[test]
    fn swr_little_endian() {
        // manual shows offsets 3 2 1 0; 0: EFGH  1: FGHl  2: GHkl  3: Hjkl
        // by ascending address that is:
        let got = partial_stores(false, 0x2e);
        assert_eq!(got[0], [0xdd, 0xcc, 0xbb, 0xaa]);
        assert_eq!(got[1], [0x11, 0xdd, 0xcc, 0xbb]);
        assert_eq!(got[2], [0x11, 0x22, 0xdd, 0xcc]);
        assert_eq!(got[3], [0x11, 0x22, 0x33, 0xdd]);
    }

    #[test]
    fn unaligned_word_load_idiom() {
        // big-endian "ulw v0,1(a0)" = lwl v0,1(a0) ; lwr v0,4(a0) -> bytes 22 33 44 55
        let mut c = memcpu(true);
        run(&mut c, ld(0x22, 1));
        assert_eq!(c.gpr[V0 as usize], 0x2233_44dd);
        run(&mut c, ld(0x26, 4));
        assert_eq!(c.gpr[V0 as usize], 0x2233_4455);
        // little-endian "ulw v0,1(a0)" = lwr v0,1(a0) ; lwl v0,4(a0) -> value 0x55443322
        let mut c = memcpu(false);
        run(&mut c, ld(0x26, 1));
        assert_eq!(c.gpr[V0 as usize], 0xaa44_3322);
        run(&mut c, ld(0x22, 4));
        assert_eq!(c.gpr[V0 as usize], 0x5544_3322);
        // offset 3: BE lwl 3 / lwr 6 -> 44 55 66 77 ; LE lwr 3 / lwl 6 -> 0x77665544
        let mut c = memcpu(true);
        run(&mut c, ld(0x22, 3));
        run(&mut c, ld(0x26, 6));
        assert_eq!(c.gpr[V0 as usize], 0x4455_6677);
        let mut c = memcpu(false);
        run(&mut c, ld(0x26, 3));
        run(&mut c, ld(0x22, 6));
        assert_eq!(c.gpr[V0 as usize], 0x7766_5544);
    }

    #[test]
    fn unaligned_word_store_idiom() {
        // big-endian "usw a1,1(a0)" = swl a1,1(a0) ; swr a1,4(a0)
        let mut c = memcpu(true);
        run(&mut c, st(0x2a, 1));
        run(&mut c, st(0x2e, 4));
        assert_eq!(bytes(&c, BASE, 8), [0x11, 0xaa, 0xbb, 0xcc, 0xdd, 0x66, 0x77, 0x88]);
        // little-endian "usw a1,1(a0)" = swr a1,1(a0) ; swl a1,4(a0)
        let mut c = memcpu(false);
        run(&mut c, st(0x2e, 1));
        run(&mut c, st(0x2a, 4));
        assert_eq!(bytes(&c, BASE, 8), [0x11, 0xdd, 0xcc, 0xbb, 0xaa, 0x66, 0x77, 0x88]);
    }

    #[test]
    fn partial_word_accesses_touch_only_their_bytes() {
        // BE lwl at offset 2 touches bytes 2,3 only; BE lwr at offset 1 touches bytes 0,1 only
        let mut c = memcpu(true);
        c.mem.remove(&BASE);
        c.mem.remove(&(BASE + 1));
        run(&mut c, ld(0x22, 2));
        assert_eq!(c.gpr[V0 as usize], 0x3344_ccdd);
        run(&mut c, st(0x2a, 2)); // swl a1,2(a0) writes bytes 2,3
        assert_eq!(bytes(&c, BASE + 2, 2), [0xaa, 0xbb]);
        let before = c.clone();
        assert_eq!(step(&mut c, PC, ld(0x26, 1), None), MemFault(BASE)); // lowest unmapped
        assert_eq!(step(&mut c, PC, st(0x2e, 1), None), MemFault(BASE));
        assert_eq!(step(&mut c, PC, ld(0x22, 1), None), MemFault(BASE + 1));
        assert_eq!(c, before);
        // LE lwl at offset 1 touches bytes 0,1 only; LE lwr at offset 2 touches bytes 2,3 only
        let mut c = memcpu(false);
        c.mem.remove(&(BASE + 2));
        c.mem.remove(&(BASE + 3));
        run(&mut c, ld(0x22, 1));
        assert_eq!(c.gpr[V0 as usize], 0x2211_ccdd);
        let before = c.clone();
        assert_eq!(step(&mut c, PC, ld(0x26, 2), None), MemFault(BASE + 2));
        assert_eq!(step(&mut c, PC, st(0x2e, 1), None), MemFault(BASE + 2)); // swr LE n=1: bytes 1,2,3
        assert_eq!(step(&mut c, PC, ld(0x22, 3), None), MemFault(BASE + 2)); // lwl LE n=3: bytes 0..3
        assert_eq!(c, before);
        run(&mut c, st(0x2a, 1)); // swl LE n=1 writes bytes 0,1 : F at 0, E at 1
        assert_eq!(bytes(&c, BASE, 2), [0xbb, 0xaa]);
    }

    #[test]
    fn lwl_into_base_register_and_zero() {
        // lwl a0,1(a0) big-endian: a0 = 0x00002000 -> JKL h = 22 33 44 00
        let mut c = memcpu(true);
        run(&mut c, i(0x22, A0, A0, 1));
        assert_eq!(c.gpr[A0 as usize], 0x2233_4400);
        // lwr $zero,0(a0): discarded
        let mut c = memcpu(false);
        let before = c.clone();
        run(&mut c, i(0x26, A0, 0, 0));
        assert_eq!(c, before);
        // swl $zero,0(a0) big-endian writes four zero bytes
        let mut c = memcpu(true);
        run(&mut c, i(0x2a, A0, 0, 0));
        assert_eq!(bytes(&c, BASE, 4), [0, 0, 0, 0]);
    }

    // ---- branches and jumps ---------------------------------------------------------------

    const NOP: u32 = 0;

    /// Execute a conditional branch word with rs=a0 (and rt=a1 where relevant) at PC with a nop slot.
    fn br(word: u32, a0: u32, a1: u32) -> u32 {
        let mut c = with(a0, a1);
        let before = c.clone();
        match step(&mut c, PC, word, Some(NOP)) {
            Next { pc } => {
                assert_eq!(c, before, "non-linking branch with nop slot must not change state");
                pc
            }
            o => panic!("unexpected outcome {:?}", o),
        }
    }

    #[test]
    fn branch_target_arithmetic() {
        // beq a0,a1,off with a0 == a1; target = (PC+4) + (sext(off) << 2)
        let beq = |off: i32| br(i(0x04, A0, A1, off), 7, 7);
        assert_eq!(beq(3), 0x0040_0010);
        assert_eq!(beq(-1), 0x0040_0000); // branch to self
        assert_eq!(beq(0), 0x0040_0004); // target is the delay slot's address
        assert_eq!(beq(1), 0x0040_0008);
        assert_eq!(beq(0x8000), 0x003e_0004); // -32768 instructions
        assert_eq!(beq(0x7fff), 0x0042_0000);
        // not taken -> PC + 8
        assert_eq!(br(i(0x04, A0, A1, 3), 7, 8), 0x0040_0008);
        // "b ." hand-assembled word
        assert_eq!(br(0x1000_ffff, 1, 2), 0x0040_0000);
        // wrap-around of the address space
        let mut c = cpu(true);
        assert_eq!(step(&mut c, 0xffff_fff8, i(0x04, 0, 0, 2), Some(NOP)), Next { pc: 4 });
        assert_eq!(step(&mut c, 0, i(0x04, 0, 0, -2), Some(NOP)), Next { pc: 0xffff_fffc });
    }

    #[test]
    fn beq_bne_conditions() {
        let t = 0x0040_0010; // taken target for offset 3
        let n = 0x0040_0008;
        assert_eq!(br(i(0x04, A0, A1, 3), 0x8000_0000, 0x8000_0000), t);
        assert_eq!(br(i(0x04, A0, A1, 3), 0, 1), n);
        assert_eq!(br(i(0x05, A0, A1, 3), 0, 1), t);
        assert_eq!(br(i(0x05, A0, A1, 3), 5, 5), n);
        assert_eq!(br(0x1480_0003, 1, 0), t); // bnez a0,+3
        assert_eq!(br(0x1480_0003, 0, 9), n);
        assert_eq!(br(i(0x04, A0, 0, 3), 0, 9), t); // beqz a0
        assert_eq!(br(i(0x05, 0, 0, 3), 0, 9), n); // bne $zero,$zero never taken
    }

    #[test]
    fn compare_with_zero_branches() {
        let t = 0x0040_0010;
        let n = 0x0040_0008;
        let neg = 0x8000_0000;
        let m1 = 0xffff_ffff;
        let pos = 0x7fff_ffff;
        // (word, [result for INT_MIN, -1, 0, 1, INT_MAX])
        let table = [
            (0x1880_0003u32, [t, t, t, n, n]), // blez
            (0x1c80_0003, [n, n, n, t, t]),    // bgtz
            (0x0480_0003, [t, t, n, n, n]),    // bltz
            (0x0481_0003, [n, n, t, t, t]),    // bgez
        ];
        for (w, want) in table {
            for (v, expect) in [neg, m1, 0, 1, pos].into_iter().zip(want) {
                assert_eq!(br(w, v, 0), expect, "word {:#010x} value {:#x}", w, v);
            }
        }
    }

    #[test]
    fn and_link_branches_link_unconditionally() {
        // bltzal a0,+3
        let mut c = with(0xffff_ffff, 0);
        assert_eq!(step(&mut c, PC, 0x0490_0003, Some(NOP)), Next { pc: 0x0040_0010 });
        assert_eq!(c.gpr[RA as usize], 0x0040_0008);
        let mut c = with(0, 0);
        assert_eq!(step(&mut c, PC, 0x0490_0003, Some(NOP)), Next { pc: 0x0040_0008 });
        assert_eq!(c.gpr[RA as usize], 0x0040_0008); // not taken, still linked
        // bgezal a0,+3
        let mut c = with(0, 0);
        assert_eq!(step(&mut c, PC, 0x0491_0003, Some(NOP)), Next { pc: 0x0040_0010 });
        assert_eq!(c.gpr[RA as usize], 0x0040_0008);
        let mut c = with(0x8000_0000, 0);
        assert_eq!(step(&mut c, PC, 0x0491_0003, Some(NOP)), Next { pc: 0x0040_0008 });
        assert_eq!(c.gpr[RA as usize], 0x0040_0008);
        // bal -4 (bgezal $zero)
        let mut c = with(0, 0);
        assert_eq!(step(&mut c, PC, 0x0411_fffc, Some(NOP)), Next { pc: 0x003f_fff4 });
        assert_eq!(c.gpr[RA as usize], 0x0040_0008);
        // rs == 31 is UNPREDICTABLE
        let mut c = with(0, 0);
        let before = c.clone();
        assert!(matches!(step(&mut c, PC, i(0x01, RA, 0x10, 3), Some(NOP)), Unpredictable(_)));
        assert!(matches!(step(&mut c, PC, i(0x01, RA, 0x11, 3), Some(NOP)), Unpredictable(_)));
        assert_eq!(c, before);
    }

    #[test]
    fn j_and_jal_use_region_of_delay_slot() {
        let mut c = cpu(true);
        assert_eq!(step(&mut c, PC, 0x0810_0040, Some(NOP)), Next { pc: 0x0040_0100 });
        assert_eq!(c.gpr[RA as usize], 0);
        assert_eq!(step(&mut c, PC, 0x0c10_0040, Some(NOP)), Next { pc: 0x0040_0100 });
        assert_eq!(c.gpr[RA as usize], 0x0040_0008);
        // jump as last word of a 256MB region: upper bits come from PC+4
        let mut c = cpu(false);
        assert_eq!(step(&mut c, 0x0fff_fffc, 0x0800_0040, Some(NOP)), Next { pc: 0x1000_0100 });
        assert_eq!(step(&mut c, 0x0fff_fffc, 0x0c00_0040, Some(NOP)), Next { pc: 0x1000_0100 });
        assert_eq!(c.gpr[RA as usize], 0x1000_0004);
        // maximum index in kseg0
        assert_eq!(step(&mut c, 0x8000_1000, 0x0bff_ffff, Some(NOP)), Next { pc: 0x8fff_fffc });
    }

    #[test]
    fn jr_reads_rs_before_slot() {
        // jr ra ; addiu ra,ra,8
        let mut c = cpu(true);
        c.gpr[RA as usize] = 0x0040_0100;
        assert_eq!(step(&mut c, PC, 0x03e0_0008, Some(0x27ff_0008)), Next { pc: 0x0040_0100 });
        assert_eq!(c.gpr[RA as usize], 0x0040_0108);
        // jr to a misaligned address is not checked here: the fault belongs to the later fetch
        let mut c = with(0x0040_0102, 0);
        assert_eq!(step(&mut c, PC, r(A0, 0, 0, 0, 8), Some(NOP)), Next { pc: 0x0040_0102 });
        // jr $zero
        assert_eq!(step(&mut c, PC, r(0, 0, 0, 0, 8), Some(NOP)), Next { pc: 0 });
    }

    #[test]
    fn jalr_links_before_slot_and_reads_rs_before_slot() {
        // jalr t9 ; addu v0,ra,$zero  -> slot sees the new ra
        let mut c = cpu(true);
        c.gpr[T9 as usize] = 0x0050_0000;
        c.gpr[RA as usize] = 0x1111_1111;
        assert_eq!(step(&mut c, PC, 0x0320_f809, Some(0x03e0_1021)), Next { pc: 0x0050_0000 });
        assert_eq!(c.gpr[RA as usize], 0x0040_0008);
        assert_eq!(c.gpr[V0 as usize], 0x0040_0008);
        // jalr t9 ; addiu t9,t9,4 -> target is the old t9
        let mut c = cpu(true);
        c.gpr[T9 as usize] = 0x0050_0000;
        assert_eq!(step(&mut c, PC, 0x0320_f809, Some(i(0x09, T9, T9, 4))), Next { pc: 0x0050_0000 });
        assert_eq!(c.gpr[T9 as usize], 0x0050_0004);
        // jalr a1,a0 (rd = 5): ra untouched
        let mut c = with(0x0060_0000, 0);
        assert_eq!(step(&mut c, PC, r(A0, 0, A1, 0, 9), Some(NOP)), Next { pc: 0x0060_0000 });
        assert_eq!(c.gpr[A1 as usize], 0x0040_0008);
        assert_eq!(c.gpr[RA as usize], 0);
        // jalr $zero,a0 : behaves as jr
        let mut c = with(0x0060_0000, 0);
        let before = c.clone();
        assert_eq!(step(&mut c, PC, r(A0, 0, 0, 0, 9), Some(NOP)), Next { pc: 0x0060_0000 });
        assert_eq!(c, before);
        // jalr ra,ra : rs == rd is UNPREDICTABLE
        let mut c = with(0, 0);
        c.gpr[RA as usize] = 0x0060_0000;
        let before = c.clone();
        assert!(matches!(step(&mut c, PC, r(RA, 0, RA, 0, 9), Some(NOP)), Unpredictable(_)));
        assert_eq!(c, before);
    }

    #[test]
    fn slot_executes_after_condition_is_evaluated() {
        // beq a0,a1,+3 ; addiu a0,a0,1  with a0 == a1: taken even though slot makes them differ
        let mut c = with(7, 7);
        assert_eq!(step(&mut c, PC, i(0x04, A0, A1, 3), Some(0x2484_0001)), Next { pc: 0x0040_0010 });
        assert_eq!(c.gpr[A0 as usize], 8);
        // bne a0,a1,+3 ; addiu a0,a0,1 with a0+1 == a1: taken (compared before the slot)
        let mut c = with(6, 7);
        assert_eq!(step(&mut c, PC, i(0x05, A0, A1, 3), Some(0x2484_0001)), Next { pc: 0x0040_0010 });
        assert_eq!(c.gpr[A0 as usize], 7);
        // bltz a0,+3 ; addiu a0,a0,1 with a0 = -1: taken, a0 becomes 0
        let mut c = with(0xffff_ffff, 0);
        assert_eq!(step(&mut c, PC, 0x0480_0003, Some(0x2484_0001)), Next { pc: 0x0040_0010 });
        assert_eq!(c.gpr[A0 as usize], 0);
        // not-taken branch still executes its slot
        let mut c = with(1, 2);
        assert_eq!(step(&mut c, PC, i(0x04, A0, A1, 3), Some(0x2484_0001)), Next { pc: 0x0040_0008 });
        assert_eq!(c.gpr[A0 as usize], 2);
    }

    #[test]
    fn slot_sees_and_may_overwrite_link_register() {
        // jal ; addu v0,ra,$zero
        let mut c = cpu(true);
        assert_eq!(step(&mut c, PC, 0x0c10_0040, Some(0x03e0_1021)), Next { pc: 0x0040_0100 });
        assert_eq!(c.gpr[V0 as usize], 0x0040_0008);
        // jal ; addiu ra,$zero,0x1234 -> slot's write wins
        let mut c = cpu(true);
        assert_eq!(step(&mut c, PC, 0x0c10_0040, Some(i(0x09, 0, RA, 0x1234))), Next { pc: 0x0040_0100 });
        assert_eq!(c.gpr[RA as usize], 0x1234);
        // jal ; addiu ra,ra,4 -> link + 4 (gcc's tail-return trick)
        let mut c = cpu(true);
        assert_eq!(step(&mut c, PC, 0x0c10_0040, Some(i(0x09, RA, RA, 4))), Next { pc: 0x0040_0100 });
        assert_eq!(c.gpr[RA as usize], 0x0040_000c);
        // bal +3 ; sw ra,0(a0) stores the new link value (big-endian)
        let mut c = memcpu(true);
        assert_eq!(step(&mut c, PC, 0x0411_0003, Some(i(0x2b, A0, RA, 0))), Next { pc: 0x0040_0010 });
        assert_eq!(bytes(&c, BASE, 4), [0x00, 0x40, 0x00, 0x08]);
    }

    #[test]
    fn branch_in_delay_slot_is_unpredictable() {
        for slot in [0x1000_ffffu32, 0x03e0_0008, 0x0c10_0040, 0x0810_0040, 0x0320_f809, 0x0481_0001] {
            for w in [0x1000_0003u32, 0x03e0_0008, 0x0c10_0040, 0x0491_0003] {
                let mut c = with(1, 2);
                let before = c.clone();
                assert_eq!(step(&mut c, PC, w, Some(slot)), Unpredictable("branch in delay slot"));
                assert_eq!(c, before);
            }
        }
    }

    #[test]
    fn exceptions_in_delay_slot_are_reported_after_link() {
        // jal ; break
        let mut c = cpu(true);
        assert_eq!(step(&mut c, PC, 0x0c10_0040, Some(0x0000_000d)), Trap("break"));
        assert_eq!(c.gpr[RA as usize], 0x0040_0008);
        // jalr t9 ; syscall
        let mut c = cpu(true);
        c.gpr[T9 as usize] = 0x0050_0000;
        assert_eq!(step(&mut c, PC, 0x0320_f809, Some(0x0000_000c)), Trap("syscall"));
        assert_eq!(c.gpr[RA as usize], 0x0040_0008);
        // b ; add v0,a0,a1 overflowing: v0 unchanged
        let mut c = with(0x7fff_ffff, 1);
        let before = c.clone();
        assert_eq!(step(&mut c, PC, 0x1000_0003, Some(0x0085_1020)), Trap("overflow"));
        assert_eq!(c, before);
        // jal ; lw v0,0(a0) from unmapped memory
        let mut c = with(0x5000, 0);
        assert_eq!(step(&mut c, PC, 0x0c10_0040, Some(ld(0x23, 0))), MemFault(0x5000));
        assert_eq!(c.gpr[RA as usize], 0x0040_0008);
        assert_eq!(c.gpr[V0 as usize], 0xdead_beef);
        // beq ; lw misaligned
        let mut c = memcpu(true);
        assert_eq!(step(&mut c, PC, 0x1000_0003, Some(ld(0x23, 2))), Unaligned(BASE + 2));
        // beq ; teq $zero,$zero
        assert_eq!(step(&mut c, PC, 0x1000_0003, Some(0x0000_0034)), Trap("trap"));
        // beq ; div by zero
        assert_eq!(step(&mut c, PC, 0x1000_0003, Some(r(A0, 0, 0, 0, 0x1a))), Unpredictable("div0"));
    }

    #[test]
    fn missing_or_unmodelled_slot() {
        for w in [0x1000_0003u32, 0x03e0_0008, 0x0c10_0040, 0x0320_f809, 0x0491_0003] {
            let mut c = with(1, 2);
            let before = c.clone();
            assert_eq!(step(&mut c, PC, w, None), Unmodelled);
            assert_eq!(step(&mut c, PC, w, Some(0xffff_ffff)), Unmodelled);
            assert_eq!(step(&mut c, PC, w, Some(0x4400_0000)), Unmodelled);
            assert_eq!(c, before);
        }
    }

    #[test]
    fn non_branch_ignores_slot_argument() {
        let mut c = with(1, 2);
        // addu v0,a0,a1 with a "slot" that would clobber everything if executed
        assert_eq!(step(&mut c, PC, 0x0085_1021, Some(0x0000_000d)), Next { pc: PC + 4 });
        assert_eq!(c.gpr[V0 as usize], 3);
        assert_eq!(step(&mut c, 0xffff_fffc, 0, Some(0x0c10_0040)), Next { pc: 0 });
        assert_eq!(c.gpr[RA as usize], 0);
    }

    #[test]
    fn slot_pc_is_branch_pc_plus_four() {
        // The slot itself has no pc-relative semantics in this subset, but a full sequence must
        // compose: jal f ; nop ; ... f: jr ra ; nop returns to PC+8.
        let mut c = cpu(true);
        let o = step(&mut c, PC, 0x0c10_0040, Some(NOP));
        assert_eq!(o, Next { pc: 0x0040_0100 });
        let o = step(&mut c, 0x0040_0100, 0x03e0_0008, Some(NOP));
        assert_eq!(o, Next { pc: PC + 8 });
    }
}
