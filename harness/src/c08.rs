//! C08 — Paged memory is a byte-addressed array with independent clones.
//!
//! Oracle: per handle a byte map of stored bytes over a shared backing byte map,
//! plus page-granular permissions (falcon documents set_permissions as acting on
//! pages). After every mutating operation every live handle is re-read around the
//! touched range and compared with its own model.

use crate::fw::*;
use crate::refeval::{self as re, Bv};
use falcon::architecture::Endian;
use falcon::il::{Constant, Expression};
use falcon::memory::backing;
use falcon::memory::paged::Memory;
use falcon::memory::{MemoryPermissions, Value as MemValue};
use falcon::RC;
use num_bigint::BigUint;
use serde_json::{json, Value};
use std::collections::BTreeMap;

pub struct C08 {}

impl C08 {
    pub fn new(_tier: Tier) -> C08 {
        C08 {}
    }
}

const PAGE: u64 = 1024;

/// what the harness needs from a stored value type
pub trait TestVal: MemValue {
    fn make(rng: &mut Rng, v: &BigUint, bits: usize) -> Self;
    /// concrete (value, bits) of a loaded value, by the reference evaluator
    fn concrete(&self) -> Result<Bv, String>;
    const NAME: &'static str;
}

impl TestVal for Constant {
    fn make(_rng: &mut Rng, v: &BigUint, bits: usize) -> Self {
        Constant::new_big(v.clone(), bits)
    }
    fn concrete(&self) -> Result<Bv, String> {
        Ok(Bv::new(self.value().clone(), self.bits()))
    }
    const NAME: &'static str = "constant";
}

impl TestVal for Expression {
    fn make(rng: &mut Rng, v: &BigUint, bits: usize) -> Self {
        let c = |x: BigUint| Expression::Constant(Constant::new_big(x, bits));
        match rng.below(5) {
            // an extension on top: sext.bits / zext.bits of the low half when the value is exactly that extension of it
            // (the memory splits stored expressions with its own shift/truncate builders, which may look at the top node)
            3 | 4 if bits >= 16 => {
                let h = bits / 2;
                let one = BigUint::from(1u8);
                let low = v & ((&one << h) - &one);
                let zext = low.clone();
                let sext = if (&low >> (h - 1)) & &one == one { &low | (((&one << (bits - h)) - &one) << h) } else { low.clone() };
                let lowc = Expression::Constant(Constant::new_big(low, h));
                if &sext == v && rng.bool() {
                    Expression::sext(bits, lowc).unwrap()
                } else if &zext == v {
                    Expression::zext(bits, lowc).unwrap()
                } else if &sext == v {
                    Expression::sext(bits, lowc).unwrap()
                } else {
                    c(v.clone())
                }
            }
            0 | 3 | 4 => c(v.clone()),
            1 => {
                // (v ^ k) ^ k
                let k = rng.corner_big(bits);
                Expression::xor(Expression::xor(c(v.clone()), c(k.clone())).unwrap(), c(k)).unwrap()
            }
            _ => {
                // (v - k) + k
                let k = rng.corner_big(bits);
                let m = BigUint::from(1u8) << bits;
                let d = (&m + v - &k) % &m;
                Expression::add(c(d), c(k)).unwrap()
            }
        }
    }
    fn concrete(&self) -> Result<Bv, String> {
        re::eval(self, &|_| None).map_err(|e| format!("{:?} evaluating {}", e, self))
    }
    const NAME: &'static str = "expression";
}

#[derive(Clone)]
struct Model {
    stored: BTreeMap<u64, u8>,
    backed: bool,
    page_perms: BTreeMap<u64, u32>,
}

struct Handle<V: TestVal> {
    mem: Memory<V>,
    model: Model,
    /// true while no store/set_permissions happened since this handle was cloned from `twin`
    pristine_twin: Option<usize>,
}

#[derive(Clone, Debug)]
enum Op {
    Store { h: usize, addr: u64, bits: usize, value: BigUint },
    Load { h: usize, addr: u64, bits: usize },
    Clone { h: usize },
    SetPerm { h: usize, addr: u64, len: u64, perm: u32 },
    Compare { a: usize, b: usize },
}

fn op_json(op: &Op) -> Value {
    match op {
        Op::Store { h, addr, bits, value } => json!({"store": h, "addr": format!("0x{:x}", addr), "bits": bits, "value": format!("0x{:x}", value)}),
        Op::Load { h, addr, bits } => json!({"load": h, "addr": format!("0x{:x}", addr), "bits": bits}),
        Op::Clone { h } => json!({"clone": h}),
        Op::SetPerm { h, addr, len, perm } => json!({"set_permissions": h, "addr": format!("0x{:x}", addr), "len": len, "perm": perm}),
        Op::Compare { a, b } => json!({"compare": [a, b]}),
    }
}

struct World<V: TestVal> {
    big: bool,
    backing_model: BTreeMap<u64, (u8, u32)>,
    handles: Vec<Handle<V>>,
    touched: std::collections::BTreeSet<u64>,
}

impl<V: TestVal> World<V> {
    fn model_byte(&self, m: &Model, a: u64) -> Option<u8> {
        m.stored.get(&a).cloned().or_else(|| if m.backed { self.backing_model.get(&a).map(|x| x.0) } else { None })
    }
    fn model_load(&self, m: &Model, addr: u64, bits: usize) -> Option<BigUint> {
        let n = (bits / 8) as u64;
        let bytes: Option<Vec<u8>> = (0..n).map(|i| self.model_byte(m, addr + i)).collect();
        bytes.map(|b| if self.big { BigUint::from_bytes_be(&b) } else { BigUint::from_bytes_le(&b) })
    }
    fn model_perm(&self, m: &Model, a: u64) -> Option<u32> {
        m.page_perms
            .get(&(a & !(PAGE - 1)))
            .cloned()
            .or_else(|| if m.backed { self.backing_model.get(&a).map(|x| x.1) } else { None })
    }
}

/// shape of a store relative to the values already stored (by the model's view of value extents)
fn store_shape(extents: &BTreeMap<u64, u64>, addr: u64, len: u64) -> &'static str {
    let end = addr + len;
    let overl: Vec<(u64, u64)> = extents.iter().filter(|(a, l)| **a < end && **a + **l > addr).map(|(a, l)| (*a, *l)).collect();
    let cross = (addr & !(PAGE - 1)) != ((end - 1) & !(PAGE - 1));
    let base = if overl.is_empty() {
        "fresh"
    } else if overl.len() >= 3 {
        "over3plus"
    } else if overl.len() == 2 {
        "over2"
    } else {
        let (a, l) = overl[0];
        if a == addr && l == len {
            "exact"
        } else if a <= addr && a + l >= end {
            if a == addr { "inside_head" } else if a + l == end { "inside_tail" } else { "inside_mid" }
        } else if addr <= a && end >= a + l {
            "covers"
        } else if a < addr {
            "cuts_tail_of_old"
        } else {
            "cuts_head_of_old"
        }
    };
    match (base, cross) {
        ("fresh", true) => "fresh_xpage",
        ("exact", true) => "exact_xpage",
        ("covers", true) => "covers_xpage",
        ("inside_mid", true) => "inside_mid_xpage",
        ("cuts_tail_of_old", true) => "cuts_tail_xpage",
        ("cuts_head_of_old", true) => "cuts_head_xpage",
        ("over2", true) => "over2_xpage",
        ("over3plus", true) => "over3plus_xpage",
        (b, _) => b,
    }
}

impl C08 {
    fn run_history<V: TestVal>(&self, ctx: &mut Ctx, rng: &mut Rng, big: bool, with_backing: bool, base: u64, ops_n: usize, scripted: Option<Vec<Op>>, tag: &str) {
        let endian = if big { Endian::Big } else { Endian::Little };
        // backing with holes
        let mut backing_model = BTreeMap::new();
        let backing_rc = if with_backing {
            // the backing's own byte order is irrelevant to the paged memory (it is read byte by byte):
            // one in three backings is built with the opposite order
            let backing_endian = if rng.chance(1, 3) { if big { Endian::Little } else { Endian::Big } } else { endian.clone() };
            let mut b = backing::Memory::new(backing_endian);
            let regions: [(u64, u64, u32); 3] = [(base + 0x3e0, 0x28, 5), (base + 0x40c, 0x20, 3), (base + 0x7f8, 0x10, 1)];
            for (i, (a, l, p)) in regions.iter().enumerate() {
                let data: Vec<u8> = (0..*l).map(|k| (0x40 + i as u64 * 0x30 + k) as u8).collect();
                for (k, d) in data.iter().enumerate() {
                    backing_model.insert(a + k as u64, (*d, *p));
                }
                b.set_memory(*a, data, MemoryPermissions::from_bits_truncate(*p));
            }
            Some(RC::new(b))
        } else {
            None
        };
        let mem0: Memory<V> = match &backing_rc {
            Some(b) => Memory::new_with_backing(endian.clone(), b.clone()),
            None => Memory::new(endian.clone()),
        };
        let mut w = World::<V> {
            big,
            backing_model,
            handles: vec![Handle { mem: mem0, model: Model { stored: BTreeMap::new(), backed: with_backing, page_perms: BTreeMap::new() }, pristine_twin: None }],
            touched: Default::default(),
        };
        // value extents per handle, for shape classification only
        let mut extents: Vec<BTreeMap<u64, u64>> = vec![BTreeMap::new()];
        let mut hist: Vec<Op> = Vec::new();
        let cfg = json!({"value_type": V::NAME, "endian": if big {"big"} else {"little"}, "backing": with_backing, "base": format!("0x{:x}", base)});
        let hjson = |hist: &Vec<Op>| -> Value { json!({"config": cfg, "ops": hist.iter().map(op_json).collect::<Vec<_>>()}) };
        let widths = [8usize, 8, 16, 16, 24, 32, 32, 40, 64, 64, 128, 256];
        let hot = |rng: &mut Rng| -> u64 {
            match rng.below(10) {
                0 => base + rng.below(0x20),
                1 => base + 0x7f0 + rng.below(0x20),
                _ => base + 0x3e8 + rng.below(0x30),
            }
        };
        let total = scripted.as_ref().map(|s| s.len()).unwrap_or(ops_n);
        for step in 0..total {
            let op = if let Some(s) = &scripted {
                s[step].clone()
            } else {
                let nh = w.handles.len();
                let h = rng.usize(nh);
                match rng.below(20) {
                    0..=9 => {
                        let bits = *rng.pick(&widths);
                        Op::Store { h, addr: hot(rng), bits, value: rng.corner_big(bits) }
                    }
                    10..=13 => Op::Load { h, addr: hot(rng), bits: *rng.pick(&widths) },
                    14 | 15 => {
                        if nh < 4 { Op::Clone { h } } else { Op::Compare { a: h, b: rng.usize(nh) } }
                    }
                    16 | 17 => Op::SetPerm { h, addr: hot(rng), len: 1 + rng.below(0x30) + if rng.chance(1, 5) { 0x400 } else { 0 }, perm: rng.below(8) as u32 },
                    _ => Op::Compare { a: h, b: rng.usize(nh) },
                }
            };
            hist.push(op.clone());
            ctx.trace(|| format!("history {}", hjson(&hist)));
            let mut touched_lo = u64::MAX;
            let mut touched_hi = 0u64;
            let mut shape = "none";
            match &op {
                Op::Store { h, addr, bits, value } => {
                    let v = V::make(rng, value, *bits);
                    shape = store_shape(&extents[*h], *addr, (*bits / 8) as u64);
                    let r = guard(|| w.handles[*h].mem.store(*addr, v));
                    ctx.eval();
                    match r {
                        Err(p) => {
                            ctx.panic_violation(&format!("store:{}", shape), &p, hjson(&hist));
                            return;
                        }
                        Ok(Err(e)) => {
                            ctx.violation(&format!("store:error:{}:{}", shape, tag), json!({"history": hjson(&hist), "error": format!("{:?}", e)}));
                            return;
                        }
                        Ok(Ok(())) => {}
                    }
                    let n = *bits / 8;
                    let mut bytes = value.to_bytes_le();
                    bytes.resize(n, 0);
                    if big {
                        bytes.reverse();
                    }
                    for (i, b) in bytes.iter().enumerate() {
                        w.handles[*h].model.stored.insert(addr + i as u64, *b);
                        w.touched.insert(addr + i as u64);
                    }
                    // extents bookkeeping (approximate, classification only)
                    let end = addr + n as u64;
                    let olds: Vec<(u64, u64)> = extents[*h].iter().filter(|(a, l)| **a < end && **a + **l > *addr).map(|(a, l)| (*a, *l)).collect();
                    for (a, l) in olds {
                        extents[*h].remove(&a);
                        if a < *addr {
                            extents[*h].insert(a, addr - a);
                        }
                        if a + l > end {
                            extents[*h].insert(end, a + l - end);
                        }
                    }
                    extents[*h].insert(*addr, n as u64);
                    w.handles[*h].pristine_twin = None;
                    for other in w.handles.iter_mut() {
                        if other.pristine_twin == Some(*h) {
                            other.pristine_twin = None;
                        }
                    }
                    touched_lo = addr.saturating_sub(16);
                    touched_hi = end + 16;
                }
                Op::Load { h, addr, bits } => {
                    if !self.check_load(ctx, &w, *h, *addr, *bits, &hist, &hjson, tag) {
                        return;
                    }
                }
                Op::Clone { h } => {
                    let m = w.handles[*h].mem.clone();
                    // reflexivity: a memory equals its unmodified clone
                    let r = guard(|| m == w.handles[*h].mem);
                    ctx.eval();
                    match r {
                        Err(p) => {
                            ctx.panic_violation("eq", &p, hjson(&hist));
                            return;
                        }
                        Ok(false) => {
                            ctx.violation(
                                &format!("eq:not_reflexive:{}:{}", if with_backing {"backed"} else {"unbacked"}, tag),
                                json!({"history": hjson(&hist), "note": "m.clone() == m is false"}),
                            );
                            // keep going: other checks still meaningful
                        }
                        Ok(true) => {}
                    }
                    let model = w.handles[*h].model.clone();
                    let ext = extents[*h].clone();
                    let twin = *h;
                    w.handles.push(Handle { mem: m, model, pristine_twin: Some(twin) });
                    extents.push(ext);
                    ctx.count("clones");
                }
                Op::SetPerm { h, addr, len, perm } => {
                    let r = guard(|| w.handles[*h].mem.set_permissions(*addr, *len, MemoryPermissions::from_bits_truncate(*perm)));
                    ctx.eval();
                    if let Err(p) = r {
                        ctx.panic_violation("set_permissions", &p, hjson(&hist));
                        return;
                    }
                    let mut pa = addr & !(PAGE - 1);
                    while pa < addr + len {
                        w.handles[*h].model.page_perms.insert(pa, *perm);
                        pa += PAGE;
                    }
                    w.handles[*h].pristine_twin = None;
                    for other in w.handles.iter_mut() {
                        if other.pristine_twin == Some(*h) {
                            other.pristine_twin = None;
                        }
                    }
                    // every address in the range must report it, on this handle
                    let probe = [*addr, addr + len - 1, addr + len / 2];
                    for a in probe {
                        let r = guard(|| w.handles[*h].mem.permissions(a));
                        ctx.eval();
                        match r {
                            Err(p) => {
                                ctx.panic_violation("permissions", &p, hjson(&hist));
                                return;
                            }
                            Ok(got) => {
                                if got.map(|g| g.bits()) != Some(*perm) {
                                    ctx.violation(
                                        &format!("perm:set_range_not_reported:{}", tag),
                                        json!({"history": hjson(&hist), "address": format!("0x{:x}", a), "expected": perm, "actual": got.map(|g| g.bits())}),
                                    );
                                    return;
                                }
                            }
                        }
                    }
                    touched_lo = addr.saturating_sub(4);
                    touched_hi = (addr + len + 4).min(addr + 64);
                    ctx.count("set_permissions");
                }
                Op::Compare { a, b } => {
                    let r = guard(|| w.handles[*a].mem == w.handles[*b].mem);
                    ctx.eval();
                    match r {
                        Err(p) => {
                            ctx.panic_violation("eq", &p, hjson(&hist));
                            return;
                        }
                        Ok(eq) => {
                            let same_model = {
                                let (ma, mb) = (&w.handles[*a].model, &w.handles[*b].model);
                                w.touched.iter().all(|x| w.model_byte(ma, *x) == w.model_byte(mb, *x))
                            };
                            if eq && !same_model {
                                ctx.violation(&format!("eq:true_but_loads_differ:{}", tag), json!({"history": hjson(&hist)}));
                                return;
                            }
                            let unmodified_clone = a == b || w.handles[*a].pristine_twin == Some(*b) || w.handles[*b].pristine_twin == Some(*a);
                            if !eq && unmodified_clone {
                                ctx.violation(
                                    &format!("eq:not_reflexive:{}:{}", if with_backing {"backed"} else {"unbacked"}, tag),
                                    json!({"history": hjson(&hist), "note": "a memory and its unmodified clone (or itself) compare unequal"}),
                                );
                            }
                            ctx.count(if eq { "compare_equal" } else { "compare_unequal" });
                        }
                    }
                }
            }
            // after a mutation: re-read the neighbourhood on every live handle
            if touched_lo != u64::MAX {
                for h in 0..w.handles.len() {
                    for a in touched_lo..touched_hi {
                        if !self.check_load(ctx, &w, h, a, 8, &hist, &hjson, tag) {
                            return;
                        }
                        // permissions
                        let r = guard(|| w.handles[h].mem.permissions(a));
                        ctx.eval();
                        match r {
                            Err(p) => {
                                ctx.panic_violation("permissions", &p, hjson(&hist));
                                return;
                            }
                            Ok(got) => {
                                let want = w.model_perm(&w.handles[h].model, a);
                                if got.map(|g| g.bits()) != want {
                                    let page_has_set = w.handles[h].model.page_perms.contains_key(&(a & !(PAGE - 1)));
                                    let kind = if page_has_set { "set_page_wrong" } else if w.handles[h].model.stored.keys().any(|k| k & !(PAGE - 1) == a & !(PAGE - 1)) { "never_set_after_store" } else { "never_set" };
                                    ctx.violation(
                                        &format!("perm:{}:{}", kind, tag),
                                        json!({"history": hjson(&hist), "handle": h, "address": format!("0x{:x}", a), "expected": want, "actual": got.map(|g| g.bits())}),
                                    );
                                    return;
                                }
                            }
                        }
                    }
                    for _ in 0..4 {
                        let a = touched_lo + rng.below(touched_hi - touched_lo);
                        let bits = *rng.pick(&widths);
                        if !self.check_load(ctx, &w, h, a, bits, &hist, &hjson, tag) {
                            return;
                        }
                    }
                }
                if shape != "none" {
                    ctx.class(&format!("{}/{}/{}/{}", shape, if big {"be"} else {"le"}, if with_backing {"bk"} else {"nb"}, V::NAME));
                    ctx.count(&format!("store_shape.{}", shape));
                }
            }
        }
        ctx.count_n("handles_alive_at_end", w.handles.len() as u64);
        if ctx.want_sample() && hist.len() <= 30 {
            ctx.sample(hjson(&hist));
        }
    }

    fn check_load<V: TestVal>(&self, ctx: &mut Ctx, w: &World<V>, h: usize, addr: u64, bits: usize, hist: &Vec<Op>, hjson: &dyn Fn(&Vec<Op>) -> Value, tag: &str) -> bool {
        let want = w.model_load(&w.handles[h].model, addr, bits);
        let r = guard(|| w.handles[h].mem.load(addr, bits));
        ctx.eval();
        let detail = |extra: Value| json!({"history": hjson(hist), "handle": h, "load_addr": format!("0x{:x}", addr), "bits": bits, "expected": want.as_ref().map(|x| format!("0x{:x}", x)), "actual": extra});
        match r {
            Err(p) => {
                ctx.panic_violation("load", &p, detail(json!(null)));
                false
            }
            Ok(Err(e)) => {
                ctx.violation(&format!("load:error:{}", tag), detail(json!(format!("{:?}", e).chars().take(200).collect::<String>())));
                false
            }
            Ok(Ok(got)) => {
                let gotc = match &got {
                    None => None,
                    Some(v) => match v.concrete() {
                        Ok(b) => Some(b),
                        Err(e) => {
                            ctx.violation(&format!("load:unevaluable_value:{}", tag), detail(json!(e)));
                            return false;
                        }
                    },
                };
                match (&want, &gotc) {
                    (None, None) => {
                        ctx.count("loads_absent");
                        true
                    }
                    (Some(x), Some(b)) if b.bits == bits && b.v == *x => true,
                    (Some(_), None) => {
                        ctx.violation(&format!("load:spurious_absent:{}", tag), detail(json!(null)));
                        false
                    }
                    (None, Some(b)) => {
                        ctx.violation(&format!("load:value_for_unmapped:{}", tag), detail(json!(b.hex())));
                        false
                    }
                    (Some(_), Some(b)) => {
                        let foreign = w.handles.iter().enumerate().any(|(i, o)| i != h && w.model_load(&o.model, addr, bits).as_ref() == Some(&b.v));
                        let kind = if b.bits != bits { "wrong_width" } else if foreign { "wrong_value_matches_other_handle" } else { "wrong_value" };
                        ctx.violation(&format!("load:{}:{}:{}", kind, if w.big {"be"} else {"le"}, tag), detail(json!(b.hex())));
                        false
                    }
                }
            }
        }
    }
}

impl Check for C08 {
    fn directed(&self) -> u64 {
        7
    }
    fn run(&mut self, ctx: &mut Ctx, rng: &mut Rng, case: u64) {
        let st = |h: usize, addr: u64, bits: usize, v: u64| Op::Store { h, addr, bits, value: BigUint::from(v) };
        match case {
            6 => {
                // equality implies identical loads: two memories of different byte order (with the same, an equal, or no
                // backing; with and without equal stores) may only compare equal if no load tells them apart
                for with_backing in [false, true] {
                    for stores in [false, true] {
                        let mk = |e: Endian| -> Memory<Constant> {
                            let mut m = if with_backing {
                                let mut b = backing::Memory::new(Endian::Little);
                                b.set_memory(0x1000, vec![0x11, 0x22, 0x33, 0x44, 0x55, 0x66, 0x77, 0x88], MemoryPermissions::READ);
                                Memory::new_with_backing(e, RC::new(b))
                            } else {
                                Memory::new(e)
                            };
                            if stores || !with_backing {
                                for (i, v) in [0xa1u64, 0xb2, 0xc3, 0xd4].iter().enumerate() {
                                    m.store(0x2000 + i as u64, Constant::new(*v, 8)).unwrap();
                                }
                            }
                            m
                        };
                        let (a, b) = (mk(Endian::Little), mk(Endian::Big));
                        ctx.eval();
                        let equal = match guard(|| a == b) {
                            Ok(e) => e,
                            Err(p) => {
                                ctx.panic_violation("eq", &p, json!({"with_backing": with_backing, "stores": stores}));
                                continue;
                            }
                        };
                        let differ = [(0x1000u64, 16usize), (0x1000, 32), (0x2000, 16), (0x2000, 32)].iter().any(|(addr, bits)| {
                            let la = a.load(*addr, *bits).ok().flatten();
                            let lb = b.load(*addr, *bits).ok().flatten();
                            la != lb
                        });
                        if equal && differ {
                            ctx.violation("eq:true_but_loads_differ:different_byte_order:directed", json!({"with_backing": with_backing, "stores": stores}));
                        }
                        ctx.class(&format!("eq/byte_order/{}/{}", if with_backing {"backed"} else {"plain"}, if stores {"stores"} else {"no_stores"}));
                    }
                }
            }
            0 => {
                // reflexive equality with and without backing
                for bk in [false, true] {
                    let ops = vec![st(0, 0x3fe, 32, 0x11223344), Op::Clone { h: 0 }, Op::Compare { a: 0, b: 1 }, Op::Compare { a: 0, b: 0 }];
                    self.run_history::<Constant>(ctx, rng, false, bk, 0, 0, Some(ops), "directed");
                }
            }
            1 => {
                // permissions: range above its own length, never-set after store, backing fallback
                for bk in [false, true] {
                    let ops = vec![
                        Op::SetPerm { h: 0, addr: 0x3f8, len: 0x10, perm: 5 },
                        st(0, 0x7f8, 32, 0xdeadbeef),
                        Op::SetPerm { h: 0, addr: 0x10, len: 4, perm: 2 },
                    ];
                    self.run_history::<Constant>(ctx, rng, true, bk, 0, 0, Some(ops), "directed");
                    let ops = vec![st(0, 0x3e4, 16, 0xbeef), st(0, 0x40e, 8, 1)];
                    self.run_history::<Constant>(ctx, rng, true, bk, 0x10000, 0, Some(ops), "directed");
                }
            }
            2 => {
                // overlap shapes, both endiannesses
                for big in [false, true] {
                    let ops = vec![
                        st(0, 0x3fc, 64, 0x0102030405060708),
                        st(0, 0x3fe, 16, 0xaabb),
                        st(0, 0x3fa, 32, 0xccddeeff),
                        st(0, 0x402, 32, 0x99887766),
                        st(0, 0x3f8, 128, 0x1111222233334444),
                        st(0, 0x3fc, 8, 0x5a),
                        st(0, 0x3fb, 24, 0x123456),
                        Op::Clone { h: 0 },
                        st(1, 0x3fd, 16, 0xfeed),
                        st(0, 0x3f0, 256, 0x7777),
                    ];
                    self.run_history::<Constant>(ctx, rng, big, true, 0, 0, Some(ops.clone()), "directed");
                    self.run_history::<Expression>(ctx, rng, big, false, 0, 0, Some(ops), "directed");
                }
            }
            3..=5 => {
                let base = [0u64, 0x7fff_ffff_ffff_f000, 0xffff_ffff_ffff_e000][(case - 3) as usize];
                self.run_history::<Constant>(ctx, rng, case % 2 == 0, true, base, 60, None, "directed-rnd");
            }
            _ => {
                let big = rng.bool();
                let bk = rng.chance(2, 3);
                let base = match rng.below(8) {
                    0 => 0x7fff_ffff_ffff_f000,
                    1 => 0xffff_ffff_ffff_e000,
                    2 => 0x10000,
                    _ => 0,
                };
                let nmax = if rng.chance(1, 5) { 300 } else { 50 };
                let n = 10 + rng.usize(nmax);
                if rng.chance(1, 3) {
                    self.run_history::<Expression>(ctx, rng, big, bk, base, n.min(60), None, "rnd");
                } else {
                    self.run_history::<Constant>(ctx, rng, big, bk, base, n, None, "rnd");
                }
            }
        }
    }
}
