#![allow(dead_code)]
//! fvh — worker binary of the falcon verification harness.
//!
//!   fvh worker <PROP> --tier T --seed S --shard I --nshards N --secs X [--max-cases K] [--trace FILE]
//!   fvh replay <PROP> --tier T --seed S --case K
//!
//! A worker prints one JSON summary line on stdout. The orchestrator (`/verif/fv`)
//! merges summaries, applies known findings and writes evidence.

mod fw;
mod refeval;
mod c01;
mod c02;
mod x86native;
mod c03;
mod mipsref;
mod ppcref;
mod c04;
mod c05;
mod c06;
mod a64ref;
mod liftexec;
mod c07;
mod c08;
mod c09;
mod c10;
mod c11;
mod c12;
mod c13;
mod c14;
mod c15;
mod graphref;
mod c16;
mod c17;
mod c18;
mod c19;
mod c20;
mod elfgen;
mod ilgen;
mod locgraph;
mod refinterp;

use fw::*;
use std::time::{Duration, Instant};

fn make_check(prop: &str, tier: Tier) -> Option<Box<dyn Check>> {
    Some(match prop {
        "C01" => Box::new(c01::C01::new(tier)),
        "C02" => Box::new(c02::C02::new(tier)),
        "C03" => Box::new(c03::C03::new(tier)),
        "C04" => Box::new(c04::C04::new(tier)),
        "C05" => Box::new(c05::C05::new(tier)),
        "C06" => Box::new(c06::C06::new(tier)),
        "C07" => Box::new(c07::C07::new(tier)),
        "C08" => Box::new(c08::C08::new(tier)),
        "C09" => Box::new(c09::C09::new(tier)),
        "C10" => Box::new(c10::C10::new(tier)),
        "C11" => Box::new(c11::C11::new(tier)),
        "C17" => Box::new(c17::C17::new(tier)),
        "C20" => Box::new(c20::C20::new(tier)),
        "C19" => Box::new(c19::C19::new(tier)),
        "C18" => Box::new(c18::C18::new(tier)),
        "C12" => Box::new(c12::C12::new(tier)),
        "C13" => Box::new(c13::C13::new(tier)),
        "C14" => Box::new(c14::C14::new(tier)),
        "C15" => Box::new(c15::C15::new(tier)),
        "C16" => Box::new(c16::C16::new(tier)),
        _ => return None,
    })
}

fn arg_val(args: &[String], name: &str) -> Option<String> {
    args.iter()
        .position(|a| a == name)
        .and_then(|i| args.get(i + 1).cloned())
}

fn main() {
    let args: Vec<String> = std::env::args().collect();
    if args.len() < 3 {
        eprintln!("usage: fvh worker|replay <PROP> ...");
        std::process::exit(2);
    }
    let mode = args[1].as_str();
    if mode == "sweep" {
        // fvh sweep <aarch64|aarch64eb|mips|mipsel|ppc> --shard I --nshards N [--limit K]: lift every 32-bit word of
        // the shard's slice of the encoding space (word = shard + k*nshards) once; meant to run under a sanitizer
        // build, the sanitizers do the judging. Prints one JSON line with the number of words lifted.
        use falcon::translator::Options;
        let shard: u64 = arg_val(&args, "--shard").and_then(|s| s.parse().ok()).unwrap_or(0);
        let nshards: u64 = arg_val(&args, "--nshards").and_then(|s| s.parse().ok()).unwrap_or(1);
        let limit: u64 = arg_val(&args, "--limit").and_then(|s| s.parse().ok()).unwrap_or(u64::MAX);
        let t = c05::translator(&args[2]);
        let big = matches!(args[2].as_str(), "mips" | "ppc");
        let opts = Options::default();
        let first: u64 = arg_val(&args, "--start").and_then(|s| u64::from_str_radix(s.trim_start_matches("0x"), 16).ok()).unwrap_or(0);
        // --every M --phase R: only the words congruent to R modulo M (a 1/M sample of the space, exhaustive when M = 1)
        let every: u64 = arg_val(&args, "--every").and_then(|s| s.parse().ok()).unwrap_or(1).max(1);
        let phase: u64 = arg_val(&args, "--phase").and_then(|s| s.parse().ok()).unwrap_or(0) % every;
        let (mut n, mut ok, mut w) = (0u64, 0u64, (first / nshards) * nshards + shard);
        let progress = args.iter().any(|a| a == "--progress");
        let wf: u64 = arg_val(&args, "--wf").and_then(|s| s.parse().ok()).unwrap_or(0);
        let (mut wf_checked, mut panics) = (0u64, 0u64);
        let mut wf_problems: std::collections::BTreeMap<String, u64> = Default::default();
        let mut wf_examples: Vec<String> = Vec::new();
        install_panic_hook();
        let start = Instant::now();
        while w * every + phase <= u32::MAX as u64 && n < limit {
            let word = (w * every + phase) as u32;
            let b = if big { word.to_be_bytes() } else { word.to_le_bytes() };
            match fw::guard(|| t.translate_block(&b, 0x40_0000, &opts)) {
                Ok(Ok(btr)) => {
                    ok += 1;
                    // --wf N: every Nth accepted word also goes through the well-formedness and guard-determinism
                    // checker of C05 (sorts, widths, graph shape, exactly one enabled successor)
                    if wf > 0 && ok % wf == 0 {
                        let mut rng = Rng::for_case(word as u64, "sweep", 0);
                        let (problems, _) = c05::check_result_for(&mut rng, &btr, Some(args[2].as_str()));
                        wf_checked += 1;
                        for (kind, what) in problems {
                            *wf_problems.entry(kind.clone()).or_insert(0u64) += 1;
                            if wf_examples.len() < 8 {
                                wf_examples.push(format!("0x{:08x}: {}: {}", word, kind, what.chars().take(160).collect::<String>()));
                            }
                        }
                    }
                }
                Ok(Err(_)) => {}
                Err(p) => {
                    panics += 1;
                    if wf_examples.len() < 8 {
                        wf_examples.push(format!("0x{:08x}: panic at {}: {}", word, p.site(), p.msg.chars().take(120).collect::<String>()));
                    }
                }
            }
            n += 1;
            if progress && n % (1 << 20) == 0 {
                eprintln!("at 0x{:08x}", w * every + phase);
            }
            w += nshards;
        }
        println!("{}", serde_json::json!({"t": "sweep", "translator": args[2], "shard": shard, "words": n, "lifted": ok, "every": every, "phase": phase, "wf_checked": wf_checked, "wf_problems": wf_problems, "panics": panics, "examples": wf_examples, "wall_s": start.elapsed().as_secs_f64()}));
        return;
    }
    if mode == "lift" {
        // fvh lift <translator> <hex bytes> <hex address>: print the lifted IL
        use falcon::translator::Options;
        let bytes: Vec<u8> = (0..args[3].len() / 2).map(|i| u8::from_str_radix(&args[3][2 * i..2 * i + 2], 16).unwrap()).collect();
        let addr = u64::from_str_radix(args.get(4).map(|s| s.trim_start_matches("0x")).unwrap_or("1000"), 16).unwrap();
        let t = c05::translator(&args[2]);
        match t.translate_block(&bytes, addr, &Options::default()) {
            Ok(b) => {
                for (a, g) in b.instructions() {
                    println!("--- {:x}\n{}", a, g);
                }
                println!("successors: {:?}", b.successors().iter().map(|(a, c)| format!("{:x} if {:?}", a, c.as_ref().map(|c| format!("{}", c)))).collect::<Vec<_>>());
            }
            Err(e) => println!("error {:?}", e),
        }
        return;
    }
    if mode == "disasm" {
        // fvh disasm ppc|mips|mipsel|x86|amd64 <hex bytes>
        use falcon_capstone::capstone as cs;
        let bytes: Vec<u8> = (0..args[3].len() / 2).map(|i| u8::from_str_radix(&args[3][2 * i..2 * i + 2], 16).unwrap()).collect();
        let (arch, md) = match args[2].as_str() {
            "ppc" => (cs::cs_arch::CS_ARCH_PPC, cs::CS_MODE_32 | cs::CS_MODE_BIG_ENDIAN),
            "mips" => (cs::cs_arch::CS_ARCH_MIPS, cs::CS_MODE_32 | cs::CS_MODE_BIG_ENDIAN),
            "mipsel" => (cs::cs_arch::CS_ARCH_MIPS, cs::CS_MODE_32 | cs::CS_MODE_LITTLE_ENDIAN),
            "x86" => (cs::cs_arch::CS_ARCH_X86, cs::CS_MODE_32),
            _ => (cs::cs_arch::CS_ARCH_X86, cs::CS_MODE_64),
        };
        let c = cs::Capstone::new(arch, md).unwrap();
        match c.disasm(&bytes, 0x1000, 0) {
            Ok(insns) => {
                for i in insns.iter() {
                    println!("{:x}: {} {}  (id {:?}, {} bytes)", i.address, i.mnemonic, i.op_str, i.id, i.size);
                }
            }
            Err(e) => println!("error {:?}", e),
        }
        return;
    }
    let prop = args[2].clone();
    let tier = match arg_val(&args, "--tier").as_deref() {
        Some("thorough") => Tier::Thorough,
        _ => Tier::Quick,
    };
    let seed: u64 = arg_val(&args, "--seed").and_then(|s| s.parse().ok()).unwrap_or(1);
    install_panic_hook();
    let mut check = match make_check(&prop, tier) {
        Some(c) => c,
        None => {
            eprintln!("unknown property {}", prop);
            std::process::exit(2);
        }
    };
    match mode {
        "worker" => {
            let shard: u64 = arg_val(&args, "--shard").and_then(|s| s.parse().ok()).unwrap_or(0);
            let nshards: u64 = arg_val(&args, "--nshards").and_then(|s| s.parse().ok()).unwrap_or(1);
            let secs: f64 = arg_val(&args, "--secs").and_then(|s| s.parse().ok()).unwrap_or(10.0);
            let max_cases: u64 = arg_val(&args, "--max-cases").and_then(|s| s.parse().ok()).unwrap_or(u64::MAX);
            let trace = arg_val(&args, "--trace");
            let mut ctx = Ctx::new(&prop, tier, seed, trace);
            let start = Instant::now();
            let budget = Duration::from_secs_f64(secs);
            // the budget is wall time on an idle machine; on a loaded one the worker keeps going until it has
            // also had `cpu_frac` of the budget as CPU time (capped at 6x the budget in wall time), so that
            // what a tier covers does not depend on what else the machine is doing
            let cpu_frac: f64 = arg_val(&args, "--cpu-frac").and_then(|s| s.parse().ok()).unwrap_or(0.85);
            let cpu_need = secs * cpu_frac;
            let wall_cap = Duration::from_secs_f64(secs * 6.0);
            let directed = check.directed();
            let mut case = shard;
            let mut ran = 0u64;
            while ran < max_cases {
                // directed cases always run to completion; random ones until the budget is used
                if case >= directed && check.finite() {
                    break;
                }
                if case >= directed && start.elapsed() >= budget && (process_cpu_secs() >= cpu_need || start.elapsed() >= wall_cap) {
                    break;
                }
                ctx.case = case;
                let mut rng = Rng::for_case(seed, &prop, case);
                let r = guard(|| check.run(&mut ctx, &mut rng, case));
                if let Err(p) = r {
                    if p.in_target() {
                        ctx.panic_violation("uncaught", &p, serde_json::json!({"case": case}));
                    } else {
                        ctx.harness_errors.push(format!("case {}: harness panic at {}: {}", case, p.site(), p.msg));
                        if ctx.harness_errors.len() > 20 {
                            break;
                        }
                    }
                }
                ran += 1;
                case += nshards;
            }
            let _ = guard(|| check.finish(&mut ctx));
            let mut s = ctx.summary();
            s["cases"] = serde_json::json!(ran);
            s["shard"] = serde_json::json!(shard);
            s["wall_s"] = serde_json::json!(start.elapsed().as_secs_f64());
            s["cpu_s"] = serde_json::json!(process_cpu_secs());
            println!("{}", s);
        }
        "replay" => {
            let case: u64 = arg_val(&args, "--case").and_then(|s| s.parse().ok()).unwrap_or(0);
            let mut ctx = Ctx::new(&prop, tier, seed, None);
            ctx.verbose = true;
            ctx.case = case;
            ctx.max_samples = 100;
            let mut rng = Rng::for_case(seed, &prop, case);
            let r = guard(|| check.run(&mut ctx, &mut rng, case));
            if let Err(p) = r {
                if p.in_target() {
                    ctx.panic_violation("uncaught", &p, serde_json::json!({"case": case}));
                } else {
                    eprintln!("harness panic at {}: {}", p.site(), p.msg);
                    std::process::exit(2);
                }
            }
            println!("{}", ctx.summary());
            if ctx.n_violations() > 0 {
                std::process::exit(1);
            }
        }
        _ => {
            eprintln!("unknown mode {}", mode);
            std::process::exit(2);
        }
    }
}

/// CPU time consumed by this process so far
fn process_cpu_secs() -> f64 {
    let mut ts = libc::timespec { tv_sec: 0, tv_nsec: 0 };
    // safe to call: writes one timespec
    let r = unsafe { libc::clock_gettime(libc::CLOCK_PROCESS_CPUTIME_ID, &mut ts) };
    if r != 0 {
        return f64::MAX;
    }
    ts.tv_sec as f64 + ts.tv_nsec as f64 * 1e-9
}
