//! Random IL function generator. Shapes are biased towards what analyses get
//! wrong: diamonds, loops (also through the entry), self-loops, irreducible
//! regions, empty blocks, multiple exits, unreachable blocks, scalars read only by
//! an edge guard, instructions reading several scalars or the one they write.
//! Guards are generated as partitions, so exactly one out-edge is enabled.

use crate::fw::Rng;
use falcon::il::{self, Constant, ControlFlowGraph, Expression, Function, Intrinsic, Scalar};

#[derive(Clone, Debug)]
pub struct GenOpts {
    pub max_blocks: usize,
    pub max_instrs: usize,
    pub widths: Vec<usize>,
    pub n_scalars: usize,
    pub all_reachable: bool,
    pub def_before_use: bool,
    pub intrinsics: bool,
    pub indirect_branches: bool,
    pub memory: bool,
    pub empty_blocks: bool,
    pub divisions: bool,
    pub unique_addresses: bool,
    pub entry_no_preds: bool,
    pub sp: Option<Scalar>,
    /// negative mode: guards that are not a partition
    pub broken_guards: bool,
    pub expr_depth: usize,
    pub addr_base: u64,
    /// one function in three gets blocks whose instruction indices are not dense
    pub sparse_indices: bool,
    /// one function in three numbers its blocks in a random order (the entry is then not block 0 and blocks
    /// unreachable from it can have lower indices than reachable ones)
    pub permute_blocks: bool,
    /// the entry block may be empty (one function in ten)
    pub empty_entry: bool,
    /// one function in five stores the instructions of some blocks in an order that is not the order of their
    /// indices (Block::instructions_mut is public; positions, not indices, define the order of execution)
    pub unordered_indices: bool,
    /// calls: a Branch to a constant address in the middle of a block, behind which the block goes on (the callee
    /// returns to the next instruction having changed whatever it liked)
    pub calls: bool,
    /// placeholder nops (Nop { placeholder: Some(op) }) wrapping assignments and loads: they execute as nops
    pub placeholders: bool,
    /// guards wider than one bit (only with broken_guards): an edge is taken when its guard evaluates to one
    pub wide_guards: bool,
}

impl Default for GenOpts {
    fn default() -> GenOpts {
        GenOpts {
            max_blocks: 8,
            max_instrs: 5,
            widths: vec![1, 8, 16, 32, 32, 64, 128],
            n_scalars: 7,
            all_reachable: true,
            def_before_use: false,
            intrinsics: false,
            indirect_branches: false,
            memory: true,
            empty_blocks: true,
            divisions: false,
            unique_addresses: true,
            entry_no_preds: false,
            sp: None,
            broken_guards: false,
            expr_depth: 2,
            addr_base: 0x1000,
            sparse_indices: true,
            permute_blocks: true,
            empty_entry: true,
            unordered_indices: true,
            calls: false,
            placeholders: true,
            wide_guards: false,
        }
    }
}

/// the data window straddles a 1024-byte page boundary of the paged memory (0x8000)
pub const MEM_BASE: u64 = 0x7fe0;
pub const MEM_LEN: u64 = 64;

#[derive(Clone, Debug)]
pub struct Gen {
    pub f: Function,
    pub pool: Vec<Scalar>,
    /// first instruction address used
    pub addr_base: u64,
}

fn cst(v: u64, w: usize) -> Expression {
    Expression::Constant(Constant::new(v, w))
}

pub fn gen_expr(rng: &mut Rng, w: usize, depth: usize, pool: &[Scalar], divisions: bool) -> Expression {
    if depth == 0 || rng.chance(1, 4) {
        let cands: Vec<&Scalar> = pool.iter().filter(|s| s.bits() == w).collect();
        if !cands.is_empty() && rng.chance(2, 3) {
            return Expression::Scalar(cands[rng.usize(cands.len())].clone());
        }
        // a scalar of another width, adapted
        if !pool.is_empty() && rng.chance(1, 2) {
            let s = pool[rng.usize(pool.len())].clone();
            let sw = s.bits();
            let e = Expression::Scalar(s);
            return if sw < w {
                if rng.bool() { Expression::Zext(w, Box::new(e)) } else { Expression::Sext(w, Box::new(e)) }
            } else if sw > w {
                Expression::Trun(w, Box::new(e))
            } else {
                e
            };
        }
        return Expression::Constant(Constant::new_big(rng.corner_big(w), w));
    }
    let b = |e: Expression| Box::new(e);
    match rng.below(12) {
        0..=7 => {
            if w == 1 && rng.chance(2, 3) {
                let ow = if pool.is_empty() { 8 } else { pool[rng.usize(pool.len())].bits() };
                let l = gen_expr(rng, ow, depth - 1, pool, divisions);
                let r = gen_expr(rng, ow, depth - 1, pool, divisions);
                return match rng.below(4) {
                    0 => Expression::Cmpeq(b(l), b(r)),
                    1 => Expression::Cmpneq(b(l), b(r)),
                    2 => Expression::Cmplts(b(l), b(r)),
                    _ => Expression::Cmpltu(b(l), b(r)),
                };
            }
            let l = gen_expr(rng, w, depth - 1, pool, divisions);
            let r = gen_expr(rng, w, depth - 1, pool, divisions);
            let k = if divisions { rng.below(13) } else { rng.below(9) };
            match k {
                0 => Expression::Add(b(l), b(r)),
                1 => Expression::Sub(b(l), b(r)),
                2 => Expression::Mul(b(l), b(r)),
                3 => Expression::And(b(l), b(r)),
                4 => Expression::Or(b(l), b(r)),
                5 => Expression::Xor(b(l), b(r)),
                6 => Expression::Shl(b(l), b(r)),
                7 => Expression::Shr(b(l), b(r)),
                8 => Expression::AShr(b(l), b(r)),
                9 => Expression::Divu(b(l), b(r)),
                10 => Expression::Modu(b(l), b(r)),
                11 => Expression::Divs(b(l), b(r)),
                _ => Expression::Mods(b(l), b(r)),
            }
        }
        8 => {
            if w == 1 {
                return gen_expr(rng, w, 0, pool, divisions);
            }
            let sw = 1 + rng.usize(w - 1);
            let x = gen_expr(rng, sw, depth - 1, pool, divisions);
            if rng.bool() { Expression::Zext(w, b(x)) } else { Expression::Sext(w, b(x)) }
        }
        9 => {
            let sw = w + 1 + rng.usize(40);
            let x = gen_expr(rng, sw, depth - 1, pool, divisions);
            Expression::Trun(w, b(x))
        }
        _ => {
            let c = gen_expr(rng, 1, depth - 1, pool, divisions);
            let t = gen_expr(rng, w, depth - 1, pool, divisions);
            let e = gen_expr(rng, w, depth - 1, pool, divisions);
            Expression::Ite(b(c), b(t), b(e))
        }
    }
}

/// 64-bit address inside the mapped window [MEM_BASE, MEM_BASE+MEM_LEN), leaving room for `bytes`
pub fn gen_addr(rng: &mut Rng, pool: &[Scalar], bytes: u64) -> Expression {
    let room = MEM_LEN - bytes;
    if pool.is_empty() || rng.chance(1, 3) {
        return cst(MEM_BASE + rng.below(room + 1), 64);
    }
    // base + (scalar & 15)
    let s = pool[rng.usize(pool.len())].clone();
    let sw = s.bits();
    let e = Expression::Scalar(s);
    let idx64 = if sw < 64 {
        Expression::Zext(64, Box::new(e))
    } else if sw > 64 {
        Expression::Trun(64, Box::new(e))
    } else {
        e
    };
    let masked = Expression::And(Box::new(idx64), Box::new(cst(15.min(room), 64)));
    Expression::Add(Box::new(cst(MEM_BASE + rng.below(room.saturating_sub(15) + 1), 64)), Box::new(masked))
}

pub fn not1(c: &Expression) -> Expression {
    Expression::Cmpeq(Box::new(c.clone()), Box::new(cst(0, 1)))
}

fn gen_cond(rng: &mut Rng, pool: &[Scalar]) -> Expression {
    let ones: Vec<&Scalar> = pool.iter().filter(|s| s.bits() == 1).collect();
    if !ones.is_empty() && rng.chance(1, 3) {
        return Expression::Scalar(ones[rng.usize(ones.len())].clone());
    }
    let s = pool[rng.usize(pool.len())].clone();
    let w = s.bits();
    let k = Expression::Constant(Constant::new_big(rng.corner_big(w), w));
    let e = Expression::Scalar(s);
    match rng.below(4) {
        0 => Expression::Cmpeq(Box::new(e), Box::new(k)),
        1 => Expression::Cmpltu(Box::new(e), Box::new(k)),
        2 => Expression::Cmplts(Box::new(e), Box::new(k)),
        _ => {
            // relation between two scalars of the same width if possible
            let others: Vec<&Scalar> = pool.iter().filter(|o| o.bits() == w).collect();
            let o = others[rng.usize(others.len())].clone();
            Expression::Cmpltu(Box::new(e), Box::new(Expression::Scalar(o)))
        }
    }
}

pub fn generate(rng: &mut Rng, o: &GenOpts) -> Gen {
    // ---- scalar pool
    let mut pool: Vec<Scalar> = Vec::new();
    for i in 0..o.n_scalars {
        let w = o.widths[if i < o.widths.len() { i } else { rng.usize(o.widths.len()) }];
        pool.push(il::scalar(format!("s{}", i), w));
    }
    if let Some(sp) = &o.sp {
        pool.push(sp.clone());
    }
    // ---- blocks and tree backbone
    let n = 1 + rng.usize(o.max_blocks);
    let extra_unreachable = if o.all_reachable { 0 } else { rng.usize(3) };
    let total = n + extra_unreachable;
    let mut outs: Vec<Vec<usize>> = vec![Vec::new(); total];
    for i in 1..n {
        // parent among earlier blocks with < 3 children
        let cands: Vec<usize> = (0..i).filter(|j| outs[*j].len() < 3).collect();
        let p = if rng.chance(1, 2) { *cands.last().unwrap() } else { cands[rng.usize(cands.len())] };
        outs[p].push(i);
    }
    // extra edges: back edges, self loops, cross edges
    let extras = rng.usize(n + 1);
    for _ in 0..extras {
        let h = rng.usize(n);
        let t = rng.usize(n);
        if o.entry_no_preds && t == 0 {
            continue;
        }
        if outs[h].len() < 3 && !outs[h].contains(&t) {
            outs[h].push(t);
        }
    }
    // unreachable blocks point into the graph
    for u in n..total {
        let k = rng.usize(3);
        for _ in 0..k {
            let t = rng.usize(total);
            if o.entry_no_preds && t == 0 {
                continue;
            }
            if t != u && !outs[u].contains(&t) && outs[u].len() < 3 {
                outs[u].push(t);
            }
        }
    }
    let mut cfg = ControlFlowGraph::new();
    for _ in 0..total {
        cfg.new_block().unwrap();
    }
    // logical block number (0 = entry, n.. = unreachable ones) -> index of the block in the graph
    let mut perm: Vec<usize> = (0..total).collect();
    if o.permute_blocks && rng.chance(1, 3) {
        for i in (1..total).rev() {
            let j = rng.usize(i + 1);
            perm.swap(i, j);
        }
    }
    // ---- instructions
    let sparse = o.sparse_indices && rng.chance(1, 3);
    let unordered = o.unordered_indices && rng.chance(1, 5);
    let mut next_addr: u64 = o.addr_base;
    let addr_base = next_addr;
    let mut branch_targets_needed: Vec<(usize, usize)> = Vec::new(); // (block, instr index) of Branch ops to patch
    for bi in 0..total {
        let empty = o.empty_blocks && ((bi != 0 && rng.chance(1, 6)) || (bi == 0 && o.empty_entry && !o.def_before_use && rng.chance(1, 10)));
        let mut ninstr = if empty { 0 } else { 1 + rng.usize(o.max_instrs) };
        let block = cfg.block_mut(perm[bi]).unwrap();
        if bi == 0 && o.def_before_use {
            // define every scalar first
            for i in 0..pool.len() {
                let s = pool[i].clone();
                if Some(&s) == o.sp.as_ref() {
                    continue; // the stack pointer is an input of the function
                }
                let w = s.bits();
                if o.memory && w % 8 == 0 && rng.chance(1, 4) {
                    let a = gen_addr(rng, &pool[..i], (w / 8) as u64);
                    block.load(s, a);
                } else {
                    let e = if rng.chance(1, 2) {
                        Expression::Constant(Constant::new_big(rng.corner_big(w), w))
                    } else {
                        gen_expr(rng, w, 1, &pool[..i], false)
                    };
                    block.assign(s, e);
                }
            }
        }
        let mut sacrificial: Vec<usize> = Vec::new();
        while ninstr > 0 {
            ninstr -= 1;
            if sparse && rng.chance(1, 4) {
                // a throw-away instruction, removed again below: the remaining instruction indices
                // are then not dense (index != position), as after Block::remove_instruction
                block.nop();
                sacrificial.push(block.instructions().last().unwrap().index());
            }
            let k = rng.below(20);
            // stack pointer arithmetic
            if let Some(sp) = &o.sp {
                if rng.chance(1, 3) {
                    let w = sp.bits();
                    let spe = Expression::Scalar(sp.clone());
                    match rng.below(13) {
                        0..=3 => block.assign(sp.clone(), Expression::Sub(Box::new(spe), Box::new(cst(rng.below(9) * 4, w)))),
                        4..=6 => block.assign(sp.clone(), Expression::Add(Box::new(spe), Box::new(cst(rng.below(9) * 4, w)))),
                        7 => block.assign(sp.clone(), Expression::Add(Box::new(cst(rng.u64() | 0x8000_0000_0000_0000, w)), Box::new(spe))),
                        8 => {
                            // sp = other register
                            let others: Vec<&Scalar> = pool.iter().filter(|s| s.bits() == w && *s != sp).collect();
                            if let Some(s) = others.first() {
                                block.assign(sp.clone(), Expression::Scalar((*s).clone()));
                            } else {
                                block.nop();
                            }
                        }
                        9 => {
                            if w % 8 == 0 {
                                block.load(sp.clone(), gen_addr(rng, &[], (w / 8) as u64));
                            } else {
                                block.nop();
                            }
                        }
                        10 => {
                            // save sp elsewhere
                            let others: Vec<&Scalar> = pool.iter().filter(|s| s.bits() == w && *s != sp).collect();
                            if let Some(s) = others.first() {
                                block.assign((*s).clone(), spe);
                            } else {
                                block.nop();
                            }
                        }
                        11 => {
                            // non-affine updates: alignment (and sp, -16), constants, negation, scaling; nested affine
                            match rng.below(10) {
                                // a displacement chosen by a register: sp - ite(c, 8, 16) (constant arms, non-constant condition),
                                // and one chosen by a constant condition (which is an ordinary constant displacement)
                                6 => {
                                    let conds: Vec<&Scalar> = pool.iter().filter(|s| s.bits() == 1).collect();
                                    let c = match conds.first() {
                                        Some(s) => Expression::Scalar((*s).clone()),
                                        None => cst(1, 1),
                                    };
                                    let d = Expression::Ite(Box::new(c), Box::new(cst(8, w)), Box::new(cst(16, w)));
                                    block.assign(sp.clone(), Expression::Sub(Box::new(spe), Box::new(d)))
                                }
                                8 | 9 if w >= 16 => {
                                    // a write of the low half only, as "lea esp,[rsp-8]" / "add wsp,wsp,#16" are lifted:
                                    // sp = zext.w(trun.w/2(sp - k)) clears the upper half
                                    let inner = Expression::Sub(Box::new(spe), Box::new(cst(rng.below(9) * 4, w)));
                                    let half = Expression::Trun(w / 2, Box::new(inner));
                                    let e = if rng.bool() { Expression::Zext(w, Box::new(half)) } else { Expression::Sext(w, Box::new(half)) };
                                    block.assign(sp.clone(), e)
                                }
                                7 => {
                                    let d = Expression::Ite(Box::new(cst(rng.below(2), 1)), Box::new(cst(8, w)), Box::new(cst(16, w)));
                                    block.assign(sp.clone(), Expression::Add(Box::new(spe), Box::new(d)))
                                }
                                0 | 1 => block.assign(sp.clone(), Expression::And(Box::new(spe), Box::new(cst(!0xfu64, w)))),
                                2 => block.assign(sp.clone(), cst(0x7000 + rng.below(16) * 8, w)),
                                3 => block.assign(sp.clone(), Expression::Sub(Box::new(cst(rng.below(64) * 8, w)), Box::new(spe))),
                                4 => block.assign(sp.clone(), Expression::Sub(Box::new(Expression::Add(Box::new(spe.clone()), Box::new(cst(rng.below(9) * 4, w)))), Box::new(cst(rng.below(9) * 4, w)))),
                                _ => block.assign(sp.clone(), Expression::Add(Box::new(spe.clone()), Box::new(spe))),
                            }
                        }
                        _ => {
                            // push-like: store through sp-relative address is not modelled in the tiny memory; keep sp - k
                            block.assign(sp.clone(), Expression::Sub(Box::new(spe), Box::new(cst(w as u64 / 8, w))));
                        }
                    }
                    continue;
                }
            }
            let non_sp: Vec<Scalar> = pool.iter().filter(|s| Some(*s) != o.sp.as_ref()).cloned().collect();
            let dst = non_sp[rng.usize(non_sp.len())].clone();
            let w = dst.bits();
            match k {
                0..=9 => {
                    // assignment; sometimes reads the scalar it writes, or two scalars
                    let e = match rng.below(5) {
                        0 => Expression::Add(Box::new(Expression::Scalar(dst.clone())), Box::new(cst(1, w))),
                        1 => {
                            let same: Vec<&Scalar> = pool.iter().filter(|s| s.bits() == w).collect();
                            let a = same[rng.usize(same.len())].clone();
                            let b2 = same[rng.usize(same.len())].clone();
                            Expression::Add(Box::new(Expression::Scalar(a)), Box::new(Expression::Scalar(b2)))
                        }
                        2 => Expression::Constant(Constant::new_big(rng.corner_big(w), w)),
                        _ => gen_expr(rng, w, o.expr_depth, &pool, o.divisions),
                    };
                    block.assign(dst, e);
                }
                10 | 11 if o.memory => {
                    if w % 8 == 0 {
                        let a = gen_addr(rng, &pool, (w / 8) as u64);
                        block.load(dst, a);
                    } else {
                        block.nop();
                    }
                }
                12 | 13 if o.memory => {
                    let ws: Vec<&Scalar> = pool.iter().filter(|s| s.bits() % 8 == 0).collect();
                    if ws.is_empty() {
                        block.nop();
                    } else {
                        let sw = ws[rng.usize(ws.len())].bits();
                        let v = gen_expr(rng, sw, 1, &pool, false);
                        let a = gen_addr(rng, &pool, (sw / 8) as u64);
                        block.store(a, v);
                    }
                }
                14 if o.intrinsics => {
                    let declared = rng.chance(2, 3);
                    let written = if declared {
                        // one declared intrinsic in four writes nothing (an empty list, as lifters emit for traps and syscalls)
                        let k = if rng.chance(1, 4) { 0 } else { 1 + rng.usize(2) };
                        Some((0..k).map(|_| Expression::Scalar(non_sp[rng.usize(non_sp.len())].clone())).collect::<Vec<_>>())
                    } else {
                        None
                    };
                    let read = if declared || rng.bool() {
                        Some((0..rng.usize(3)).map(|_| Expression::Scalar(pool[rng.usize(pool.len())].clone())).collect::<Vec<_>>())
                    } else {
                        None
                    };
                    block.intrinsic(Intrinsic::new("intr", "intr op", Vec::new(), written, read, vec![0x0f, 0x0b, 0, 0]));
                }
                15 if o.indirect_branches && ninstr == 0 && outs[bi].is_empty() => {
                    // indirect branch as last instruction; target patched below
                    block.branch(cst(0, 64));
                    let idx = block.instructions().last().unwrap().index();
                    branch_targets_needed.push((bi, idx));
                }
                16 if o.placeholders && rng.chance(1, 3) => {
                    // executes as a nop; what it wraps must not count as a definition or a use
                    let e = gen_expr(rng, w, 1, &pool, false);
                    block.placeholder(il::Operation::assign(dst, e));
                }
                16 if o.calls && ninstr > 0 && rng.bool() => block.branch(cst(0xc0de_0000 + 16 * rng.below(4), 64)),
                16 => block.nop(),
                _ => {
                    let e = gen_expr(rng, w, o.expr_depth, &pool, o.divisions);
                    block.assign(dst, e);
                }
            }
        }
        for idx in sacrificial {
            block.remove_instruction(idx).unwrap();
        }
        if unordered && !(bi == 0 && o.def_before_use) && block.instructions().len() >= 2 && rng.bool() {
            // keep an indirect branch last; rotate the rest so that index order and position order differ
            let n = block.instructions().len();
            let m = if matches!(block.instructions()[n - 1].operation(), il::Operation::Branch { .. }) { n - 1 } else { n };
            if m >= 2 {
                let k = 1 + rng.usize(m - 1);
                block.instructions_mut()[..m].rotate_left(k);
            }
        }
        // addresses
        let idxs: Vec<usize> = block.instructions().iter().map(|i| i.index()).collect();
        for idx in idxs {
            let a = if o.unique_addresses {
                let a = next_addr;
                next_addr += 4;
                Some(a)
            } else {
                match rng.below(6) {
                    0 => None,
                    1 => Some(addr_base + 4 * rng.below(6)), // duplicates
                    _ => {
                        let a = next_addr;
                        next_addr += 4;
                        Some(a)
                    }
                }
            };
            block.instruction_mut(idx).unwrap().set_address(a);
        }
    }
    // patch indirect branch targets: the address of the first instruction of some non-empty block
    let firsts: Vec<u64> = (0..total).filter_map(|b| cfg.block(b).unwrap().instructions().first().and_then(|i| i.address())).collect();
    for (bi, idx) in branch_targets_needed {
        let t = if firsts.is_empty() { 0 } else { firsts[rng.usize(firsts.len())] };
        // computed target: (t - k) + k with a scalar-free expression, or plain constant
        let s64: Vec<&Scalar> = pool.iter().filter(|s| s.bits() == 64).collect();
        let e = match rng.below(3) {
            0 => cst(t, 64),
            1 if !s64.is_empty() => {
                // a target that reads a scalar: (s & 0) + t keeps the value, other forms go wherever the scalar says
                let s = Expression::Scalar((*s64[rng.usize(s64.len())]).clone());
                if rng.bool() {
                    Expression::Add(Box::new(Expression::And(Box::new(s), Box::new(cst(0, 64)))), Box::new(cst(t, 64)))
                } else {
                    Expression::Add(Box::new(s), Box::new(cst(t, 64)))
                }
            }
            _ => Expression::Add(Box::new(cst(t.wrapping_sub(8), 64)), Box::new(cst(8, 64))),
        };
        *cfg.block_mut(perm[bi]).unwrap().instruction_mut(idx).unwrap().operation_mut() = il::Operation::branch(e);
        // a block ending in an indirect branch has no out-edges
        outs[bi].clear();
    }
    // ---- edges with partition guards
    for h in 0..total {
        let ts = outs[h].clone();
        match ts.len() {
            0 => {}
            1 => {
                if o.broken_guards && rng.chance(1, 3) {
                    let c = gen_cond(rng, &pool);
                    cfg.conditional_edge(perm[h], perm[ts[0]], c).unwrap();
                } else {
                    cfg.unconditional_edge(perm[h], perm[ts[0]]).unwrap();
                }
            }
            2 if o.broken_guards && o.wide_guards && rng.chance(1, 3) => {
                // guards of 2 or 8 bits whose values range over 0..3: only the value one enables an edge
                let ss: Vec<&Scalar> = pool.iter().filter(|s| s.bits() >= 8 && s.bits() <= 64).collect();
                let x = Expression::Scalar(ss[rng.usize(ss.len())].clone());
                let w = match &x { Expression::Scalar(s) => s.bits(), _ => 8 };
                let field = |sh: u64| Expression::And(Box::new(Expression::Shr(Box::new(x.clone()), Box::new(cst(sh, w)))), Box::new(cst(3, w)));
                cfg.conditional_edge(perm[h], perm[ts[0]], field(0)).unwrap();
                cfg.conditional_edge(perm[h], perm[ts[1]], field(rng.below(3))).unwrap();
            }
            2 => {
                let c = gen_cond(rng, &pool);
                let nc = if o.broken_guards && rng.chance(1, 3) { gen_cond(rng, &pool) } else { not1(&c) };
                cfg.conditional_edge(perm[h], perm[ts[0]], c).unwrap();
                cfg.conditional_edge(perm[h], perm[ts[1]], nc).unwrap();
            }
            _ => {
                let wide: Vec<&Scalar> = pool.iter().filter(|s| s.bits() >= 2).collect();
                let s = if wide.is_empty() { pool[rng.usize(pool.len())].clone() } else { wide[rng.usize(wide.len())].clone() };
                let w = s.bits();
                if w == 1 {
                    // 1-bit scalar: use a 2-way split and drop the third edge
                    let c = Expression::Scalar(s);
                    cfg.conditional_edge(perm[h], perm[ts[0]], c.clone()).unwrap();
                    cfg.conditional_edge(perm[h], perm[ts[1]], not1(&c)).unwrap();
                } else if rng.chance(1, 3) {
                    // a / !a & b / !a & !b: a partition whose guards read different sets of scalars
                    let a = gen_cond(rng, &pool);
                    let b = gen_cond(rng, &pool);
                    let na = not1(&a);
                    let nb = not1(&b);
                    cfg.conditional_edge(perm[h], perm[ts[0]], a).unwrap();
                    cfg.conditional_edge(perm[h], perm[ts[1]], Expression::And(Box::new(na.clone()), Box::new(b))).unwrap();
                    cfg.conditional_edge(perm[h], perm[ts[2]], Expression::And(Box::new(na), Box::new(nb))).unwrap();
                } else {
                    let k = Expression::Constant(Constant::new_big(rng.corner_big(w), w));
                    let x = Expression::Scalar(s);
                    cfg.conditional_edge(perm[h], perm[ts[0]], Expression::Cmpltu(Box::new(x.clone()), Box::new(k.clone()))).unwrap();
                    cfg.conditional_edge(perm[h], perm[ts[1]], Expression::Cmpeq(Box::new(x.clone()), Box::new(k.clone()))).unwrap();
                    cfg.conditional_edge(perm[h], perm[ts[2]], Expression::Cmpltu(Box::new(k), Box::new(x))).unwrap();
                }
            }
        }
    }
    cfg.set_entry(perm[0]).unwrap();
    // exit: a reachable block without successors if any, else the last block
    let exits: Vec<usize> = (0..n).filter(|b| cfg.successor_indices(perm[*b]).unwrap().is_empty()).collect();
    let exit = if exits.is_empty() { n - 1 } else { exits[rng.usize(exits.len())] };
    cfg.set_exit(perm[exit]).unwrap();
    Gen { f: Function::new(addr_base, cfg), pool, addr_base }
}

pub fn describe(f: &Function) -> serde_json::Value {
    let blocks: Vec<serde_json::Value> = f
        .blocks()
        .iter()
        .map(|b| {
            serde_json::json!({
                "block": b.index(),
                "phi": b.phi_nodes().iter().map(|p| format!("{}", p)).collect::<Vec<_>>(),
                "instructions": b.instructions().iter().map(|i| format!("{}", i)).collect::<Vec<_>>(),
            })
        })
        .collect();
    let edges: Vec<String> = f.edges().iter().map(|e| format!("{}", e)).collect();
    serde_json::json!({"entry": f.control_flow_graph().entry(), "exit": f.control_flow_graph().exit(), "blocks": blocks, "edges": edges})
}
