//! C07 — The concrete executor implements the IL operational semantics exactly.
//!
//! Oracle: `refinterp` run in lock-step with `executor::Driver`; after every step
//! the location, every scalar and the memory window are compared, or the error kind.

use crate::fw::*;
use crate::ilgen::{self, GenOpts, MEM_BASE, MEM_LEN};
use crate::locgraph::loc_str;
use crate::refeval::Bv;
use crate::refinterp::{address_map, Fault, IntrinsicMode, Machine, StepOut};
use falcon::architecture::{Amd64, Architecture, Endian};
use falcon::executor::{Driver, Memory, State};
use falcon::il::{self, Expression, FunctionLocation as Loc, Operation, Program, ProgramLocation, RefProgramLocation};
use falcon::memory::MemoryPermissions;
use falcon::{Error, RC};
use serde_json::{json, Value};
use std::collections::BTreeMap;

pub struct C07 {}

impl C07 {
    pub fn new(_t: Tier) -> C07 {
        C07 {}
    }
}

fn err_kind(e: &Error) -> String {
    match e {
        Error::ExecutorScalar(_) => "undefined_scalar".into(),
        Error::ExecutorInvalidAddress => "unmapped".into(),
        Error::DivideByZero => "div_zero".into(),
        Error::Sort => "sort".into(),
        Error::UnhandledIntrinsic(_) => "intrinsic".into(),
        Error::ExecutorNoValidLocation => "no_valid_location".into(),
        Error::TooManyAddressBits => "address_too_wide".into(),
        Error::ExecutorLiftFail(..) => "lift_fail".into(),
        Error::Custom(s) => format!("custom:{}", s.chars().take(40).collect::<String>()),
        e => format!("other:{}", format!("{:?}", e).chars().take(40).collect::<String>()),
    }
}

const CODE_ADDR: u64 = 0x40_0000;

struct Scenario {
    program: Program,
    pools: Vec<Vec<il::Scalar>>,
    big: bool,
    init: BTreeMap<String, Bv>,
    mem: BTreeMap<u64, u8>,
    code: bool,
    backing: bool,
    backing_other_endian: bool,
}

impl C07 {
    fn gen(&self, rng: &mut Rng, broken_guards: bool) -> Scenario {
        let nf = 1 + rng.usize(3);
        let mut program = Program::new();
        let mut pools = Vec::new();
        let wide = rng.chance(1, 3);
        for k in 0..nf {
            let o = GenOpts {
                max_blocks: 6,
                max_instrs: 4,
                widths: if wide { vec![1, 8, 24, 64, 128, 32, 16] } else { vec![1, 8, 16, 32, 32, 64, 128] },
                all_reachable: true,
                intrinsics: rng.chance(1, 3),
                indirect_branches: true,
                divisions: rng.chance(1, 3),
                broken_guards,
                wide_guards: broken_guards,
                addr_base: 0x1000 * (k as u64 + 1),
                ..GenOpts::default()
            };
            let g = ilgen::generate(rng, &o);
            pools.push(g.pool.clone());
            program.add_function(g.f);
        }
        // all instruction addresses of the program
        let mut firsts: Vec<u64> = Vec::new();
        for f in program.functions() {
            for b in f.blocks() {
                if let Some(a) = b.instructions().first().and_then(|i| i.address()) {
                    firsts.push(a);
                }
            }
        }
        // retarget some indirect branches: other functions, machine code, nowhere, or computed from a scalar
        let code = rng.chance(1, 4);
        let mut patched = Program::new();
        for f in program.functions() {
            let mut f2 = f.clone();
            f2.set_index(None);
            for b in f2.blocks_mut() {
                for i in b.instructions_mut() {
                    if let Operation::Branch { .. } = i.operation() {
                        let t = match rng.below(8) {
                            0 => 0xdead_0000,                       // nothing there
                            1 if code => CODE_ADDR,                 // machine code to lift on demand
                            2 => u64::MAX - rng.below(4),           // extreme
                            _ => *rng.pick(&firsts),
                        };
                        *i.operation_mut() = Operation::branch(Expression::Constant(il::const_(t, 64)));
                    }
                }
            }
            // a function's own address is unrelated to where its instructions are: one in three gets the
            // address of some block of the program (branch targets are found by instruction address)
            if !firsts.is_empty() && rng.chance(1, 3) {
                let a = *rng.pick(&firsts);
                f2 = il::Function::new(a, f2.control_flow_graph().clone());
            }
            patched.add_function(f2);
        }
        let big = rng.bool();
        let mut init = BTreeMap::new();
        for s in &pools[0] {
            if rng.chance(1, 12) {
                continue; // leave undefined
            }
            init.insert(s.name().to_string(), Bv::new(rng.corner_big(s.bits()), s.bits()));
        }
        let mut mem = BTreeMap::new();
        let hole = if rng.chance(1, 4) { Some(MEM_BASE + rng.below(MEM_LEN)) } else { None };
        for a in MEM_BASE..MEM_BASE + MEM_LEN {
            if Some(a) != hole {
                mem.insert(a, rng.u64() as u8);
            }
        }
        Scenario { program: patched, pools, big, init, mem, code, backing: rng.bool(), backing_other_endian: rng.chance(1, 3) }
    }

    fn run_scenario(&self, ctx: &mut Ctx, sc: &Scenario, tag: &str) {
        let endian = if sc.big { Endian::Big } else { Endian::Little };
        let pj = || -> Value {
            json!({
                "functions": sc.program.functions().iter().map(|f| ilgen::describe(f)).collect::<Vec<_>>(),
                "endian": if sc.big {"big"} else {"little"},
                "init": sc.init.iter().map(|(k, v)| (k.clone(), v.hex())).collect::<BTreeMap<_, _>>(),
                "mem_hole": (MEM_BASE..MEM_BASE + MEM_LEN).find(|a| !sc.mem.contains_key(a)).map(|a| format!("0x{:x}", a)),
                "code_at": if sc.code { Some(format!("0x{:x}", CODE_ADDR)) } else { None },
            })
        };
        ctx.trace(|| format!("program {}", pj()));
        // ---- falcon side
        let mut memory: Memory = if sc.backing {
            // one backing in three has the opposite byte order: the executor's loads must assemble bytes in the
            // byte order of the memory it was given, whatever the backing's own accessor would do
            let b_endian = if sc.backing_other_endian { if sc.big { Endian::Little } else { Endian::Big } } else { endian.clone() };
            let mut b = falcon::memory::backing::Memory::new(b_endian);
            // contiguous runs
            let mut run: Vec<u8> = Vec::new();
            let mut start = None;
            for a in MEM_BASE..=MEM_BASE + MEM_LEN {
                match sc.mem.get(&a) {
                    Some(v) => {
                        if start.is_none() {
                            start = Some(a);
                        }
                        run.push(*v);
                    }
                    None => {
                        if let Some(s) = start.take() {
                            b.set_memory(s, std::mem::take(&mut run), MemoryPermissions::READ | MemoryPermissions::WRITE);
                        }
                    }
                }
            }
            Memory::new_with_backing(endian.clone(), RC::new(b))
        } else {
            let mut m = Memory::new(endian.clone());
            for (a, v) in &sc.mem {
                m.store(*a, il::const_(*v as u64, 8)).unwrap();
            }
            m
        };
        let code_bytes: Vec<u8> = vec![0x48, 0x01, 0xd8, 0xc3]; // add rax, rbx ; ret
        if sc.code {
            for (i, b) in code_bytes.iter().enumerate() {
                memory.store(CODE_ADDR + i as u64, il::const_(*b as u64, 8)).unwrap();
            }
            memory.set_permissions(CODE_ADDR, 16, MemoryPermissions::READ | MemoryPermissions::EXECUTE);
        }
        let mut state = State::new(memory);
        for (k, v) in &sc.init {
            state.set_scalar(k.clone(), il::Constant::new_big(v.v.clone(), v.bits));
        }
        let f0 = sc.program.function(0).unwrap();
        let start = match RefProgramLocation::from_function(f0) {
            Some(Ok(l)) => l,
            _ => return,
        };
        let arch: RC<dyn Architecture> = RC::new(Amd64::new());
        let mut driver = Driver::new(RC::new(sc.program.clone()), start.into(), state, arch);
        // ---- reference side
        let mut m = match Machine::new(f0, sc.big, false) {
            Some(m) => m,
            None => return,
        };
        m.intrinsics = IntrinsicMode::Fault;
        for (k, v) in &sc.init {
            m.set(k, v.clone());
        }
        m.mem = sc.mem.clone();
        if sc.code {
            for (i, b) in code_bytes.iter().enumerate() {
                m.mem.insert(CODE_ADDR + i as u64, *b);
            }
        }
        let mut cur_fn = 0usize;
        let maps: Vec<BTreeMap<u64, Loc>> = sc.program.functions().iter().map(|f| address_map(f)).collect();
        let all_names: Vec<String> = {
            let mut v: Vec<String> = sc.pools.iter().flatten().map(|s| s.name().to_string()).collect();
            v.sort();
            v.dedup();
            v
        };
        let mut trail: Vec<String> = Vec::new();
        let mut kinds_seen: Vec<&'static str> = Vec::new();
        for stepno in 0..200 {
            // compare location
            let dl: &ProgramLocation = driver.location();
            let dfi = dl.apply(driver.program()).ok().and_then(|l| l.function().index());
            let exp_loc = m.loc.clone();
            trail.push(format!("f{}:{}", cur_fn, loc_str(&exp_loc)));
            if trail.len() > 12 {
                trail.remove(0);
            }
            ctx.eval();
            if dl.function_location() != &exp_loc || dfi != Some(cur_fn) {
                ctx.violation(
                    &format!("location:differs:{}", tag),
                    json!({"program": pj(), "step": stepno, "expected": format!("f{}:{}", cur_fn, loc_str(&exp_loc)), "actual": format!("{}", dl), "trail": trail}),
                );
                return;
            }
            let opkind = match &exp_loc {
                Loc::Instruction(b, i) => match sc.program.function(cur_fn).unwrap().block(*b).unwrap().instruction(*i).unwrap().operation() {
                    Operation::Assign { .. } => "assign",
                    Operation::Load { .. } => "load",
                    Operation::Store { .. } => "store",
                    Operation::Branch { .. } => "branch",
                    Operation::Intrinsic { .. } => "intrinsic",
                    Operation::Nop { .. } => "nop",
                },
                Loc::Edge(..) => "edge",
                Loc::EmptyBlock(_) => "empty_block",
            };
            let f = sc.program.function(cur_fn).unwrap();
            let out = m.step(f);
            let dres = guard(|| driver.clone().step());
            let dres = match dres {
                Err(p) => {
                    ctx.panic_violation(&format!("step:{}", opkind), &p, json!({"program": pj(), "step": stepno, "trail": trail}));
                    return;
                }
                Ok(r) => r,
            };
            let at_str = format!("f{}:{}", cur_fn, loc_str(&exp_loc));
            let trail_c = trail.clone();
            let detail = |extra: Value| json!({"program": pj(), "step": stepno, "at": at_str, "op": opkind, "trail": trail_c, "difference": extra});
            if let StepOut::Fault(Fault::AmbiguousGuards) = &out {
                // guards that are not mutually exclusive: outside the deterministic fragment, not judged
                ctx.count("ambiguous_guards_not_judged");
                kinds_seen.push("ambiguous");
                break;
            }
            match (&out, dres) {
                (StepOut::Fault(fault), Ok(_nd)) => {
                    ctx.violation(&format!("error_expected:{}:{}:{}", fault.kind(), opkind, tag), detail(json!({"expected_error": format!("{:?}", fault), "actual": "step succeeded"})));
                    return;
                }
                (StepOut::Terminal, Ok(nd)) => {
                    ctx.violation(&format!("terminal:continued:{}", tag), detail(json!({"actual_location": format!("{}", nd.location())})));
                    return;
                }
                (StepOut::Fault(fault), Err(e)) => {
                    let k = err_kind(&e);
                    let ok = match fault {
                        Fault::NoGuard => k == "no_valid_location",
                        f => k == f.kind(),
                    };
                    if !ok {
                        ctx.violation(&format!("wrong_error:{}:got_{}:{}", fault.kind(), k.split(':').next().unwrap(), tag), detail(json!({"expected_error": format!("{:?}", fault), "actual_error": format!("{:?}", e)})));
                    }
                    kinds_seen.push(fault.kind());
                    break;
                }
                (StepOut::Terminal, Err(e)) => {
                    if err_kind(&e) != "no_valid_location" {
                        ctx.violation(&format!("terminal:wrong_error:{}", tag), detail(json!({"actual_error": format!("{:?}", e)})));
                    }
                    kinds_seen.push("terminal");
                    break;
                }
                (StepOut::Moved, Err(e)) | (StepOut::Branched(_), Err(e)) => {
                    // a branch to an address with no IL and no liftable code must fail; everything else must not
                    if let StepOut::Branched(t) = &out {
                        let known = maps.iter().any(|mp| mp.contains_key(t));
                        let liftable = sc.code && *t == CODE_ADDR;
                        if !known && !liftable {
                            kinds_seen.push("branch_nowhere");
                            break;
                        }
                    }
                    ctx.violation(&format!("spurious_error:{}:{}:{}", err_kind(&e).split(':').next().unwrap(), opkind, tag), detail(json!({"actual_error": format!("{:?}", e)})));
                    return;
                }
                (StepOut::Moved, Ok(nd)) => {
                    driver = nd;
                }
                (StepOut::Branched(t), Ok(nd)) => {
                    // resolve the reference target
                    let hit = maps.iter().enumerate().find(|(_, mp)| mp.contains_key(t));
                    match hit {
                        Some((fi, mp)) => {
                            cur_fn = fi;
                            m.continue_at(mp[t].clone());
                            driver = nd;
                            kinds_seen.push("branch_resolved");
                        }
                        None => {
                            if sc.code && *t == CODE_ADDR {
                                // on-demand lifting: next location must be the first instruction of a function lifted at t
                                let ok = nd
                                    .location()
                                    .apply(nd.program())
                                    .ok()
                                    .map(|l| l.function().address() == *t && l.instruction().and_then(|i| i.address()) == Some(*t) && nd.program().functions().len() == sc.program.functions().len() + 1)
                                    .unwrap_or(false);
                                ctx.eval();
                                if !ok {
                                    ctx.violation(&format!("branch:on_demand_lift_wrong_location:{}", tag), detail(json!({"actual_location": format!("{}", nd.location())})));
                                }
                                kinds_seen.push("branch_lifted");
                                break;
                            }
                            ctx.violation(&format!("branch:to_unmapped_continued:{}", tag), detail(json!({"target": format!("0x{:x}", t), "actual_location": format!("{}", nd.location())})));
                            return;
                        }
                    }
                }
            }
            // ---- compare state
            for name in &all_names {
                ctx.eval();
                let exp = m.get(name);
                let got = driver.state().get_scalar(name);
                let same = match (exp, got) {
                    (None, None) => true,
                    (Some(e), Some(g)) => e.bits == g.bits() && &e.v == g.value(),
                    _ => false,
                };
                if !same {
                    let written_now = m.last_write.as_ref().map(|w| &w.0 .0 == name).unwrap_or(false);
                    ctx.violation(
                        &format!("scalar:{}:{}:{}", if written_now {"wrong_written_value"} else {"untouched_changed"}, opkind, tag),
                        detail(json!({"scalar": name, "expected": exp.map(|e| e.hex()), "actual": got.map(|g| format!("{}", g))})),
                    );
                    return;
                }
            }
            if opkind == "store" || stepno % 16 == 0 {
                for a in (MEM_BASE - 8)..(MEM_BASE + MEM_LEN + 8) {
                    ctx.eval();
                    let exp = m.mem.get(&a).cloned();
                    let got = match driver.state().memory().load(a, 8) {
                        Ok(v) => v.and_then(|c| c.value_u64()).map(|v| v as u8),
                        Err(_) => None,
                    };
                    if exp != got {
                        ctx.violation(&format!("memory:differs:{}:{}", opkind, tag), detail(json!({"address": format!("0x{:x}", a), "expected": exp, "actual": got})));
                        return;
                    }
                }
            }
            kinds_seen.push(opkind);
        }
        kinds_seen.sort();
        kinds_seen.dedup();
        for k in &kinds_seen {
            ctx.count(&format!("seen.{}", k));
        }
        let end = kinds_seen.iter().find(|k| ["undefined_scalar", "unmapped", "div_zero", "intrinsic", "no_guard", "terminal", "branch_nowhere", "branch_lifted", "address_too_wide", "sort"].contains(k)).cloned().unwrap_or("step_cap");
        ctx.class(&format!("end={}/{}/{}{}", end, if sc.big {"be"} else {"le"}, if sc.backing { if sc.backing_other_endian {"backed_other_endian"} else {"backed"} } else {"plain"}, if kinds_seen.contains(&"branch_resolved") {"/xbranch"} else {""}));
        if ctx.want_sample() && sc.program.functions().len() == 1 {
            ctx.sample(pj());
        }
    }
}

impl Check for C07 {
    fn directed(&self) -> u64 {
        1
    }
    fn run(&mut self, ctx: &mut Ctx, rng: &mut Rng, case: u64) {
        if case == 0 {
            // single conditional out-edge whose guard is false: the semantics says "no guard holds"
            let mut cfg = il::ControlFlowGraph::new();
            cfg.new_block().unwrap().assign(il::scalar("s0", 1), il::expr_const(0, 1));
            cfg.new_block().unwrap().assign(il::scalar("s1", 8), il::expr_const(7, 8));
            cfg.conditional_edge(0, 1, il::expr_scalar("s0", 1)).unwrap();
            cfg.set_entry(0).unwrap();
            cfg.set_exit(1).unwrap();
            let mut program = Program::new();
            program.add_function(il::Function::new(0x1000, cfg));
            let sc = Scenario {
                program,
                pools: vec![vec![il::scalar("s0", 1), il::scalar("s1", 8)]],
                big: false,
                init: BTreeMap::new(),
                mem: BTreeMap::new(),
                code: false,
                backing: false,
                backing_other_endian: false,
            };
            self.run_scenario(ctx, &sc, "single_conditional_edge");
            return;
        }
        let broken = rng.chance(1, 10);
        let sc = self.gen(rng, broken);
        self.run_scenario(ctx, &sc, if broken { "nonpartition_guards" } else { "rnd" });
    }
}
