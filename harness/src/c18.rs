//! C18 — Program locations navigate and round-trip consistently.
//!
//! Oracle: `locgraph` (built from blocks/instructions/edges only).

use crate::fw::*;
use crate::ilgen::{self, GenOpts};
use crate::locgraph::{loc_str, LocGraph};
use falcon::il;
use falcon::il::{Function, FunctionLocation as Loc, Program, ProgramLocation, RefFunctionLocation, RefProgramLocation};
use serde_json::json;
use std::collections::{BTreeMap, BTreeSet};

pub struct C18 {}

impl C18 {
    pub fn new(_t: Tier) -> C18 {
        C18 {}
    }
}

fn to_loc(r: &RefFunctionLocation) -> Loc {
    r.clone().into()
}

impl C18 {
    fn check_program(&self, ctx: &mut Ctx, program: &Program, tag: &str) {
        let clone = program.clone();
        for f in program.functions() {
            let lg = LocGraph::build(f);
            let fj = || ilgen::describe(f);
            ctx.trace(|| format!("function {}", fj()));
            // 1. enumeration
            let r = guard(|| f.locations().iter().map(to_loc).collect::<Vec<Loc>>());
            ctx.eval();
            let locs = match r {
                Err(p) => {
                    ctx.panic_violation("locations", &p, fj());
                    return;
                }
                Ok(l) => l,
            };
            let set: BTreeSet<Loc> = locs.iter().cloned().collect();
            if set.len() != locs.len() {
                ctx.violation(&format!("locations:duplicate:{}", tag), json!({"function": fj()}));
            }
            if set != lg.nodes {
                let missing: Vec<String> = lg.nodes.difference(&set).map(loc_str).collect();
                let extra: Vec<String> = set.difference(&lg.nodes).map(loc_str).collect();
                ctx.violation(&format!("locations:{}:{}", if !missing.is_empty() {"missing"} else {"extra"}, tag), json!({"function": fj(), "missing": missing, "extra": extra}));
            }
            // 2. forward/backward per location, converse relation
            let mut fwd: BTreeMap<Loc, BTreeSet<Loc>> = BTreeMap::new();
            let mut bwd: BTreeMap<Loc, BTreeSet<Loc>> = BTreeMap::new();
            for rl in f.locations() {
                let l = to_loc(&rl);
                let rpl = RefProgramLocation::new(f, rl.clone());
                let r = guard(|| (rpl.forward().map(|v| v.iter().map(|x| to_loc(x.function_location())).collect::<Vec<_>>()),
                                  rpl.backward().map(|v| v.iter().map(|x| to_loc(x.function_location())).collect::<Vec<_>>())));
                ctx.evals(2);
                match r {
                    Err(p) => {
                        ctx.panic_violation("forward/backward", &p, json!({"function": fj(), "location": loc_str(&l)}));
                        return;
                    }
                    Ok((fw, bw)) => {
                        match fw {
                            Err(e) => ctx.violation(&format!("forward:error:{}", tag), json!({"function": fj(), "location": loc_str(&l), "error": format!("{:?}", e)})),
                            Ok(v) => {
                                let s: BTreeSet<Loc> = v.iter().cloned().collect();
                                let exp: BTreeSet<Loc> = lg.succs(&l).iter().cloned().collect();
                                if s != exp || s.len() != v.len() {
                                    ctx.violation(
                                        &format!("forward:differs:{}:{}", kind(&l), tag),
                                        json!({"function": fj(), "location": loc_str(&l), "expected": exp.iter().map(loc_str).collect::<Vec<_>>(), "actual": v.iter().map(loc_str).collect::<Vec<_>>()}),
                                    );
                                }
                                fwd.insert(l.clone(), s);
                            }
                        }
                        match bw {
                            Err(e) => ctx.violation(&format!("backward:error:{}", tag), json!({"function": fj(), "location": loc_str(&l), "error": format!("{:?}", e)})),
                            Ok(v) => {
                                let s: BTreeSet<Loc> = v.iter().cloned().collect();
                                let exp: BTreeSet<Loc> = lg.preds(&l).iter().cloned().collect();
                                if s != exp || s.len() != v.len() {
                                    ctx.violation(
                                        &format!("backward:differs:{}:{}", kind(&l), tag),
                                        json!({"function": fj(), "location": loc_str(&l), "expected": exp.iter().map(loc_str).collect::<Vec<_>>(), "actual": v.iter().map(loc_str).collect::<Vec<_>>()}),
                                    );
                                }
                                bwd.insert(l.clone(), s);
                            }
                        }
                    }
                }
            }
            for (a, succs) in &fwd {
                for b in succs {
                    ctx.eval();
                    if !bwd.get(b).map(|s| s.contains(a)).unwrap_or(false) {
                        ctx.violation(&format!("converse:forward_without_backward:{}", tag), json!({"function": fj(), "a": loc_str(a), "b": loc_str(b)}));
                    }
                }
            }
            for (b, preds) in &bwd {
                for a in preds {
                    ctx.eval();
                    if !fwd.get(a).map(|s| s.contains(b)).unwrap_or(false) {
                        ctx.violation(&format!("converse:backward_without_forward:{}", tag), json!({"function": fj(), "a": loc_str(a), "b": loc_str(b)}));
                    }
                }
            }
            // 3. closure of forward() from the entry location
            if let Some(Ok(start)) = RefProgramLocation::from_function(f) {
                let mut seen: BTreeSet<Loc> = BTreeSet::new();
                let mut stack = vec![start.clone()];
                seen.insert(to_loc(start.function_location()));
                let r = guard(|| {
                    while let Some(x) = stack.pop() {
                        for n in x.forward().unwrap_or_default() {
                            if seen.insert(to_loc(n.function_location())) {
                                stack.push(n);
                            }
                        }
                    }
                });
                ctx.eval();
                if let Err(p) = r {
                    ctx.panic_violation("forward_closure", &p, fj());
                } else if let Some(e) = &lg.entry {
                    let exp = lg.reach_from(e, true);
                    if seen != exp {
                        ctx.violation(&format!("forward_closure:differs:{}", tag), json!({"function": fj(), "expected": exp.len(), "actual": seen.len()}));
                    }
                    if to_loc(start.function_location()) != *e {
                        ctx.violation(&format!("from_function:wrong_entry:{}", tag), json!({"function": fj()}));
                    }
                }
            }
            // 4. round trips
            for rl in f.locations() {
                let rpl = RefProgramLocation::new(f, rl.clone());
                let owned: ProgramLocation = rpl.clone().into();
                let r = guard(|| {
                    let a = owned.apply(program).map(|x| x == rpl && to_loc(x.function_location()) == to_loc(&rl));
                    let b = owned.apply(&clone).map(|x| to_loc(x.function_location()) == to_loc(&rl) && x.function().index() == f.index());
                    let fl: Loc = rl.clone().into();
                    let c = fl.apply(f).map(|x| x == rl);
                    let d = rpl.migrate(&clone).map(|x| to_loc(x.function_location()) == to_loc(&rl) && x.function().index() == f.index());
                    (a, b, c, d)
                });
                ctx.evals(4);
                match r {
                    Err(p) => {
                        ctx.panic_violation("roundtrip", &p, json!({"function": fj(), "location": loc_str(&to_loc(&rl))}));
                        return;
                    }
                    Ok((a, b, c, d)) => {
                        for (name, res) in [("apply_same", a), ("apply_clone", b), ("function_location_apply", c), ("migrate", d)] {
                            match res {
                                Ok(true) => {}
                                Ok(false) => ctx.violation(&format!("roundtrip:{}:different_location:{}", name, tag), json!({"function": fj(), "location": loc_str(&to_loc(&rl))})),
                                Err(e) => ctx.violation(&format!("roundtrip:{}:error:{}", name, tag), json!({"function": fj(), "location": loc_str(&to_loc(&rl)), "error": format!("{:?}", e)})),
                            }
                        }
                    }
                }
            }
            let has_empty = f.blocks().iter().any(|b| b.is_empty());
            let has_self = f.edges().iter().any(|e| e.head() == e.tail());
            ctx.class(&format!("b{}/e{}/{}{}", f.blocks().len().min(9), f.edges().len().min(12), if has_empty {"empty"} else {"noempty"}, if has_self {"/selfloop"} else {""}));
        }
        // 5. address lookup
        let mut addrs: BTreeSet<u64> = BTreeSet::new();
        for f in program.functions() {
            for b in f.blocks() {
                for i in b.instructions() {
                    if let Some(a) = i.address() {
                        addrs.insert(a);
                    }
                }
            }
        }
        let lo = addrs.iter().next().cloned().unwrap_or(0x1000).saturating_sub(8);
        let hi = addrs.iter().last().cloned().unwrap_or(0x1000) + 8;
        for a in lo..=hi {
            let r = guard(|| RefProgramLocation::from_address(program, a).map(|l| (l.instruction().map(|i| i.address()), l.function().index())));
            ctx.eval();
            match r {
                Err(p) => ctx.panic_violation("from_address", &p, json!({"address": a})),
                Ok(got) => {
                    let exists = addrs.contains(&a);
                    match got {
                        None if exists => ctx.violation(&format!("from_address:not_found:{}", tag), json!({"address": format!("0x{:x}", a), "functions": program.functions().iter().map(|f| ilgen::describe(f)).collect::<Vec<_>>()})),
                        Some((ia, _)) if ia != Some(Some(a)) => ctx.violation(&format!("from_address:wrong_instruction:{}", tag), json!({"address": format!("0x{:x}", a), "found": format!("{:?}", ia)})),
                        _ => {}
                    }
                }
            }
        }
    }
}

fn kind(l: &Loc) -> &'static str {
    match l {
        Loc::Instruction(..) => "instruction",
        Loc::Edge(..) => "edge",
        Loc::EmptyBlock(..) => "empty_block",
    }
}

fn gen_function(rng: &mut Rng) -> Function {
    let o = GenOpts {
        max_blocks: 8,
        max_instrs: 4,
        all_reachable: rng.bool(),
        unique_addresses: rng.bool(),
        memory: true,
        intrinsics: true,
        addr_base: 0x1000 + 0x20 * rng.below(6),
        ..GenOpts::default()
    };
    let mut f = ilgen::generate(rng, &o).f;
    // one function in four has been through ControlFlowGraph::merge() (blocks absorbed and removed,
    // instructions appended to blocks that had instructions removed)
    if rng.chance(1, 4) {
        let mut cfg = f.control_flow_graph().clone();
        if let Ok(Ok(())) = guard(|| cfg.merge()) {
            f = Function::new(f.address(), cfg);
        }
    }
    // instruction indices need not follow the order of the instructions (Block::instructions_mut is public):
    // one function in four has blocks whose instructions were rotated
    if rng.chance(1, 4) {
        for b in f.blocks_mut() {
            let n = b.instructions().len();
            if n >= 2 && rng.bool() {
                let k = 1 + rng.usize(n - 1);
                b.instructions_mut().rotate_left(k);
            }
        }
    }
    // phi nodes are not locations: one function in four carries phi nodes in some blocks, also in blocks
    // that hold no instructions (as the join block of a diamond has after the SSA transformation)
    if rng.chance(1, 4) {
        let idxs: Vec<usize> = f.blocks().iter().map(|b| b.index()).collect();
        for bi in idxs {
            if rng.chance(1, 2) {
                let preds: Vec<usize> = f.control_flow_graph().predecessor_indices(bi).unwrap_or_default();
                let mut phi = il::PhiNode::new(il::scalar("s1", 8));
                for p in preds {
                    phi.add_incoming(il::scalar("s1", 8), p);
                }
                if let Ok(b) = f.control_flow_graph_mut().block_mut(bi) {
                    b.add_phi_node(phi);
                }
            }
        }
    }
    // the function's own address need not be its lowest instruction address (cold parts placed
    // before the entry): half of the functions are given the address of a later instruction
    if rng.bool() {
        let addrs: Vec<u64> = f.blocks().iter().flat_map(|b| b.instructions().iter().filter_map(|i| i.address())).collect();
        if !addrs.is_empty() {
            let a = addrs[rng.usize(addrs.len())] + if rng.chance(1, 4) { 0x100 } else { 0 };
            return Function::new(a, f.control_flow_graph().clone());
        }
    }
    f
}

impl Check for C18 {
    fn run(&mut self, ctx: &mut Ctx, rng: &mut Rng, _case: u64) {
        let mut p = Program::new();
        let nf = 1 + rng.usize(3);
        for _ in 0..nf {
            p.add_function(gen_function(rng));
        }
        self.check_program(ctx, &p, "rnd");
        // a program assembled from functions that already belonged to another program (they arrive with an index):
        // a fresh function first, then clones taken out of `p` in a random order
        if rng.chance(1, 3) {
            let mut q = Program::new();
            if rng.bool() {
                q.add_function(gen_function(rng));
            }
            let mut fs: Vec<Function> = p.functions().iter().map(|f| (*f).clone()).collect();
            if rng.bool() {
                fs.reverse();
            }
            for f in fs {
                q.add_function(f);
            }
            // every function must be findable under the index it reports
            for f in q.functions() {
                ctx.eval();
                let ok = f.index().and_then(|i| q.function(i)).map(|g| g.address() == f.address() && g.control_flow_graph().blocks().len() == f.control_flow_graph().blocks().len()).unwrap_or(false);
                if !ok {
                    ctx.violation("program:function_not_stored_under_its_index:reassembled", json!({"index": f.index(), "address": format!("0x{:x}", f.address())}));
                }
            }
            self.check_program(ctx, &q, "reassembled");
        }
        if ctx.want_sample() {
            ctx.sample(json!({"functions": p.functions().iter().map(|f| ilgen::describe(f)).collect::<Vec<_>>()}));
        }
    }
}
